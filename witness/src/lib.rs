//! Compile-fail witnesses (and compiling twins) for the type-level clauses of the des properties.
//! Each witness names des as an external user would; each has a twin that differs only in the
//! offending line and must compile, so that a witness cannot pass merely because a path is wrong.
//! Run with `cargo +nightly test --doc` (error codes are only checked on nightly).

/// W1 (C01.R6): an event handle is linear — cancelling twice must not type-check.
/// ```compile_fail,E0382
/// use std::time::Duration;
/// let mut q = des_cqueue::CQueue::<u32>::new(8, Duration::from_secs(1));
/// let h = q.add(Duration::from_secs(5), 1);
/// q.cancel(h);
/// q.cancel(h); // use of moved value
/// ```
pub struct W1CancelTwice;

/// W1 twin: a single cancel compiles.
/// ```
/// use std::time::Duration;
/// let mut q = des_cqueue::CQueue::<u32>::new(8, Duration::from_secs(1));
/// let h = q.add(Duration::from_secs(5), 1);
/// q.cancel(h);
/// ```
pub struct W1CancelTwiceTwin;

/// W1b (C01.R6): handles cannot be duplicated.
/// ```compile_fail,E0599
/// use std::time::Duration;
/// let mut q = des_cqueue::CQueue::<u32>::new(8, Duration::from_secs(1));
/// let h = q.add(Duration::from_secs(5), 1);
/// let h2 = h.clone(); // EventHandle is not Clone
/// q.cancel(h2);
/// ```
pub struct W1bHandleClone;

/// W1b twin: moving the handle compiles.
/// ```
/// use std::time::Duration;
/// let mut q = des_cqueue::CQueue::<u32>::new(8, Duration::from_secs(1));
/// let h = q.add(Duration::from_secs(5), 1);
/// let h2 = h;
/// q.cancel(h2);
/// ```
pub struct W1bHandleCloneTwin;

/// W2 (C02.R1): user code cannot write the simulation clock.
/// ```compile_fail,E0624
/// use des::prelude::SimTime;
/// SimTime::set_now(SimTime::ZERO); // private associated function
/// ```
pub struct W2SetNow;

/// W2 twin: reading the clock compiles.
/// ```
/// use des::prelude::SimTime;
/// let _ = SimTime::now();
/// ```
pub struct W2SetNowTwin;

/// W3 (C16.R5): a message's content cannot be reached around the type-checked accessors.
/// ```compile_fail,E0616
/// use des::prelude::Message;
/// let msg = Message::default().with_content(42u32);
/// let _ = msg.content; // private field
/// ```
pub struct W3Content;

/// W3 twin: the checked accessor compiles.
/// ```
/// use des::prelude::Message;
/// let msg = Message::default().with_content(42u32);
/// let _ = msg.try_content::<u32>();
/// ```
pub struct W3ContentTwin;

/// Derive witnesses (C16.R6): the MIR of the generated `byte_len` is inspected by the check
/// (one call of `byte_len` per field of the active variant, summed).
pub mod derive {
    use des::prelude::*;

    #[derive(MessageBody)]
    pub struct Named {
        pub a: u8,
        pub b: u32,
        pub c: String,
    }

    #[derive(MessageBody)]
    pub struct Tuple(pub u16, pub Vec<u8>);

    #[derive(MessageBody)]
    pub struct Unit;

    #[derive(MessageBody)]
    pub struct GenericS<T: MessageBody> {
        pub head: T,
        pub tail: Option<T>,
    }

    #[derive(MessageBody)]
    pub enum Mixed {
        A { x: u64, y: u8 },
        B(u32, String, [u8; 4]),
        C,
    }

    #[derive(MessageBody)]
    pub enum GenericE<T: MessageBody, U>
    where
        U: MessageBody,
    {
        L(T),
        R { u: U, n: u8 },
        Both(T, U),
    }
}

#!/bin/sh
# builds the fact extractor; filled in as the framework grows
exit 0

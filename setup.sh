#!/bin/sh
# Builds the fact extractor and pre-checks the dependencies (offline; nothing is fetched).
set -e
cd "$(dirname "$0")"
export CARGO_NET_OFFLINE=true
( cd driver && cargo +nightly build --release --offline )
# warm the per-configuration target dirs and the fact cache for the current tree
python3 -m rules.engine.extract /repo A >/dev/null
python3 -m rules.engine.extract /repo B >/dev/null || true
exit 0

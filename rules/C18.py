"""C18 — NDL elaboration is total (structural clauses, DESIGN §4 C18)."""
from .engine.helpers import *

EXPLANATION = (
    "Static analysis of the NDL front end (des-net-utils::ndl): (R1) panic-site inventory — every construct that can panic (diverging "
    "panic/assert calls, unwrap/expect, indexing and slicing, swap/remove/insert, arithmetic and bounds assertions) reachable from "
    "`transform` and from the FromStr/Deserialize/Visitor impls of the description types is keyed by (function, kind, provenance of the "
    "unwrapped/indexed value) and must be in the audited table with its justification; where the justification is a dominating test the "
    "rule re-checks that test; an untabled reachable site is a violation; (R2) the cardinality access table of connection endpoints "
    "(atom/cluster definition x atom/indexed access) accepts exactly the in-range combinations; (R3) type-argument substitution replaces "
    "every placeholder submodule of a binding (a loop over all submodules, not a single find); (R4) interface conformance compares whole gate definitions (identifier and cardinality); (R5) instantiation names submodule instances by the kind of their declaration (atom: bare name, cluster: name[k] for every k, also for size 1). "
    "(R6) every described link becomes a channel with its parameters, and only links do; (R7) the elaboration order's readiness predicate accepts a dependency only if it is in the provider set. "
    '(R8) the position stack of the endpoint expansion is pushed once and popped once around each descent; (R9) every successful transform_submodule path has seen a non-zero cluster size. '
    "(R9 also: a type argument list has the arity its declaration has; R10, shared with C08.R4: a link between gates that are already connected to each other changes nothing, tested before the capacity test.) "
    '(R9 also: generic bindings are resolved for argument-less types only; a type argument is looked up as written.) '
    "(R4 also: submodules and connections of the bound are looked for as whole elements; R6 also: bitrate, latency and jitter of a channel are each computed from the described link's field of the same name alone.) "
    "Decides these necessary conditions only; "
    "not that the built simulation equals the description.")
ASSUMPTIONS = ["serde_yml itself does not panic on malformed documents", "documents reach the front end only through serde (FromStr/Deserialize impls) and transform()"]

ND = 'des_net_utils::ndl::'
MAY = ('unwrap', 'expect', 'unwrap_err', 'expect_err', 'index', 'index_mut', 'remove', 'swap_remove', 'insert', 'swap', 'split_at', 'split_off',
       'drain', 'copy_from_slice', 'unwrap_unchecked', 'truncate', 'split_at_mut', 'rotate_left', 'rotate_right', 'chunks', 'windows', 'step_by')
NOPANIC_RECV = ('HashMap', 'HashSet', 'BTreeMap', 'BTreeSet', 'Mapping', 'FxHash')


TRANSPARENT = ('iter', 'iter_mut', 'into_iter', 'enumerate', 'deref', 'deref_mut', 'as_ref', 'as_mut', 'borrow', 'clone', 'map', 'collect', 'values', 'keys', 'as_str',
               'cloned', 'copied', 'zip', 'by_ref')


_PROG = None


def root_sig(t, depth=0):
    """stable, line-free description of where a value comes from (private helper names and closures are dropped)"""
    if depth > 40:
        return '…'
    t = peel(t)
    k = t[0]
    if k == 'arg':
        return 'self' if t[2] == 'self' else 'a%d' % t[1]
    if k == 'field':
        if t[2].isdigit():
            return root_sig(t[1], depth)
        # a field of a private record that did not exist on the pinned tree (a tuple given names) is transparent like a tuple position
        badts = getattr(_PROG, 'baseline_adts', None) if _PROG is not None else None
        if badts is not None and len(t) > 3 and isinstance(t[3], str) and t[3].startswith('des') and strip_generics(t[3]) not in badts:
            return root_sig(t[1], depth)
        return '%s.%s' % (root_sig(t[1], depth + 1), t[2])
    if k == 'index':
        return '%s[]' % root_sig(t[1], depth + 1)
    if k == 'as':
        return root_sig(t[1], depth)
    if k == 'call':
        last = t[1].split('::')[-1]
        if not t[2]:
            return last + '()'
        if last in TRANSPARENT:
            return root_sig(t[2][0], depth)
        if last == 'next':
            return 'each(%s)' % root_sig(t[2][0], depth + 1)
        if last in ('get', 'index', 'index_mut', 'get_mut') and len(t[2]) > 1:
            return '%s(%s,%s)' % (last, root_sig(t[2][0], depth + 1), root_sig(t[2][1], depth + 1))
        return '%s(%s)' % (last, root_sig(t[2][0], depth + 1))
    if k == 'agg':
        return t[1].split('::')[-1].lower()
    if k in ('phi', 'var', 'local'):
        return 'var'
    if k == 'int':
        return str(t[1])
    if k == 'bin':
        return '(%s%s%s)' % (root_sig(t[2], depth + 1), {'Add': '+', 'Sub': '-', 'AddWithOverflow': '+', 'SubWithOverflow': '-'}.get(t[1], t[1]), root_sig(t[3], depth + 1))
    if k == 'cast':
        return root_sig(t[2], depth + 1)
    return k


def roots(P):
    r = [ND + 'transform']
    for f in P.fn_list:
        if f.file and f.file.endswith('ndl/def.rs') and f.kind == 'assocfn' and f.trait:
            t = strip_generics(f.trait)
            if t.endswith(('::Deserialize', 'de::Visitor', 'std::str::FromStr', 'DeserializeSeed')):
                r.append(f.key)
    return sorted(set(r))


def inventory(P):
    """list of (key, fn, where, kind, description, site-object-or-block)"""
    seen, par = P.reachable_from(roots(P))
    out = []
    for k in sorted(seen):
        f = P.fns[k]
        if f.crate != 'des_net_utils' or f.kind == 'promoted':
            continue
        fk = f.key.replace(ND, '')
        for s in f.calls():
            last = s.name.split('::')[-1]
            if s.is_diverging():
                # constant message if any
                msg = ''
                for a in s.args:
                    t = f.expr_operand(a, s.b, 'T')
                    for x in walk(t):
                        if x[0] == 'const' and '"' in str(x[1]):
                            msg = str(x[1]).strip('"')[:40]
                atoms = [show_atom(a) for _, a in f.guard_atoms(s.b)][-1:]
                out.append(('%s|panic|%s|%s' % (fk, last, msg or ';'.join(atoms)[:60]), f, s.where(), 'panic', msg, s))
            elif last in MAY and s.args:
                if any(n in s.name for n in NOPANIC_RECV) and last in ('insert', 'remove', 'swap_remove', 'drain'):
                    continue
                recv = f.expr_operand(s.args[0], s.b, 'T')
                extra = root_sig(f.expr_operand(s.args[1], s.b, 'T')) if len(s.args) > 1 and last in ('index', 'index_mut', 'swap', 'remove', 'insert', 'split_at', 'drain', 'split_off') else ''
                out.append(('%s|%s|%s|%s' % (fk, last, root_sig(recv), extra), f, s.where(), last, root_sig(recv), s))
        for b in sorted(f.reachable()):
            t = f.term(b)
            if t['k'] == 'assert':
                if t['ak'] == 'bounds':
                    ln, ix = t.get('len', {}), t.get('index', {})
                    lt_ = f.expr_operand(ln, b, 'T') if ln else ('unknown',)
                    it_ = f.expr_operand(ix, b, 'T') if ix else ('unknown',)
                    if lt_[0] == 'int' and it_[0] == 'int' and 0 <= it_[1] < lt_[1]:
                        out.append(('%s|bounds-const|%d<%d' % (fk, it_[1], lt_[1]), f, f.where(b), 'bounds-const', '', b))
                        continue
                    it = f.expr_operand(ix, b, 'T') if ix else ('unknown',)
                    out.append(('%s|bounds|%s' % (fk, root_sig(it)), f, f.where(b), 'bounds', '', b))
                else:
                    c = f.expr_operand(t['c'], b, 'T')
                    out.append(('%s|%s|%s' % (fk, t['ak'], root_sig(c)), f, f.where(b), t['ak'], '', b))
    return out


def _mentions_len(t):
    return any(x[0] == 'call' and x[1].endswith(('::len', '::count')) for x in walk(t))


def index_like(f, t, b, depth=0):
    """value known to be <= isize::MAX: a collection length/position/enumeration index, a small constant, or a variable that is
    compared `< len(..)` on the way to block b (the sum of two such values cannot overflow a usize)"""
    if depth > 6:
        return False
    t = peel(t)
    c = canon(strip_refs(t))
    for _, a in f.guard_atoms(b):
        if a[0] == 'cmp' and a[1] in ('lt', 'le') and a[2] == c and _mentions_len(a[3]):
            return True
        if a[0] == 'cmp' and a[1] in ('gt', 'ge') and a[3] == c and _mentions_len(a[2]):
            return True
    if t[0] == 'int':
        return 0 <= t[1] < 2 ** 62
    if t[0] == 'call':
        last = t[1].split('::')[-1]
        if last in ('len', 'count'):
            return True
        return False
    if t[0] == 'field' and t[2] == '0':
        inner = peel(t[1])
        # (position(..) as Some).0 / item.0 of an enumerate()
        if inner[0] == 'as' and inner[2] == 'Some':
            src = peel(inner[1])
            if src[0] == 'call' and src[1].split('::')[-1] in ('position', 'rposition'):
                return True
            if src[0] == 'call' and src[1].endswith('::next'):
                it = src[2][0] if src[2] else None
                if it is not None and any(x[0] == 'call' and x[1].endswith('::enumerate') for x in walk(it)):
                    return True
                # Range<usize> up to an index-like bound
                rng = [x for x in walk(it)] if it is not None else []
                rng = [x for x in rng if x[0] == 'agg' and 'ops::Range' in str(x[1]) and len(x[2]) == 2]
                if rng and index_like(f, rng[0][2][1], b, depth + 1):
                    return True
        if inner[0] == 'field' and inner[2] == '0':
            return index_like(f, inner, b, depth + 1)
        return False
    if t[0] == 'as' and t[2] == 'Some':
        return index_like(f, ('field', t, '0', ''), b, depth + 1)
    if t[0] == 'phi':
        return all(index_like(f, x, b, depth + 1) for x in t[1])
    return False


def local_lt_len(f, L, b):
    """MIR level: block b is dominated by the true edge of a test `L < <something with len()>` and L is not reassigned between
    that test and b (loop-carried variables have context-dependent expression trees, so this does not compare trees)"""
    from .engine.helpers import _chase, _chase_local
    defs_L = [d for d in f._defs() if d[0] == L]
    for (sblk, cond, val) in f.guards(b):
        t = f.term(sblk)
        if t['k'] != 'switch':
            continue
        rv = _chase(f, {'k': 'use', 'o': t['d']})
        if rv is None or rv['k'] != 'binop' or rv['op'] not in ('Lt', 'Le'):
            continue
        truth = (val[0] == 'eq' and val[1] != 0) or (val[0] == 'ne' and tuple(val[1]) == (0,))
        if not truth or _chase_local(f, rv['a']) != L:
            continue
        if not _mentions_len(f.expr_operand(rv['b'], sblk, 'T')):
            continue
        between = f.reach_from(sblk)
        clobber = [d for d in defs_L if d[1] in between and d[1] != sblk and b in f.reach_from(d[1]) and d[1] != b and f.dominates(sblk, d[1]) and not back_only(f, d[1], b, sblk)]
        if not clobber:
            return True
    return False


def auto_safe(f, kind, site):
    """general arguments that discharge a may-panic construct without a table entry; returns the reason or None"""
    b = site.b if hasattr(site, 'b') else site
    t = f.term(b)
    if kind.startswith('overflow:Add') and t['k'] == 'assert':
        c = peel(f.expr_operand(t['c'], b, 'T'))
        if c[0] == 'field' and c[1][0] == 'bin' and c[1][1].startswith('Add'):
            x, y = c[1][2], c[1][3]
            from .engine.helpers import _chase, _chase_local
            rv = _chase(f, {'k': 'use', 'o': {'k': 'copy', 'p': {'l': t['c']['p']['l'], 'pr': [{'k': 'field', 'i': 0}]}}}) if t['c'].get('p') else None
            ops = [rv['a'], rv['b']] if rv is not None and rv['k'] in ('binop', 'cbinop') else [None, None]
            def ok_operand(tree, op):
                if index_like(f, tree, b):
                    return True
                L = _chase_local(f, op) if op is not None and op.get('k') in ('copy', 'move') else None
                return L is not None and local_lt_len(f, L, b)
            if ok_operand(x, ops[0]) and ok_operand(y, ops[1]):
                return 'sum of two values bounded by collection lengths (each <= isize::MAX) cannot overflow usize'
    if kind in ('index', 'index_mut') and hasattr(site, 'args') and len(site.args) == 2:
        # `xs[(i + 1)..]` with i enumerating xs: i < xs.len(), hence i + 1 <= xs.len() — a valid (possibly empty) tail
        rng = peel(f.expr_operand(site.args[1], b, 'T'))
        if rng[0] == 'agg' and 'RangeFrom' in str(rng[1]) and rng[2]:
            st = peel(rng[2][0])
            if st[0] == 'field' and st[1][0] == 'bin':
                st = st[1]
            recv = root_sig(f.expr_operand(site.args[0], b, 'T'))
            if st[0] == 'bin' and st[1].startswith('Add') and st[3] == ('int', 1):
                i_ = peel(st[2])
                if i_[0] == 'field' and i_[2] == '0':
                    src = peel(i_[1])
                    while src[0] == 'field' and src[2] == '0':
                        src = peel(src[1])
                    if src[0] == 'as' and src[2] == 'Some' and peel(src[1])[0] == 'call' and peel(src[1])[1].endswith('::next'):
                        it = peel(src[1])[2][0]
                        enum = [x for x in walk(it) if x[0] == 'call' and x[1].endswith('::enumerate')]
                        if enum and root_sig(enum[0][2][0]) == recv:
                            return 'tail slice starting one past an index that enumerates the same sequence (start <= len)'
    if kind.startswith('overflow:Add') and t['k'] == 'assert':
        c = peel(f.expr_operand(t['c'], b, 'T'))
        if c[0] == 'field' and c[1][0] == 'bin' and c[1][1].startswith('Add') and ('int', 1) in (peel(c[1][2]), peel(c[1][3])):
            x = c[1][2] if peel(c[1][3]) == ('int', 1) else c[1][3]
            cx = canon(strip_refs(peel(x)))
            for _, a in f.guard_atoms(b):
                if a[0] == 'cmp' and ((a[1] == 'lt' and a[2] == cx) or (a[1] == 'gt' and a[3] == cx)):
                    return 'x + 1 where x < y was tested on the way here (x < y <= MAX)'
    if kind in ('index', 'index_mut') and hasattr(site, 'args') and len(site.args) == 2:
        # `xs[1..]` of a slice that was found non-empty (1 <= len): a valid, possibly empty, tail
        rng1 = peel(f.expr_operand(site.args[1], b, 'T'))
        if rng1[0] == 'agg' and 'RangeFrom' in str(rng1[1]) and rng1[2] and peel(rng1[2][0]) == ('int', 1):
            subj = canon(strip_refs(f.expr_operand(site.args[0], b, 'T')))
            for _, a in f.guard_atoms(b):
                if a[0] == 'bool' and a[2] is False and a[1][0] == 'call' and a[1][1].endswith('::is_empty') and a[1][2] and a[1][2][0] == subj:
                    return 'tail slice [1..] of a slice that was tested non-empty on the way here'
    if kind in ('index', 'index_mut', 'swap') and hasattr(site, 'args') and len(site.args) >= 2:
        # `for i in lo..xs.len() { .. xs[i] .. xs[i..] .. xs.swap(i, i + <position within xs[i..]>) }` with xs not resized in the loop
        recv_t = f.expr_operand(site.args[0], b, 'T')
        recv = root_sig(recv_t)
        def range_item(t):
            """t is the item of a `lo..len(xs)` range over the receiver: returns True"""
            t = peel(t)
            if not (t[0] == 'field' and t[2] == '0'):
                return False
            src = peel(t[1])
            if not (src[0] == 'as' and src[2] == 'Some' and peel(src[1])[0] == 'call' and peel(src[1])[1].endswith('::next') and peel(src[1])[2]):
                return False
            rngs = [x for x in walk(peel(src[1])[2][0]) if x[0] == 'agg' and 'ops::Range' in str(x[1]) and 'RangeFrom' not in str(x[1]) and 'Inclusive' not in str(x[1]) and len(x[2]) == 2]
            if len(rngs) != 1:
                return False
            hi = peel(rngs[0][2][1])
            return hi[0] == 'call' and hi[1].split('::')[-1] == 'len' and bool(hi[2]) and root_sig(hi[2][0]) == recv
        def not_resized():
            hs = f.loops_containing(b)
            if not hs:
                return False
            body = f.loops()[hs[0]] if isinstance(hs, list) else set()
            for h in hs:
                body = body | f.loops()[h]
            for c in f.calls():
                if c.b in body and c.args and c.name.split('::')[-1] in ('push', 'pop', 'insert', 'remove', 'swap_remove', 'truncate', 'clear', 'drain', 'retain', 'split_off',
                                                                          'append', 'extend', 'resize', 'dedup', 'take', 'replace') \
                        and root_sig(f.expr_operand(c.args[0], c.b, 'T')) == recv:
                    return False
            return True
        i1 = peel(f.expr_operand(site.args[1], b, 'T'))
        if kind != 'swap':
            if i1[0] == 'agg' and 'RangeFrom' in str(i1[1]) and i1[2] and range_item(i1[2][0]) and not_resized():
                return 'tail slice starting at an index drawn from lo..len of the same (not resized) vector (start < len)'
            if range_item(i1) and not_resized():
                return 'index drawn from lo..len of the same (not resized) vector'
        elif len(site.args) == 3 and range_item(i1) and not_resized():
            i2 = peel(f.expr_operand(site.args[2], b, 'T'))
            i2 = i2[1] if (i2[0] == 'field' and i2[1][0] == 'bin') else i2
            if range_item(i2):
                return 'both positions drawn from lo..len of the same (not resized) vector'
            if i2[0] == 'bin' and i2[1].startswith('Add'):
                parts = [peel(i2[2]), peel(i2[3])]
                base = [p_ for p_ in parts if canon(p_) == canon(i1)]
                off = [p_ for p_ in parts if canon(p_) != canon(i1)]
                if len(base) == 1 and len(off) == 1:
                    o = off[0]
                    # offset = position(..) within xs[i..]  (< len - i)
                    if o[0] == 'field' and o[2] == '0' and peel(o[1])[0] == 'as' and peel(peel(o[1])[1])[0] == 'call' and peel(peel(o[1])[1])[1].split('::')[-1] == 'position':
                        it = peel(peel(o[1])[1])[2][0]
                        tails = [x for x in walk(it) if x[0] == 'call' and x[1].split('::')[-1] in ('index', 'index_mut') and len(x[2]) == 2 and root_sig(x[2][0]) == recv
                                 and peel(x[2][1])[0] == 'agg' and 'RangeFrom' in str(peel(x[2][1])[1]) and canon(peel(peel(x[2][1])[2][0])) == canon(i1)]
                        if tails:
                            return 'swap(i, i + position within xs[i..]): both below len of the same (not resized) vector'
    def _found_position_in(recv_sig, own_block=None):
        """on the way to b a `position(..)` over the same sequence was Some (so the sequence is non-empty and the payload < len), and the
        sequence's length was not changed since"""
        hits = []
        some_names = {a[1][1] for _, a in f.guard_atoms(b) if a[0] == 'is' and a[2] == 'Some' and a[1][0] == 'call'}
        for c in f.calls():
            if c.name.split('::')[-1] in ('position', 'rposition') and c.name in some_names and c.args and recv_sig is not None and f.dominates(c.b, b) and c.b != b:
                src = f.expr_operand(c.args[0], c.b, 'T')
                subs = [y for y in walk(src) if y[0] == 'call' and y[1].split('::')[-1] in ('iter', 'iter_mut', 'into_iter') and y[2]]
                if any(root_sig(y[2][0]) == recv_sig for y in subs):
                    hits.append(c.b)
        if not hits:
            return False
        for c in f.calls():
            if c.args and c.b != b and c.b != own_block and c.name.split('::')[-1] in ('push', 'push_back', 'push_front', 'pop', 'pop_front', 'pop_back', 'insert', 'remove', 'swap_remove', 'truncate', 'clear',
                                                                  'drain', 'retain', 'split_off', 'append', 'extend', 'resize') \
                    and root_sig(f.expr_operand(c.args[0], c.b, 'T')) == recv_sig and any(f.dominates(h_, c.b) for h_ in hits) and f.dominates(c.b, b):
                return False
        return True
    if kind == 'swap' and hasattr(site, 'args') and len(site.args) == 3:
        recv_s = root_sig(f.expr_operand(site.args[0], b, 'T'))
        def small(t):
            t = peel(t)
            if t == ('int', 0):
                return True
            return t[0] == 'field' and t[2] == '0' and peel(t[1])[0] == 'as' and peel(peel(t[1])[1])[0] == 'call' and peel(peel(t[1])[1])[1].split('::')[-1] == 'position'
        if small(f.expr_operand(site.args[1], b, 'T')) and small(f.expr_operand(site.args[2], b, 'T')) and _found_position_in(recv_s):
            return 'swap(0 | found position, ..) within a sequence in which position(..) just succeeded (non-empty, payload < len, length unchanged)'
    if kind in ('unwrap', 'expect') and hasattr(site, 'args') and site.args:
        recv0 = peel(f.expr_operand(site.args[0], b, 'T'))
        if recv0[0] == 'call' and recv0[1].split('::')[-1] in ('pop_front', 'pop_back', 'pop', 'front', 'back', 'first', 'last') and recv0[2] and \
                _found_position_in(root_sig(recv0[2][0]), recv0[3] if len(recv0) > 3 else None):
            return 'first/last element of a sequence in which position(..) just succeeded (non-empty, length unchanged since)'
    if kind in ('unwrap', 'expect') and hasattr(site, 'args') and site.args:
        recv = peel(f.expr_operand(site.args[0], b, 'T'))
        if recv[0] == 'call' and recv[1].split('::')[-1] in ('split_first', 'split_last', 'first', 'last', 'first_mut', 'last_mut') and recv[2]:
            subj = canon(strip_refs(recv[2][0]))
            for _, a in f.guard_atoms(b):
                if a[0] == 'bool' and a[2] is False and a[1][0] == 'call' and a[1][1].endswith('::is_empty') and a[1][2] and a[1][2][0] == subj:
                    return 'first/last element of a slice that was tested non-empty on the way here'
    return None


def _guarded(f, site_b, pred):
    return any(pred(a) for _, a in f.guard_atoms(site_b))


def _lt_len(a):
    return a[0] == 'cmp' and a[1] == 'lt' and any(x[0] == 'call' and x[1].endswith('::len') for x in walk(a[3]))


# key -> (justification, optional re-check(f, block) -> bool)
TABLE = {
    # ---- Display of a type clause: reduce() of a non-empty list
    '<def::TypClause as std::fmt::Display>::fmt|expect|reduce(self.args)|':
        ('else-branch of args.is_empty(): the reduced iterator has at least one element',
         lambda f, b: _guarded(f, b, lambda a: a[0] == 'bool' and a[1][0] == 'call' and a[1][1].endswith('::is_empty') and a[2] is False)),
    '<tree::Symbol as std::ops::Deref>::deref|index|self|rangefull': ('full-range slice of a String never panics', None),
    # ---- transform: dependency ordering loop, idx < modules.len() is the loop guard
    'transform|index|a1.modules|rangefrom':
        ('modules[idx..] under the loop guard idx < modules.len()', lambda f, b: _guarded(f, b, _lt_len)),
    'transform|swap|a1.modules|var':
        ('swap(idx, next): next = position within modules[idx..] + idx < len', lambda f, b: _guarded(f, b, _lt_len)),
    'transform|index|a1.modules|var':
        ('modules[idx] under the loop guard idx < modules.len()', lambda f, b: _guarded(f, b, _lt_len)),
    'transform|overflow:Add|(position(index(a1.modules,rangefrom))+var)': ('next + idx < modules.len() <= isize::MAX', None),
    'transform|overflow:Add|(var+1)': ('idx < modules.len() <= isize::MAX', None),
    # ---- connections
    'transform_connection_endpoint_inner|panic|panic_fmt|accessors must be non-empty':
        ('callers pass ConnectionEndpointDef::accessors (str::split yields >= 1 element, and no element is filtered away) or accessors[1..] of a slice with len >= 2',
         lambda f, b: _accessors_nonempty(f)),
    'transform_connection_endpoint_inner|bounds|0': ('accessors[0] after the non-empty assertion', None),
    'transform_connection_endpoint_inner|index|a2|rangefrom':
        ('accessors[1..] in the else-branch of len() == 1 of a non-empty slice',
         lambda f, b: _guarded(f, b, lambda a: a[0] == 'cmp' and a[1] == 'ne' and a[3] == ('int', 1))),
    # ---- transform_module
    'transform_module|index|a1.args|each(range)': ('i ranges over 0..ident.args.len() and j over (i+1)..ident.args.len()', None),
    'transform_module|overflow:Add|(each(range)+1)': ('i < ident.args.len() <= isize::MAX', None),
    'transform_module|expect|get(a3,a2.inherit)|':
        ('the parent is inserted into required_symbols last (after bindings are removed), and the ordering loop only admits a module once every required symbol is provided',
         lambda f, b: _inherit_required_last(f)),
    # ---- transform_submodule
    'transform_submodule|expect|get(a4,inner_ty_to_outer_ty(a2))|':
        ('the submodule type (or, for a binding, its bound) is in required_symbols of the enclosing module, hence already transformed', None),
    'transform_submodule|index|a3.args|each(get(a4,a3.ident))':
        ('i enumerates req_args and req_args.len() == typ.args.len() was checked above',
         lambda f, b: _guarded(f, b, lambda a: a[0] == 'cmp' and a[1] == 'eq' and all(any(x[0] == 'call' and x[1].endswith('::len') for x in walk(s)) for s in (a[2], a[3])))),
    'transform_submodule|expect|get(a4,each(get(a4,a3.ident)).bound)|':
        ('the bound of a generic parameter is required by the generic module itself, which was transformed earlier', None),
}


def _accessors_nonempty(f):
    """ConnectionEndpointDef::from_str builds `accessors` from every element of a str::split (never empty), nothing filtered out"""
    P = f.prog if hasattr(f, 'prog') else None
    g = _PROG.fns.get('<des_net_utils::ndl::def::ConnectionEndpointDef as std::str::FromStr>::from_str')
    if g is None:
        return False
    scope = [g] + _PROG.closures_of(g)
    calls = [s for h in scope for s in h.calls()]
    has_split = any(s.name.endswith('::split') and 'str' in s.name for s in calls)
    shrinking = [s for s in calls if s.name.split('::')[-1] in ('filter', 'filter_map', 'skip', 'skip_while', 'take', 'take_while', 'step_by', 'dedup', 'retain', 'pop', 'truncate', 'remove', 'flat_map', 'flatten')]
    return has_split and not shrinking


def _inherit_required_last(f):
    """ModuleDef::required_symbols adds the parent after the generic bindings were subtracted"""
    g = _PROG.fns.get('des_net_utils::ndl::def::ModuleDef::required_symbols')
    if g is None:
        return False
    ext = [s for s in g.calls() if s.name.split('::')[-1] in ('extend', 'insert') and any(x[0] == 'field' and x[2] == 'inherit' for x in walk(g.expr_operand(s.args[1], s.b, 'T')))]
    rem = [s for s in g.calls() if s.name.split('::')[-1] in ('remove', 'retain', 'clear', 'take', 'difference')]
    if len(ext) != 1:
        return False
    return all(r.b not in g.reach_from(ext[0].b) for r in rem) and not any(set(g.loops_containing(r.b)) & set(g.loops_containing(ext[0].b)) for r in rem)



def r1_panic_inventory(ctx):
    global _PROG
    _PROG = ctx.P
    ctx.set_rule('C18.R1')
    P = ctx.P
    rs = roots(P)
    ctx.floor('entry points (transform + FromStr/Deserialize/Visitor impls)', len(rs), 20)
    inv = inventory(P)
    ctx.floor('reachable may-panic constructs', len(inv), 15)
    seen = set()
    for key, f, where, kind, desc, site in inv:
        ctx.touch(f)
        b = site.b if hasattr(site, 'b') else site
        if kind == 'bounds-const':
            ctx.ok('constant index into a fixed-size array, in range (%s)' % key.split('|')[-1], where)
            continue
        ent = TABLE.get(key)
        if ent is None and '|' in key:
            # the audited function was merged into this one (a pinned wrapper + `_inner` pair folded together): its entries apply here
            fk0, rest = key.split('|', 1)
            for tk in TABLE:
                tf, trest = tk.split('|', 1)
                if trest == rest and tf != fk0 and (ND + tf) not in P.fns and f in P.scope_of(ND + tf):
                    ent = TABLE[tk]
                    key = tk
                    break
            if ent is None:
                # ... or the audited function was re-shaped into a new function (a method of a new private type) that the pinned callers
                # of the old one reach now: the same construct (same kind, provenance and - for an assertion - message) keeps its entry;
                # entries with a dominating-test justification are re-checked on the new body below
                base_fns = getattr(P, 'baseline_fns', None) or {}
                is_new = f.key not in (P.baseline_callers.keys() if hasattr(P, 'baseline_callers') else ()) and not any(f.key in v for v in getattr(P, 'baseline_callers', {}).values())
                for tk in TABLE:
                    tf, trest = tk.split('|', 1)
                    if trest == rest and tf != fk0 and (ND + tf) not in P.fns and is_new:
                        old_callers = set(getattr(P, 'baseline_callers', {}).get(ND + tf, []))
                        reach = P.reachable_from([c for c in old_callers if c in P.fns])[0] if old_callers else set()
                        if f.key in reach or (f.root or f.key) in reach:
                            ent = TABLE[tk]
                            key = tk
                            break
        if ent is None:
            why = auto_safe(f, kind, site)
            if why:
                ctx.ok('may-panic construct discharged by a general argument: %s' % why, where, key)
                continue
            ctx.violation('untabled:%s' % key,
                          'the NDL front end can panic here on some description document (construct not in the audited table): %s' % key, where)
            continue
        seen.add(key)
        why, recheck = ent
        if recheck is not None and not recheck(f, b):
            alt = auto_safe(f, kind, site)
            if alt:
                ctx.ok('may-panic construct discharged by a general argument: %s' % alt, where, key)
                continue
        if recheck is not None:
            ctx.check(bool(recheck(f, b)), 'justification-broken:%s' % key, 'justified may-panic construct: %s — dominating test re-checked' % why, where, key)
        else:
            ctx.ok('justified may-panic construct: %s' % why, where, key)
    stale = [k for k in TABLE if k not in seen]
    if stale:
        ctx.note('table entries without a matching construct today: %d' % len(stale))
    # nothing in the front end catches panics / aborts
    for k in sorted(P.reachable_from(rs)[0]):
        f = P.fns[k]
        if f.crate == 'des_net_utils' and any(s.name in ('std::process::abort', 'std::process::exit') for s in f.calls()):
            ctx.violation('abort:%s' % k, 'process abort/exit reachable from the NDL front end', f.where())


def r2_cardinality_table(ctx):
    ctx.set_rule('C18.R2')
    f = ctx.anchor(ND + 'iter_for_kardinality_access')
    if not f:
        return
    rows = {}
    n = 0
    for path, outcome, decs in fn_paths(ctx, f):
        if outcome != 'return':
            continue
        n += 1
        atoms = [a for _, a in path_atoms(f, path, decs)]
        dv = av = None
        bound = None
        for a in atoms:
            if a[0] == 'is':
                t = show_c(a[1])
                if 'def' in t and 'access' not in t:
                    dv = a[2]
                elif 'access' in t:
                    av = a[2]
                elif '.0' in t:
                    dv = dv or a[2]
                elif '.1' in t:
                    av = av or a[2]
            if a[0] == 'cmp' and a[1] in ('lt', 'ge'):
                bound = a[1]
        r = path_ret(f, path)
        ok = r is not None and r[0] == 'agg' and r[1].endswith('Result::Ok')
        rows.setdefault((dv, av, bound), set()).add('Ok' if ok else 'Err')
    want = {('Atom', 'Atom'): {None: 'Ok'}, ('Cluster', 'Cluster'): {'lt': 'Ok', 'ge': 'Err'}, ('Atom', 'Cluster'): {None: 'Err'}, ('Cluster', 'Atom'): {None: 'Ok'}}
    bad = []
    for (dv, av), exp in want.items():
        for bnd, res in exp.items():
            got = set()
            for (d2, a2, b2), rs in rows.items():
                if d2 == dv and a2 == av and (b2 == bnd or (bnd is None)):
                    got |= rs
            if got != {res}:
                bad.append(((dv, av, bnd), sorted(got), res))
    ctx.check(not bad and n >= 5, 'access-table',
              'connection endpoint access: atom->atom ok; cluster[i] into cluster(n) ok iff i < n; an index into a non-cluster field is an error; a plain access to a cluster expands to all indices',
              f.where(), {'rows': {str(k): sorted(v) for k, v in rows.items()}, 'mismatches': bad})


def r3_substitution(ctx):
    ctx.set_rule('C18.R3')
    f = ctx.anchor(ND + 'transform_submodule')
    if not f:
        return
    stores = [(b, i, st) for (b, i, st) in f.writes_to_field('typ') if any(x[0] == 'call' and x[1].endswith('Clone>::clone') or (x[0] == 'call' and x[1].endswith('::clone')) for x in walk(f.expr_rvalue(st['r'], b, i)))]
    if not stores:
        # iterator form: node.submodules.iter_mut().filter(..).for_each(|s| s.typ = replacement.clone()) inside the loop over the bindings
        P = ctx.P
        n2 = 0
        for s in f.calls():
            if (s.callee or '') != 'std::iter::Iterator::for_each' or len(s.args) != 2:
                continue
            it = f.expr_operand(s.args[0], s.b, 'T')
            cl = peel(f.expr_operand(s.args[1], s.b, 'T'))
            g = P.fns.get(cl[1][len('closure:'):]) if cl[0] == 'agg' and str(cl[1]).startswith('closure:') else None
            if g is None:
                continue
            w = [(b, i, st) for (b, i, st) in g.writes_to_field('typ') if any(x[0] == 'call' and x[1].endswith('::clone') for x in walk(g.expr_rvalue(st['r'], b, i)))]
            if not w:
                continue
            n2 += 1
            whole = any(x[0] == 'call' and x[1].endswith('iter_mut') and any(y[0] == 'field' and y[2] == 'submodules' for y in walk(x)) for x in walk(it)) and \
                not any(x[0] == 'call' and x[1].split('::')[-1] in ('take', 'skip', 'step_by', 'take_while', 'skip_while', 'nth', 'find', 'rev_take', 'peekable') for x in walk(it))
            on_item = all(any(x[0] == 'arg' and x[1] == 2 for x in walk(g.expr_place({'l': st['p']['l'], 'pr': st['p']['pr'][:-1]}, b, i))) for (b, i, st) in w)
            uncond = all(g.postdominates_entry(b) for (b, i, st) in w)
            ctx.check(bool(f.loops_containing(s.b)) and whole and on_item and uncond, 'substitute-all',
                      'for every type argument, every submodule whose type is the placeholder of that binding is replaced (for_each over all submodules)', s.where(),
                      {'form': 'iterator', 'iterator': show(it)[:160]})
        ctx.floor('placeholder substitution in transform_submodule', n2, 1)
        return
    for b, i, st in stores:
        depth = len(f.loops_containing(b))
        dst = f.expr_place({'l': st['p']['l'], 'pr': st['p']['pr'][:-1]}, b, i)
        via_iter = any(x[0] == 'call' and x[1].endswith('::next') for x in walk(dst)) and not any(x[0] == 'call' and x[1].endswith(('::find', '::position', '::nth', '::last', '::find_map')) for x in walk(dst))
        over_sub = any(x[0] == 'field' and x[2] == 'submodules' for x in walk(dst))
        ctx.check(depth >= 2 and via_iter and over_sub, 'substitute-all',
                  'for every type argument, every submodule whose type is the placeholder of that binding is replaced (inner loop over all submodules)', f.where(b),
                  {'loop_depth': depth, 'element': show(dst)[:160]})


def r4_conformance(ctx):
    """a type argument conforms to its bound only if it offers the bound's gates as declared — name AND cardinality (connections of the
    generic module were expanded against the bound's gate clusters)"""
    ctx.set_rule('C18.R4')
    P = ctx.P
    f = P.fns.get('des_net_utils::ndl::tree::Node::conform_to')
    if f is None:
        ctx.violation('anchor:conform_to', 'unresolved-anchor Node::conform_to'); return
    ctx.touch(f)
    scope = [f] + P.closures_of(f)
    whole = False
    by_name_only = []
    for g in scope:
        for s in g.calls():
            last = s.name.split('::')[-1]
            argt = [g.expr_operand(a, s.b, 'T') for a in s.args]
            on_gates = any(any(x[0] == 'field' and x[2] == 'gates' for x in walk(resolve_captures(P, g, t))) for t in argt)
            if last in ('is_subset', 'is_superset', 'contains') and on_gates:
                whole = True
            if last in ('eq', 'ne') and s.argtys and 'FieldDef' in s.argtys[0] and not s.argtys[0].lstrip('&').startswith('std::string'):
                whole = whole or True
            if last in ('eq', 'ne') and argt and all(peel(t)[0] == 'field' and peel(t)[2] == 'ident' for t in argt[:2]) and \
                    any(str(peel(t)[3] if len(peel(t)) > 3 else '').endswith('FieldDef') for t in argt[:2]):
                # a comparison of two FieldDef idents: is it about gates?
                srcs = [resolve_captures(P, g, t) for t in argt[:2]]
                if any(any(x[0] == 'field' and x[2] == 'gates' for x in walk(t)) or _closure_over_gates(P, f, g) for t in srcs):
                    by_name_only.append(s)
    ctx.check(whole and not by_name_only, 'conformance-compares-whole-gates',
              'Node::conform_to requires the bound\'s gates to be present as declared (whole gate definitions: identifier and cardinality), not merely gates of the same name',
              (by_name_only[0].where() if by_name_only else f.where()), {'whole_gate_test': whole, 'name_only_comparisons': len(by_name_only)})


def r4b_conformance_whole_elements(ctx):
    """... and the bound's submodules and connections as declared: the membership tests of Node::conform_to compare whole elements (a
    submodule with its complete type tree, a connection with both endpoints and its link) — a comparison of selected components (name
    and type symbol) accepts a different instantiation of the same generic type"""
    ctx.set_rule('C18.R4')
    P = ctx.P
    f = P.fns.get('des_net_utils::ndl::tree::Node::conform_to')
    if f is None:
        return
    scope = _closures_rec_of(P, f) if '_closures_rec_of' in globals() else [f] + P.closures_of(f)
    if f not in scope:
        scope = [f] + list(scope)
    ELEM = ('tree::Submodule', 'tree::Connection', 'tree::ConnectionEndpoint')
    part, whole = [], 0
    for g in scope:
        for s_ in g.calls():
            if s_.name.split('::')[-1] not in ('eq', 'ne') or len(s_.args) < 2:
                continue
            ops = [peel(strip_refs(peel(g.expr_operand(a, s_.b, 'T')))) for a in s_.args[:2]]
            if any(o[0] == 'field' and str(o[3] if len(o) > 3 else '').endswith(ELEM) for o in ops):
                part.append(s_)
            elif s_.argtys and any(e in s_.argtys[0] for e in ELEM):
                whole += 1
    ctx.ok('whole-element comparisons in Node::conform_to: %d (a `contains` / `is_subset` compares whole elements by construction)' % whole, None)
    ctx.check(not part, 'conformance-compares-whole-elements', "Node::conform_to looks for the bound's submodules and connections as declared (whole elements, not selected components)",
              part[0].where() if part else f.where(), [s_.name for s_ in part][:3])


def _closure_over_gates(P, f, g):
    """closure g (of f) is the callback of a traversal over a `gates` collection"""
    if g is f:
        return False
    for h in [f] + P.closures_of(f):
        for s in h.calls():
            if len(s.args) == 2:
                cb = peel(h.expr_operand(s.args[1], s.b, 'T'))
                if cb[0] == 'agg' and str(cb[1]) == 'closure:' + g.key:
                    src = resolve_captures(P, h, h.expr_operand(s.args[0], s.b, 'T'))
                    if any(x[0] == 'field' and x[2] == 'gates' for x in walk(src)):
                        return True
    return False


def r5_instantiation_naming(ctx):
    """instantiation names submodule instances exactly as elaboration addresses them: `name` for an atom, `name[k]` for EVERY cluster
    (also of size 1) — so whether an instance name carries an index must follow from the KIND of the declaration; a decision on the
    numeric size (`as_size() > 1`) turns a cluster of one into a plain submodule that the expanded connections cannot find"""
    ctx.set_rule('C18.R5')
    P = ctx.P
    fs = [g for g in P.fn_list if g.key.startswith('des::net::ndl::') and g.kind in ('fn', 'assocfn', 'closure')]
    n = 0
    for f in fs:
        for s in f.calls():
            if not s.name.endswith(('SimBuilderScoped::subscope', 'ObjectPath::appended', 'des::net::ndl::ndl', 'SimBuilder::ndl_at')) and not s.name.startswith('des::net::ndl::'):
                continue
            atoms = [a for _, a in f.guard_atoms(s.b)]
            if not any(any(x[0] == 'field' and x[2] == 'submodules' for x in walk(a[1])) for a in atoms if a and a[0] in ('is', 'isnot') and isinstance(a[1], tuple)):
                continue
            n += 1
            by_size = [a for a in atoms if a and a[0] == 'cmp' and any(x[0] == 'call' and x[1].endswith('Kardinality::as_size') for t_ in (a[2], a[3]) for x in walk(t_)) and
                       any(peel(t_)[0] == 'int' for t_ in (a[2], a[3]))]
            ctx.check(not by_size, 'instance-naming-by-kind:%s' % f.key.split('::')[-1],
                      'whether a submodule instance is created as `name` or `name[k]` follows from the kind of its declaration (Atom / Cluster), never from a test of the cluster size',
                      s.where(), [show_atom(a) for a in by_size])
    if n == 0:
        ctx.note('no submodule scope creation under a submodule traversal found in des::net::ndl (rule vacuous on this tree)')


def r6_links_become_channels(ctx):
    """a described connection carries its link: the channel handed to Gate::connect exists exactly when the description has a link, built
    from that link's parameters (no further condition on the parameter values)"""
    ctx.set_rule('C18.R6')
    P = ctx.P
    fs = [g for g in P.fn_list if g.key.startswith('des::net::ndl::') and g.kind in ('fn', 'assocfn', 'closure')]
    sites = [(f, s) for f in fs for s in f.calls() if s.name == 'des::net::gate::Gate::connect' and len(s.args) == 3]
    if not ctx.floor('Gate::connect in the NDL instantiation', len(sites), 1):
        return
    PASS = ('as_ref', 'map', 'cloned', 'clone', 'as_deref', 'copied', 'deref', 'borrow', 'into', 'from')
    for f, s in sites:
        ctx.touch(f)
        t = f.expr_operand(s.args[2], s.b, 'T')
        from_link = any(x[0] == 'field' and x[2] == 'link' for x in walk(t))
        maps = [x for x in walk(t) if x[0] == 'call' and x[1].endswith('Option::map') and len(x[2]) == 2]
        built = False
        for m in maps:
            cl = peel(m[2][1])
            g = P.fns.get(cl[1][len('closure:'):]) if cl[0] == 'agg' and str(cl[1]).startswith('closure:') else None
            for _, rt in (ret_trees(g) if g else []):
                # Channel::new(<metrics converted from the closure's own parameter, the link>)
                if any(x[0] == 'call' and x[1].endswith('Channel::new') and x[2] and any(y[0] == 'arg' and y[1] == 2 for y in walk(x[2][0])) for x in walk(rt)):
                    built = True
            if cl[0] == 'fnitem' and cl[1].endswith('Channel::new'):
                built = True    # `.map(ChannelMetrics::from).map(Channel::new)`
        if not maps:
            # match form: `match link { Some(l) => Some(Channel::new(..l..)), None => None }`
            tp = peel(t)
            alts = list(tp[1]) if tp[0] == 'phi' else [tp]
            def some_channel(x):
                x = peel(x)
                return x[0] == 'agg' and str(x[1]).endswith('Option::Some') and any(y[0] == 'call' and y[1].endswith('Channel::new') and y[2] and
                                                                                     any(z[0] == 'field' and z[2] == 'link' for z in walk(y[2][0])) for y in walk(x))
            def none(x):
                x = peel(x)
                return x[0] == 'agg' and str(x[1]).endswith('Option::None')
            if len(alts) >= 2 and all(some_channel(x) or none(x) for x in alts) and any(some_channel(x) for x in alts) and any(none(x) for x in alts):
                built = from_link = True
                for c in f.calls():
                    if c.name.endswith('Channel::new'):
                        ga = [a for _, a in f.guard_atoms(c.b)]
                        lk = [a for a in ga if (option_state(a) or ('', None))[0] == 'some' and any(y[0] == 'field' and y[2] == 'link' for y in walk(option_state(a)[1]))]
                        if not lk:
                            built = False
        other = [x[1] for x in walk(t) if x[0] == 'call' and 'option::Option' in x[1] and x[1].split('::')[-1] not in PASS]
        def on_params(a):
            return a and a[0] in ('cmp', 'bool') and any(y[0] == 'field' and y[2] in ('latency', 'jitter', 'bitrate') for y in walk(a))
        conds = [a for _, a in f.guard_atoms(s.b) if on_params(a)] + [a for c in f.calls() if c.name.endswith('Channel::new') for _, a in f.guard_atoms(c.b) if on_params(a)]
        ctx.check(from_link and built and not other and not conds, 'link-iff-channel',
                  'every described link becomes a channel with its parameters (Some link => Some(Channel::new(ChannelMetrics::from(link))), None => no channel), whatever the parameter values',
                  s.where(), {'from_link': from_link, 'channel_built': built, 'other_option_ops': other, 'conditions': [show_atom(a) for a in conds]})


def r6b_link_parameters_unchanged(ctx):
    """... and the channel gets the link's parameters as described: each of bitrate / latency / jitter of the ChannelMetrics built from a
    link is computed from the link's field of the same name alone (a unit conversion) — not combined with, capped by or defaulted from
    another parameter"""
    ctx.set_rule('C18.R6')
    P = ctx.P
    n = 0
    for g in P.fn_list:
        if g.kind == 'promoted' or not g.key.startswith(('des::net::ndl', '<des::net::')):
            continue
        for b in sorted(g.reachable()):
            for i, st in enumerate(g.stmts(b)):
                if st['k'] != 'assign' or st['r']['k'] != 'agg' or not str(st['r'].get('adt', '')).endswith('channel::ChannelMetrics'):
                    continue
                comp = dict(zip(st['r'].get('fields', []), [g.expr_operand(o, b, i) for o in st['r']['ops']]))
                srcs = {nm: {x[2] for x in walk(v) if x[0] == 'field' and str(x[3] if len(x) > 3 else '').startswith('des_net_utils::ndl::') and 'Link' in str(x[3])} for nm, v in comp.items()}
                if not any(srcs.values()):
                    continue        # not built from a described link
                n += 1
                for nm in ('bitrate', 'latency', 'jitter'):
                    if nm in comp:
                        ctx.check(srcs[nm] == {nm}, 'link-parameter-unchanged:%s' % nm, "a channel's %s is the described link's %s, converted, nothing else" % (nm, nm), g.where(b),
                                  {'computed_from': sorted(srcs[nm]), 'value': show(comp[nm])[:120]})
    ctx.floor('ChannelMetrics built from a described link', n, 1)


def r7_dependency_order(ctx):
    """the elaboration order is what the 'unreachable: parse order' look-ups of R1 rely on: a module is scheduled only when EVERY symbol it
    depends on has been provided - the readiness predicate accepts a dependency on no other ground than membership in the provider set
    (a module that depends on itself is never ready and is reported as unresolvable)"""
    ctx.set_rule('C18.R7')
    P = ctx.P
    f = ctx.anchor('des_net_utils::ndl::transform')
    if not f:
        return
    preds = []
    for g in _closures_rec_of(P, f):
        if [s for s in g.calls() if s.name.endswith(('HashSet::contains', 'BTreeSet::contains'))]:
            preds.append(g)
    if not ctx.floor('readiness predicates (membership tests of the provider set) in transform', len(preds), 1):
        return
    for g in preds:
        ctx.touch(g)
        member = [s for s in g.calls() if s.name.endswith(('HashSet::contains', 'BTreeSet::contains'))]
        for path, outcome, decs in fn_paths(ctx, g):
            if outcome != 'return':
                continue
            r = path_ret_resolved(g, path)
            r = peel(r) if r is not None else ('unknown',)
            outs = dict((site.b, res) for site, res in call_outcomes(g, path, decs, member[0].name))
            if r == ('int', 0):
                continue
            is_member = r[0] == 'call' and r[1] == member[0].name
            proven = any(v is True for v in outs.values())
            ctx.check(is_member or proven, 'ready-only-if-provided', 'a dependency counts as satisfied only if it is in the provider set', g.where_path(path), show(r)[:120])


def _closures_rec_of(P, f):
    out = []
    todo = [f]
    while todo:
        h = todo.pop()
        for g in P.closures_of(h):
            if g not in out:
                out.append(g); todo.append(g)
        # closures of new helpers that were spliced into h
        for par, helper in getattr(P, 'inlined', []):
            if par == h.key:
                for g in P.fn_list:
                    if g.kind == 'closure' and g.parent == helper and g not in out:
                        out.append(g); todo.append(g)
    return out


def r8_position_stack(ctx):
    """expanding a nested endpoint (`a/b/port` with clusters on the way) keeps the prefix of the outer levels while it iterates an inner
    cluster: the position stack handed down the recursion is restored to exactly what it was - one push before, one pop after each
    descent (or a truncate to the length read before)"""
    ctx.set_rule('C18.R8')
    P = ctx.P
    fs = [f for f in P.fn_list if f.key.startswith('des_net_utils::ndl::') and f.kind in ('fn', 'assocfn') and f.calls_to(f.key)]
    n = 0
    for f in fs:
        rec = f.calls_to(f.key)
        # stack parameters: `&mut Vec<_>` arguments that are handed on to the recursive call unchanged
        for idx in range(1, f.argc + 1):
            if not f.local_ty(idx).startswith('&mut std::vec::Vec<'):
                continue
            if not all(any(peel(f.expr_operand(a, r.b, 'T')) == ('arg', idx, f.local_name(idx)) or (peel(f.expr_operand(a, r.b, 'T'))[0] == 'arg' and peel(f.expr_operand(a, r.b, 'T'))[1] == idx) for a in r.args) for r in rec):
                continue
            muts = [s for s in f.calls() if s.args and 'std::vec::Vec' in s.name and s.argtys and s.argtys[0].startswith('&mut') and
                    peel(f.expr_operand(s.args[0], s.b, 'T'))[0] == 'arg' and peel(f.expr_operand(s.args[0], s.b, 'T'))[1] == idx]
            if not muts:
                continue
            n += 1
            ctx.touch(f)
            pushes = [s for s in muts if s.name.endswith('::push')]
            pops = [s for s in muts if s.name.endswith('::pop')]
            trunc = [s for s in muts if s.name.endswith('::truncate') and any(x[0] == 'call' and x[1].endswith('Vec::len') for x in walk(f.expr_operand(s.args[1], s.b, 'T')))]
            other = [s.name.split('::')[-1] for s in muts if s not in pushes and s not in pops and s not in trunc]
            ok = not other and len(pushes) >= 1 and len(pushes) == len(pops) + len(trunc) and \
                all(any(f.dominates(p_.b, r.b) for p_ in pushes) for r in rec) and \
                all(set(f.loops_containing(p_.b)) == set(f.loops_containing(q.b)) for p_ in pushes for q in pops + trunc)
            ctx.check(ok, 'descent-restores-position:%s' % f.key.split('::')[-1],
                      'around each recursive descent the position stack is pushed once and restored by exactly one pop (the outer prefix survives the iteration of an inner cluster)',
                      f.where(), {'push': len(pushes), 'pop': len(pops), 'truncate_to_saved_len': len(trunc), 'other': other})
    if n == 0:
        # (representation without a shared stack: prefixes are composed from returned values - nothing to restore)
        ctx.note('no recursive expansion with a `&mut Vec` position stack in the NDL front end')
        ctx.ok('endpoint expansion does not use a shared position stack', None)


def r9_empty_cluster_rejected(ctx):
    """a zero-sized submodule cluster never elaborates: every successful return of transform_submodule has seen `kardinality != Cluster(0)`"""
    ctx.set_rule('C18.R9')
    f = ctx.anchor('des_net_utils::ndl::transform_submodule')
    if not f:
        return
    ctx.touch(f)
    n = 0
    for path, outcome, decs in fn_paths(ctx, f):
        if outcome != 'return':
            continue
        r = path_ret_resolved(f, path)
        r = peel(r) if r is not None else ('unknown',)
        if not (r[0] == 'agg' and str(r[1]).endswith('Result::Ok')):
            continue
        n += 1
        def zero_cluster(t):
            return any(x[0] == 'agg' and str(x[1]).endswith('Kardinality::Cluster') and x[2] and x[2][0] == ('int', 0) for x in walk(t))
        seen = False
        for _, a in path_atoms(f, path, decs):
            if a[0] == 'cmp' and a[1] == 'ne' and any(x[0] == 'field' and x[2] == 'kardinality' for x in walk(a)) and zero_cluster(a):
                seen = True
            if a[0] == 'bool' and a[2] is False and a[1][0] == 'call' and a[1][1].split('::')[-1] == 'eq' and any(x[0] == 'field' and x[2] == 'kardinality' for x in walk(a[1])) and zero_cluster(a[1]):
                seen = True
            # `matches!(field.kardinality, Kardinality::Cluster(0))` taken apart: not a cluster at all, or a cluster whose size is not 0
            if a[0] == 'is' and peel(a[1])[0] == 'field' and peel(a[1])[2] == 'kardinality' and isinstance(a[2], str) and a[2] != 'Cluster':
                seen = True
            if a[0] == 'cmp' and a[1] == 'ne' and ('int', 0) in (a[2], a[3]):
                o = peel(a[3] if a[2] == ('int', 0) else a[2])
                if o[0] == 'field' and o[2] == '0' and peel(o[1])[0] == 'as' and peel(o[1])[2] == 'Cluster' and any(x[0] == 'field' and x[2] == 'kardinality' for x in walk(o)):
                    seen = True
        ctx.check(seen, 'empty-cluster-rejected', 'a submodule is only elaborated after its cluster size was found to be non-zero', f.where_path(path))
        # a type applied to arguments elaborates only with exactly as many arguments as it has parameters (too few would leave
        # placeholders in the network, too many would be dropped silently)
        atoms_ = [a for _, a in path_atoms(f, path, decs)]
        with_args = any(a[0] == 'bool' and a[2] is False and a[1][0] == 'call' and a[1][1].endswith('::is_empty') and any(x[0] == 'field' and x[2] == 'args' for x in walk(a[1])) for a in atoms_)
        if with_args:
            lens = [a for a in atoms_ if a[0] == 'cmp' and all(any(x[0] == 'call' and x[1].endswith('::len') for x in walk(side)) for side in (a[2], a[3]))]
            ctx.check(any(a[1] == 'eq' for a in lens), 'type-argument-arity', 'type arguments are accepted only if their number equals the number of parameters', f.where_path(path), [show_atom(a)[:120] for a in lens])
    ctx.floor('successful paths of transform_submodule', n, 2)
    # a type argument must be a concrete, known type: the translation of a name through the surrounding module's generic bindings is for
    # argument-less types only (case a/b) — applied to an argument it would let a binding of the surrounding module pass as concrete
    tr = [s for s in f.calls() if s.name.split('::')[-1] == 'inner_ty_to_outer_ty']
    for s in tr:
        g_at = [a for _, a in f.guard_atoms(s.b)]
        argless = any(a[0] == 'bool' and a[2] is True and a[1][0] == 'call' and a[1][1].endswith('::is_empty') and any(x[0] == 'field' and x[2] == 'args' for x in walk(a[1])) for a in g_at)
        ctx.check(argless, 'type-argument-concrete', 'generic bindings are resolved for argument-less types only; a type argument is looked up as written', s.where())


def run(ctx):
    # (R10) the wiring primitive the instantiation relies on: connecting an already connected pair is a no-op that comes before the
    # capacity assertion, so a connection stated twice (or restated by a derived module) builds (shared with C08.R4)
    from .C08 import r4_peers
    r4_peers(ctx, rule='C18.R10')
    r9_empty_cluster_rejected(ctx)
    r8_position_stack(ctx)
    r6_links_become_channels(ctx)
    r6b_link_parameters_unchanged(ctx)
    r7_dependency_order(ctx)
    r1_panic_inventory(ctx)
    r2_cardinality_table(ctx)
    r3_substitution(ctx)
    r4_conformance(ctx)
    r4b_conformance_whole_elements(ctx)
    r5_instantiation_naming(ctx)

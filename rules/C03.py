"""C03 — deterministic order among equal timestamps (structural clauses, DESIGN §4 C03)."""
import re
from .engine.helpers import *

EXPLANATION = (
    "Static analysis of the tie-breaking mechanisms: (R1) DualLinkedList::add's walk direction, advance predicate and "
    "insertion side form one of the two stable tables (tail walk: advance iff cur.time > new.time, insert after; head walk: "
    "advance iff cur.time <= new.time, insert before); (R2) the zero-delay container is used exactly for time == bound, is "
    "filled and emptied at opposite ends (FIFO) and is consulted before any bucket, on both back ends; (R3) the per-event "
    "buffer is flushed to the runtime by a forward drain and never reordered (no sort/reverse/swap/remove/insert/mutable "
    "escape on that vector anywhere); (R4) no pointer-to-integer cast or pointer comparison other than is_null in the "
    "calendar queue's ordering code. "
    '(R1 also covers every other time-ordered list walk of the queue; R3 also requires a single buffer per kind and no push_front.) '
    '(R2 also: the zero-delay container is filled by add alone; R5, shared with C01.R2) every insertion and look-up derives the bucket from the timestamp by the same expression, which narrows bounded values only. '
    '(R6, shared with C08.R7) a send for the current instant is walked inline, only a later one becomes an event. '
    '(R2 also: every construction of the calendar queue initialises the bound `add` compares with - the current instant - to the constant zero, whatever start time is configured.) '
    '(R7, shared with C09.R3) what a handler emitted is scheduled before anything the shutdown handling schedules for the same instant. '
    "Decides these necessary conditions only; not the end-to-end tie order of histories.")
ASSUMPTIONS = ["VecDeque::push_back/pop_front are opposite ends; Vec::drain(..) yields in index order"]
USES_B = True

Q = 'des_cqueue::stable::CQueue'
L = 'des_cqueue::stable::linked_list::DualLinkedList'


def _sentinel_roles(P):
    """field name -> 'head' / 'tail': the list field initialised with the Duration::ZERO sentinel is the head, the one with Duration::MAX the tail"""
    f = P.fns.get(L + '::new')
    out = {}
    for _, t in (ret_trees(f) if f else []):
        t = peel(t)
        if t[0] == 'agg' and len(t) > 3:
            for name, v in zip(t[3], t[2]):
                sv = show(v)
                if 'EventNode::empty' in sv or 'EventNode' in sv:
                    if 'Duration::ZERO' in sv:
                        out[name] = 'head'
                    elif 'Duration::MAX' in sv:
                        out[name] = 'tail'
    return out


def r1_stable_insertion(ctx):
    ctx.set_rule('C03.R1')
    f = ctx.anchor(L + '::add')
    if not f:
        return
    loops = f.loops()
    # advance statements: `cur = (*cur).<link>` inside a loop
    adv = []
    for h, body in loops.items():
        for b in sorted(body):
            for i, st in enumerate(f.stmts(b)):
                if st['k'] != 'assign' or st['p']['pr']:
                    continue
                t = f.expr_rvalue(st['r'], b, i)
                t = peel(t) if t[0] != 'field' else t
                if not (t[0] == 'field' and t[2] in ('prev', 'next')):
                    t = ptr_norm(t)      # links kept as Option<NonNull<..>>: `cur = linked((*cur).prev)`
                if t[0] == 'field' and t[2] in ('prev', 'next'):
                    base = t[1]
                    # the base must be the variable being assigned (loop-carried)
                    v = st['p']['l']
                    dv = [d for d in f._defs() if d[0] == v and not d[3]]
                    if any(d[1] in body for d in dv) and any(d[1] not in body for d in dv):
                        adv.append((h, b, i, st['p']['l'], t[2]))
    if not adv and _search_form_insertion(ctx, f):
        return
    if not ctx.floor('loop-carried link walk in DualLinkedList::add', len(adv), 1):
        return
    for (h, b, i, var, link) in adv:
        # start of the walk: every definition of the walk variable before the loop must be the same sentinel
        pre = [d for d in f._defs() if d[0] == var and not d[3] and d[1] not in loops[h]]
        starts = set()
        for (l, db, di, _) in pre:
            st = f.stmts(db)[di] if di != 'T' else None
            if st is not None:
                t0 = ptr_norm(f.expr_rvalue(st['r'], db, di))    # `NonNull::from(&mut *self.tail)` starts at the tail just as `&mut *self.tail` does
                if peel(t0)[0] == 'call' and not peel(t0)[1].startswith(('<', 'std::', 'core::')):
                    starts.add('call:' + short(peel(t0)[1]))
                else:
                    starts.add(receiver_field(t0))
            else:
                # defined by a call: a pointer wrapper around the sentinel (`NonNull::from(&mut *self.tail)`) starts where its operand does
                tm = f.term(db)
                t1 = None
                if tm['k'] == 'call' and len(tm['args']) == 1 and strip_generics(tm.get('res') or tm.get('callee') or '') in \
                        ('std::ptr::NonNull::from', '<std::ptr::NonNull as std::convert::From>::from', 'std::ptr::NonNull::new_unchecked', 'std::ptr::NonNull::new'):
                    t1 = ptr_norm(f.expr_operand(tm['args'][0], db, 'T'))
                rf_ = receiver_field(t1) if t1 is not None else None
                starts.add(rf_ if rf_ else 'call')
        start = next(iter(starts)) if len(starts) == 1 else ('mixed:' + '/'.join(sorted(map(str, starts))))
        # advance predicate
        atoms = [a for s, a in f.guard_atoms(b) if s in loops[h]]
        pred = None
        for a in atoms:
            if a[0] == 'cmp':
                l, r = ptr_norm(a[2]), ptr_norm(a[3])
                lt = _is_time_of_var(l, f, var)
                rt = _is_time_of_var(r, f, var)
                if lt and not rt:
                    pred = a[1]
                elif rt and not lt:
                    pred = SWAP[a[1]]
        # insertion side: node.prev / node.next stores
        side = None
        stores = {}
        for bb in sorted(f.reachable()):
            for ii, st in enumerate(f.stmts(bb)):
                if st['k'] == 'assign' and st['p']['pr']:
                    fl = [e for e in st['p']['pr'] if e['k'] == 'field']
                    if fl and fl[-1].get('n') in ('prev', 'next') and fl[-1].get('adt', '').endswith('EventNode'):
                        dst = f.expr_place({'l': st['p']['l'], 'pr': st['p']['pr'][:-1]}, bb, ii)
                        if any(x[0] == 'call' and x[1].endswith('EventNode::new') for x in walk(dst)):
                            stores[fl[-1]['n']] = f.expr_rvalue(st['r'], bb, ii)
        if not ('prev' in stores and 'next' in stores):
            # the node is created with its links in place: `EventNode::new(.., prev, next, ..)` whose literal stores those parameters
            for g in [h for k_, h in ctx.P.fns.items() if k_.endswith('EventNode::new')]:
                for s_ in f.calls_to(g.key):
                    for _, rt_ in ret_trees(g):
                        for x in walk(rt_):
                            if x[0] == 'agg' and str(x[1]).endswith('EventNode::EventNode') and len(x) > 3:
                                for nm, comp in zip(x[3], x[2]):
                                    c_ = peel(comp)
                                    if nm in ('prev', 'next') and c_[0] == 'arg' and isinstance(c_[1], int) and c_[1] - 1 < len(s_.args):
                                        stores[nm] = f.expr_operand(s_.args[c_[1] - 1], s_.b, 'T')
        if 'prev' in stores and 'next' in stores:
            p, n = ptr_norm(stores['prev']), ptr_norm(stores['next'])
            p_is_cur = _mentions_local(p, var) and p[0] != 'field'
            n_is_cur = _mentions_local(n, var) and n[0] != 'field'
            n_is_cur_next = n[0] == 'field' and n[2] == 'next' and _mentions_local(n[1], var)
            p_is_cur_prev = p[0] == 'field' and p[2] == 'prev' and _mentions_local(p[1], var)
            if p_is_cur and n_is_cur_next:
                side = 'after'
            elif n_is_cur and p_is_cur_prev:
                side = 'before'
        start = _sentinel_roles(ctx.P).get(start, start)
        table = (start, link, pred, side)
        ok = table in (('tail', 'prev', 'gt', 'after'), ('head', 'next', 'le', 'before'))
        ctx.check(ok, 'insertion-table',
                  'sorted insertion is stable: a new node is placed after every existing node with an equal timestamp '
                  '(walk from %s along %s, advance iff cur.time %s new.time, insert %s cur)' % (start, link, pred, side),
                  f.where(b), {'walk_start': start, 'link': link, 'advance_iff_cur_time': pred, 'insert': side})


def _search_form_insertion(ctx, f):
    """`let cur = self.walk().find(|&c| (*c).time <= node.time)`: the walk is a private cursor type (its `next` yields the current node and
    moves along one link), the stop test is the predicate handed to `find`.  Builds the same table as the loop form; returns True if the
    form was recognised (and checked)."""
    from .engine.core import _deref_ty
    P = ctx.P
    NEG = {'le': 'gt', 'lt': 'ge', 'ge': 'lt', 'gt': 'le'}
    for s in f.calls():
        if (s.callee or '') != 'std::iter::Iterator::find' or len(s.args) != 2 or not s.argtys:
            continue
        ity = strip_generics(_deref_ty(s.argtys[0]))
        gs = [g for g in P.impls_of_trait_method('std::iter::Iterator', 'next') if g.self_adt and strip_generics(g.self_adt) == ity]
        if len(gs) != 1:
            continue
        g = gs[0]
        ctx.touch(g)
        it = peel_c(f.expr_operand(s.args[0], s.b, 'T'))
        if not (it[0] == 'agg' and len(it[2]) == 1 and len(it) > 3):
            continue
        state_field = it[3][0]
        start = receiver_field(it[2][0])
        # the cursor: every Some(x) it yields is the state at entry, and the state moves along exactly one link of that node
        link = None
        yields_state = True
        n_some = 0
        for path, outcome, decs in g.enum_paths():
            if outcome != 'return':
                continue
            r = path_ret_resolved(g, path)
            r = peel(r) if r is not None else None
            if r is None or r[0] != 'agg' or str(r[1]).endswith('Option::None'):
                continue
            n_some += 1
            pay = peel(r[2][0]) if r[2] else None
            yields_state = yields_state and pay is not None and pay[0] == 'field' and pay[2] == state_field
            ws = [e for e in path_effects(g, path) if e[0] == 'w' and e[2] == state_field]
            if len(ws) == 1 and ws[0][4] is not None:
                v = peel(ws[0][4])
                if v[0] == 'field' and v[2] in ('prev', 'next') and any(x[0] == 'field' and x[2] == state_field for x in walk(v[1])):
                    link = v[2] if link in (None, v[2]) else 'mixed'
                else:
                    link = 'mixed'
            else:
                link = 'mixed'
        if not (n_some >= 1 and yields_state and link in ('prev', 'next')):
            continue
        # the stop test
        cl = peel(f.expr_operand(s.args[1], s.b, 'T'))
        c = P.fns.get(cl[1][len('closure:'):]) if cl[0] == 'agg' and str(cl[1]).startswith('closure:') else None
        stop = None
        for _, rt in (ret_trees(c) if c else []):
            a = atom_of(resolve_captures(P, c, rt), ('eq', 1))
            if a and a[0] == 'cmp':
                l, r, op = a[2], a[3], a[1]
                lt = l[0] == 'field' and l[2] == 'time' and any(x[0] == 'arg' and x[1] in (2, '_2') for x in walk(l))
                rt_ = r[0] == 'field' and r[2] == 'time' and any(x[0] == 'arg' and x[1] in (2, '_2') for x in walk(r))
                if lt and not rt_:
                    stop = op
                elif rt_ and not lt:
                    stop = SWAP[op]
        pred = NEG.get(stop)
        # insertion side relative to the found node
        is_cur = lambda t: any(x[0] == 'call' and x[1] == 'std::iter::Iterator::find' for x in walk(t))
        side = None
        stores = {}
        for bb in sorted(f.reachable()):
            for ii, st in enumerate(f.stmts(bb)):
                if st['k'] == 'assign' and st['p']['pr']:
                    fl = [e for e in st['p']['pr'] if e['k'] == 'field']
                    if fl and fl[-1].get('n') in ('prev', 'next') and fl[-1].get('adt', '').endswith('EventNode'):
                        dst = f.expr_place({'l': st['p']['l'], 'pr': st['p']['pr'][:-1]}, bb, ii)
                        if any(x[0] == 'call' and x[1].endswith('EventNode::new') for x in walk(dst)) and not is_cur(dst):
                            stores[fl[-1]['n']] = f.expr_rvalue(st['r'], bb, ii)
        if 'prev' in stores and 'next' in stores:
            p_, n_ = peel(stores['prev']), peel(stores['next'])
            if is_cur(p_) and p_[0] != 'field' or (p_[0] == 'field' and p_[2] == '0' and is_cur(p_)):
                if n_[0] == 'field' and n_[2] == 'next' and is_cur(n_[1]):
                    side = 'after'
            if side is None and (is_cur(n_) and not (n_[0] == 'field' and n_[2] in ('next', 'prev'))) and p_[0] == 'field' and p_[2] == 'prev' and is_cur(p_[1]):
                side = 'before'
        start = _sentinel_roles(P).get(start, start)
        table = (start, link, pred, side)
        ok = table in (('tail', 'prev', 'gt', 'after'), ('head', 'next', 'le', 'before'))
        ctx.check(ok, 'insertion-table',
                  'sorted insertion is stable: a new node is placed after every existing node with an equal timestamp '
                  '(cursor from %s along %s, passes a node iff its time %s new.time, insert %s the found node)' % (start, link, pred, side),
                  s.where(), {'form': 'search over a private cursor', 'walk_start': start, 'link': link, 'advance_iff_cur_time': pred, 'insert': side})
        ctx.__dict__['_c03_search_form'] = True
        return True
    return False


def r1b_all_time_walks(ctx):
    """every loop in the list module that walks along a link while comparing node times must use the stable predicate"""
    ctx.set_rule('C03.R1')
    P = ctx.P
    n = 0
    for f in P.fn_list:
        if not f.key.startswith('des_cqueue::stable::linked_list::') or f.kind == 'promoted':
            continue
        for h, body in f.loops().items():
            for b in sorted(body):
                for i, st in enumerate(f.stmts(b)):
                    if st['k'] != 'assign' or st['p']['pr']:
                        continue
                    t = f.expr_rvalue(st['r'], b, i)
                    if not (t[0] == 'field' and t[2] in ('prev', 'next')):
                        t = ptr_norm(t)
                    if not (t[0] == 'field' and t[2] in ('prev', 'next')):
                        continue
                    v = st['p']['l']
                    dv = [d for d in f._defs() if d[0] == v and not d[3]]
                    if not (any(d[1] in body for d in dv) and any(d[1] not in body for d in dv)):
                        continue
                    atoms = [a for s2, a in f.guard_atoms(b) if s2 in body and a[0] == 'cmp']
                    timed = []
                    for a in atoms:
                        l, r, op = ptr_norm(a[2]), ptr_norm(a[3]), a[1]
                        lt = l[0] == 'field' and l[2] == 'time' and l[1][0] in ('local', 'phi')
                        rt = r[0] == 'field' and r[2] == 'time' and r[1][0] in ('local', 'phi')
                        if lt and not rt:
                            timed.append(op)
                        elif rt and not lt:
                            timed.append(SWAP[op])
                    if not timed:
                        continue   # walks that do not compare times (e.g. the search by id in cancel)
                    n += 1
                    ctx.touch(f)
                    want = 'gt' if t[2] == 'prev' else 'le'
                    ctx.check(timed == [want], 'time-walk:%s' % f.key.split('::')[-1],
                              'a walk along `%s` in %s advances iff cur.time %s new.time — the only predicate that places a new node after all nodes with an equal timestamp' % (t[2], short(f.key), '>' if want == 'gt' else '<='),
                              f.where(b), {'link': t[2], 'advance_iff_cur_time': timed})
    if ctx.__dict__.get('_c03_search_form'):
        n += 1     # the walk of DualLinkedList::add is a search over a private cursor, decided in R1 above
    ctx.floor('time-comparing link walks in the list module', n, 1)


def _locals_in(f, tree, var):
    out = set()
    for x in walk(tree):
        if x[0] == 'local':
            out.add(x[1])
        if x[0] in ('phi', 'var'):
            out.add(var if x[-1] == f.local_name(var) else -1)
    return out


def _mentions_local(tree, var):
    return any((x[0] == 'local' and x[1] == var) or (x[0] in ('phi', 'var')) for x in walk(tree))


def _is_time_of_var(c, f, var):
    """canonical tree is `<var>.time` (through derefs)"""
    return c[0] == 'field' and c[2] == 'time' and (c[1][0] in ('local', 'phi') or (c[1][0] == 'arg' and False))


def _zero_duration(P, f, e, depth=0):
    """is e the constant zero duration?  Duration::ZERO / Duration::default() / Duration::new(0, 0) / from_*(0), or a parameter for which
    every caller passes one of those"""
    e = peel(e)
    if e[0] == 'constdef':
        return str(e[1]).endswith('Duration::ZERO')
    if e[0] == 'call':
        n = str(e[1])
        if n.endswith('Duration::default') or (n.endswith('Default::default') and not e[2]):
            return True
        if re.search(r'Duration::(new|from_secs|from_millis|from_micros|from_nanos)$', n):
            return bool(e[2]) and all(peel(a) == ('int', 0) for a in e[2])
        return False
    if e[0] == 'arg' and depth < 3 and isinstance(e[1], int):
        sites = [c for c in P.call_sites_of(f.key) if c.fn.key != f.key and not c.fn.key.startswith('des_cqueue::tests') and '::tests::' not in c.fn.key]
        k = e[1] - 1
        return bool(sites) and all(k < len(c.args) and _zero_duration(P, c.fn, c.fn.expr_operand(c.args[k], c.b, 'T'), depth + 1) for c in sites)
    return False


def _current_instant_starts_at_zero(ctx, P, fa, bound):
    """(quantifier of the property: "before the first dispatch the 'current instant' is time zero") every construction of the queue
    initialises the bound `add` compares with to the constant zero — not to a configured start time, which would send the events
    pre-loaded for that instant to the zero-delay FIFO and let a zero-delay follow-up queue up behind them"""
    bp = peel(bound)
    if bp[0] != 'field':
        return
    name = bp[2]
    n = 0
    for f in P.fn_list:
        if not f.key.startswith('des_cqueue::') or f.kind == 'promoted':
            continue
        for b in sorted(f.reachable()):
            for i, st in enumerate(f.stmts(b)):
                if st['k'] != 'assign' or st['r']['k'] != 'agg' or strip_generics(str(st['r'].get('adt', ''))) != Q or name not in st['r'].get('fields', []):
                    continue
                n += 1
                v = f.expr_operand(st['r']['ops'][st['r']['fields'].index(name)], b, i)
                ctx.check(_zero_duration(P, f, v), 'current-instant-starts-at-zero', "a new queue's current instant is time zero (a constant), whatever start time is configured",
                          f.where(b), show(v)[:120])
    ctx.floor('constructions of the calendar queue', n, 1)


def r2_zero_container(ctx, cfg='A', rule='C03.R2'):
    ctx.set_rule(rule, cfg)
    P = ctx.progs[cfg]
    if cfg == 'A':
        fa, ff = P.fns.get(Q + '::add'), P.fns.get(Q + '::fetch_next')
        bucket_ins = (L + '::add',)
        bucket_ext = (L + '::pop_min',)
    else:
        base = 'des::runtime::event::event_set::default_impl::FutureEventSet'
        fa, ff = P.fns.get(base + '::add'), P.fns.get(base + '::fetch_next')
        bucket_ins = ('std::collections::BinaryHeap::push',)
        bucket_ext = ('std::collections::BinaryHeap::pop',)
    if not (fa and ff):
        ctx.violation('anchor:add/fetch_next:%s' % cfg, 'unresolved-anchor: event set add/fetch_next in cfg %s' % cfg)
        return
    ctx.touch(fa, ff)
    ins = [s for s in fa.calls() if s.name.startswith('std::collections::VecDeque::push_')]
    ext = [s for s in ff.calls() if s.name.startswith('std::collections::VecDeque::pop_')]
    if not (ctx.floor('zero-container insertion (%s)' % cfg, len(ins), 1) and ctx.floor('zero-container extraction (%s)' % cfg, len(ext), 1)):
        return
    # only `add` files events into the zero-delay container: an event of the current instant that was filed in a bucket (scheduled
    # earlier) keeps its place there - moving it over would put it behind events scheduled later for the same instant
    zf = {receiver_field(fa.expr_operand(s.args[0], s.b, 'T')) for s in ins}
    scope_a = {g.key for g in P.scope_of(fa.key)} | {fa.key}
    foreign = []
    owner_mod = fa.key.rsplit('::', 2)[0]
    for g in P.fn_list:
        if g.kind == 'promoted' or not g.key.startswith(owner_mod) or g.key in scope_a or (g.root or g.key) in scope_a:
            continue
        for c in g.calls():
            if c.name.startswith('std::collections::VecDeque::push_') and c.args and receiver_field(g.expr_operand(c.args[0], c.b, 'T')) in zf:
                foreign.append(c)
    ctx.check(not foreign, 'zero-filled-by-add-only:%s' % cfg, 'events enter the zero-delay container through add alone (never moved over from a bucket)',
              foreign[0].where() if foreign else fa.where(), [c.fn.key for c in foreign][:3])
    ends_in = {s.name.split('_')[-1] for s in ins}
    ends_out = {s.name.split('_')[-1] for s in ext}
    same_field = {receiver_field(fa.expr_operand(s.args[0], s.b, 'T')) for s in ins} == {receiver_field(ff.expr_operand(s.args[0], s.b, 'T')) for s in ext}
    ctx.check(len(ends_in) == 1 and len(ends_out) == 1 and ends_in != ends_out and same_field, 'zero-fifo-ends:%s' % cfg,
              'the zero-delay container is filled at one end and emptied at the other (FIFO)', ins[0].where(),
              {'insert': sorted(s.name for s in ins), 'extract': sorted(s.name for s in ext)})
    # consulted first
    bext = [s for s in ff.calls() if s.name in bucket_ext]
    ctx.floor('bucket extraction (%s)' % cfg, len(bext), 1)
    for s in bext:
        ctx.check(any(ff.dominates(z.b, s.b) for z in ext), 'zero-first:%s' % cfg,
                  'the zero-delay container is consulted before any other container is popped', s.where())
        # and the bucket pop happens only when the zero container had nothing
        none = True
        n_p = 0
        seen_out = []
        for path, outcome, decs in fn_paths(ctx, ff):
            if outcome != 'return' or s.b not in path:
                continue
            n_p += 1
            outs = []
            for z in ext:
                outs += [r for site, r in call_outcomes(ff, path, decs, z.name) if site.b == z.b]
            seen_out.append(outs)
            # on this path the zero container was popped, and it had nothing
            if not outs or any(o != 'None' for o in outs):
                none = False
        ctx.check(none and n_p >= 1, 'bucket-only-if-zero-empty:%s' % cfg, 'a bucket/heap event is taken only if the zero-delay container is empty', s.where(), {'zero_pop_outcomes_on_bucket_paths': seen_out[:6]})
    # placement table: zero container <=> time == bound, nothing else decides
    paths = fn_paths(ctx, fa)
    bound = None
    for path, outcome, decs in paths:
        if outcome == 'panic':
            for _, a in path_atoms(fa, path, decs):
                if a[0] == 'cmp' and ('arg', 'time') in (a[2], a[3]):
                    bound = a[3] if a[2] == ('arg', 'time') else a[2]
    if not ctx.check(bound is not None, 'bound-role:%s' % cfg, 'add compares its time argument with a stored lower bound', fa.where()):
        return
    if cfg == 'A':
        _current_instant_starts_at_zero(ctx, P, fa, bound)
    bad = []
    for ranks in weak_orderings([('arg', 'time'), bound]):
        if ranks[('arg', 'time')] < ranks[bound]:
            continue
        ctx.orderings += 1
        want = 'zero' if ranks[('arg', 'time')] == ranks[bound] else 'bucket'
        got = set()
        for path, outcome, decs in paths:
            if outcome != 'return':
                continue
            atoms = [a for _, a in path_atoms(fa, path, decs)]
            if not all(atom_truth(a, ranks) in (True, None) for a in atoms):
                continue
            effs = path_effects(fa, path)
            z = any(e[0] == 'c' and e[1].name.startswith('std::collections::VecDeque::push_') for e in effs)
            bk = any(e[0] == 'c' and e[1].name in bucket_ins for e in effs)
            got.add('zero' if z and not bk else 'bucket' if bk and not z else 'both/none')
        if got != {want}:
            bad.append((describe_order(ranks), sorted(got), want))
    ctx.check(not bad, 'placement-table:%s' % cfg,
              'an event goes to the zero-delay FIFO iff its time equals the lower bound (current instant), independent of anything else', fa.where(),
              {'mismatches': bad} if bad else {'table': 'time == bound -> zero FIFO; time > bound -> bucket/heap'})


BUF_RE = re.compile(r'^&(mut )?(std::vec::Vec<|\[)\((des::net::runtime::events::NetEvents|E), des::time::SimTime\)')
REORDER = ('push_front', 'sort', 'reverse', 'swap', 'remove', 'insert', 'rotate', 'retain', 'dedup', 'truncate', 'pop', 'split_off',
           'clear', 'splice', 'extract_if', 'select_nth', 'fill', 'copy_within', 'clone_from')
ESCAPE = ('deref_mut', 'as_mut_slice', 'as_mut_ptr', 'iter_mut', 'as_mut', 'last_mut', 'first_mut', 'get_mut', 'index_mut', 'borrow_mut', 'leak')


def _buffer_container_types(P):
    """role: the container(s) that hold the handler's buffered events — the Vec of (event, time) pairs on the pinned tree; after a private
    representation change, the Vec/VecDeque reached from BufferContext whose elements carry a NetEvents (directly, as a tuple, or as a
    field of a private record)"""
    NE = 'des::net::runtime::events::NetEvents'
    out = set()

    def carries(ty, depth=2):
        if NE in ty:
            return True
        if depth <= 0:
            return False
        for k, a in P.adts.items():
            if k.startswith('des::net::runtime::ctx::') and k in ty:
                if any(carries(fd['ty'], depth - 1) for v in a.get('variants', []) for fd in v['fields']):
                    return True
        return False

    def visit(ty, depth=3):
        m = re.match(r'^(std::vec::Vec|std::collections::VecDeque)<(.*)>$', ty)
        if m and carries(m.group(2)):
            out.add(ty)
            return
        if depth <= 0:
            return
        for k, a in P.adts.items():
            if k.startswith('des::net::runtime::ctx::') and ty.split('<')[0] == k:
                for v in a.get('variants', []):
                    for fd in v['fields']:
                        visit(fd['ty'], depth - 1)
    bc = P.adts.get('des::net::runtime::ctx::BufferContext') or {}
    for v in bc.get('variants', []):
        for fd in v['fields']:
            visit(fd['ty'])
    return out


def r3_emission_order(ctx, rule='C03.R3'):
    ctx.set_rule(rule)
    P = ctx.P
    f = ctx.anchor('des::net::runtime::ctx::buf_process')
    if not f:
        return
    conts = _buffer_container_types(P)
    # one buffer: everything a handler emits (packets and self-messages alike) goes through a single FIFO, otherwise the flush cannot
    # reproduce the emission order between the containers
    holders = []
    for k, a in P.adts.items():
        if k.startswith('des::net::runtime::ctx::'):
            for v in a.get('variants', []):
                for fd in v['fields']:
                    if fd['ty'] in conts:
                        holders.append('%s.%s' % (k.split('::')[-1], fd['n']))
    ctx.check(len(holders) == 1, 'single-buffer', 'the handler-local event buffer is a single container (emission order is kept across all kinds of emitted events)',
              f.where(), holders)

    def is_buffer(ty):
        t = re.sub(r"^&\s*('[a-z_]+\s+)?(mut\s+)?", '', ty)
        return bool(BUF_RE.match(ty)) or any(t.replace(', std::alloc::Global', '') == c.replace(', std::alloc::Global', '') or t == c for c in conts)
    # every operation on the buffer vector anywhere
    n = 0
    for g in P.fn_list:
        for s in g.calls():
            if not s.argtys or not is_buffer(s.argtys[0]):
                continue
            n += 1
            m = s.name.split('::')[-1]
            bad = any(m.startswith(x) for x in REORDER) or m in ESCAPE
            ctx.check(not bad, 'buffer-op:%s:%s' % (g.key, m),
                      'the event buffer is only appended to and drained: `%s` in %s could reorder or drop buffered events' % (short(s.name), short(g.key)),
                      s.where(), s.name)
    ctx.floor('operations on the event buffer', n, 4)
    # the flush: add_event once per element of a forward drain of the buffer (loop or for_each form)
    adds = per_item_calls(P, f, forwarders_of(P, 'des::runtime::Runtime::add_event'))
    if not ctx.floor('add_event in the flush loop of buf_process', len(adds), 1):
        return
    for g, s, it, trees in adds:
        ok = it is not None and it[0] == 'call' and it[1] in ('std::vec::Vec::drain', 'std::collections::VecDeque::drain') and receiver_field(it[2][0]) is not None \
            and peel(it[2][1])[0] == 'agg' and 'RangeFull' in str(peel(it[2][1])[1])
        if not ok and it is not None and it[0] == 'call' and it[1] in ('std::mem::take', 'std::mem::replace') and receiver_field(it[2][0]) is not None:
            # the whole buffer is moved out and consumed front to back (`for x in mem::take(&mut buf)`)
            ok = it[1] == 'std::mem::take' or any(x[0] == 'call' and x[1].endswith('Vec::new') for x in walk(it[2][1]))
        ctx.check(ok, 'flush-forward-drain', 'buffered events are handed to the runtime by a forward drain of the whole buffer (emission order)', s.where(), show(it) if it else None)
        ok2 = len(trees) >= 3 and from_item(g, trees[1]) and from_item(g, trees[2])
        ctx.check(ok2, 'flush-time-same-item', 'each event is scheduled with the time buffered with it', s.where(), show(trees[2]) if len(trees) > 2 else None)
    # the generic sink for Vec pushes
    g = [x for x in P.fn_list if x.trait and strip_generics(x.trait) == 'des::runtime::event::EventSink' and x.name == 'add' and 'Vec' in (x.self_ty or '')]
    if ctx.floor('EventSink impl for Vec', len(g), 1):
        calls = [s.name for s in g[0].calls()]
        ctx.check(calls == ['std::vec::Vec::push'], 'sink-appends', 'the buffering sink appends at the end', g[0].where(), calls)
        ctx.touch(g[0])


def r4_no_address_order(ctx):
    ctx.set_rule('C03.R4')
    P = ctx.P
    fs = [f for f in P.fn_list if f.key.startswith((Q + '::', L + '::', 'des_cqueue::stable::linked_list::EventNode::'))]
    ctx.floor('ordering functions of des-cqueue', len(fs), 15)
    n = 0
    for f in fs:
        ctx.touch(f)
        for b in sorted(f.reachable()):
            for i, st in enumerate(f.stmts(b)):
                if st['k'] != 'assign':
                    continue
                r = st['r']
                if r['k'] == 'cast' and (r['ck'] in ('PointerExposeProvenance',) or (r['ck'] == 'Transmute' and r.get('from', '').startswith('*') and not r['ty'].startswith(('*', '&')))):
                    ctx.violation('ptr-to-int:%s' % f.key, 'pointer-to-integer cast in ordering code (address-dependent behaviour)', f.where(b), r['ty'])
                if r['k'] == 'binop' and r['op'] in ('Lt', 'Le', 'Gt', 'Ge', 'Eq', 'Ne'):
                    for o in (r['a'], r['b']):
                        if o['k'] in ('copy', 'move') and not o['p']['pr'] and f.local_ty(o['p']['l']).startswith('*'):
                            ctx.violation('ptr-compare:%s' % f.key, 'raw pointer comparison in ordering code', f.where(b))
                n += 1
        for s in f.calls():
            if s.name in ('std::ptr::mut_ptr::addr', 'std::ptr::const_ptr::addr', 'std::ptr::mut_ptr::expose_provenance'):
                ctx.violation('ptr-addr:%s' % f.key, 'pointer address taken in ordering code', s.where())
            if s.name in ('std::cmp::PartialOrd::lt', 'std::cmp::PartialOrd::gt', 'std::cmp::PartialOrd::le', 'std::cmp::PartialOrd::ge', 'std::cmp::PartialEq::eq') \
                    and s.argtys and s.argtys[0].lstrip('&').startswith('*'):
                ctx.violation('ptr-compare:%s' % f.key, 'raw pointer comparison in ordering code', s.where())
    ctx.ok('no pointer-to-integer casts or pointer comparisons in %d ordering functions (%d statements scanned)' % (len(fs), n), None, [f.key for f in fs][:8])


def run(ctx):
    r1_stable_insertion(ctx)
    r1b_all_time_walks(ctx)
    for cfg in [c for c in ('A', 'B') if c in ctx.progs]:
        r2_zero_container(ctx, cfg)
    ctx.cfg = 'A'
    r3_emission_order(ctx)
    r4_no_address_order(ctx)
    # (R5) equal timestamps meet in one bucket: every insertion and look-up site derives the bucket from the timestamp by the same
    # expression (shared with C01.R2) - a shortcut for "imminent" events files one of two equal-time events elsewhere
    from .C01 import r2_bucket_index
    r2_bucket_index(ctx, rule='C03.R5')
    # (R6) a message sent for the current instant is walked inline, only a send for a later instant becomes an event of its own
    # (shared with C08.R7): a detour through the event set lets what is emitted after it for the same instant overtake it
    from .C08 import r7_delayed_send
    r7_delayed_send(ctx, rule='C03.R6')
    # (R7) what a handler emitted is scheduled before anything buf_process itself schedules (the restart event of the same instant):
    # shared with C09.R3
    from .C09 import flush_before_shutdown
    flush_before_shutdown(ctx, 'C03.R7')

"""C13 — panics are contained and attributed (structural clauses, DESIGN §4 C13)."""
from .engine.helpers import *
import re

EXPLANATION = (
    "Static analysis of the panic harness: (R1) every call of a Module callback (handle_message, at_sim_start, at_sim_end, reset) "
    "sits in a closure that is constructed as the argument of Harness::exec (enumerated exceptions: num_sim_start_stages/stack and "
    "the Module->ProcessingElement adapter); (R2) Harness::exec runs the closure under catch_unwind and records the payload; "
    "Harness::catch, on an unwind, deactivates the module and returns Err(PanicError{path}) unless the module's *current* stereotype "
    "says on_panic_catch; (R3) no Result carrying a PanicError/RuntimeError/JoinError is discarded (table exception: Spawner::terminate); "
    "(R4) every activate() is post-dominated by deactivate() on the same receiver and, in the event handlers and the start-up loop, "
    "followed by buf_process on every returning path (table exception: the `?` return in raw_ndl); (R5) the custom lock guards release "
    "in Drop. "
    '(R2 also: each entry point consumes the harness outcome with its tabled consumer (catch vs pass) and sim-end teardown reaches every module; R5 also, shared with C09.R1: every handler invocation is dominated by active == true, which is what keeps a panicked module inert.) '
    "(R3 also, shared with C12.R4: no step of a module's tear-down, including the collection of joined tasks' outcomes, depends on the module being active.) "
    '(R7) no decision of the start-up schedule reads the collected errors, and nothing of a module runs between the harnessed callback and the consumption of its outcome. '
    "(R3 also, shared with C09.R4: the restart of a module runs at_sim_start on it again.) "
    "(R8) non-empty join errors are what ModuleRef::at_sim_end returns; R9) no explicit panic is reachable while a poisoning std lock guard is held in the net layer, outside an audited table (Gate::connect's wiring assertions). "
    '(R10) join handles leave a module only through the tear-down or the explicit reset_join_handles, and Runtime::finish returns Ok only on paths that found the tear-down result Ok. '
    "(R11) the error list only grows: RuntimeError::merge/extend add their argument to the receiver's list on every returning path and take nothing out of it. "
    "Decides these necessary conditions only; not that healthy modules behave as if the faulty one fell silent.")
ASSUMPTIONS = ["catch_unwind catches every unwinding panic (panic=unwind build)", "processing elements are simulator-side code, not covered by the statement"]

NR = 'des::net::runtime::'
EV = NR + 'events::'
H = NR + 'unwind::Harness'
CALLBACKS = ('handle_message', 'at_sim_start', 'at_sim_end', 'reset')
EXEMPT_CALLERS = {
    '<T as des::net::processing::ProcessingElement>::incoming': 'adapter: a Module used as processing element; invoked from within the harnessed handler chain',
}


def r1_harness_coverage(ctx):
    ctx.set_rule('C13.R1')
    P = ctx.P
    execs = P.call_sites_of(H + '::exec')
    ctx.floor('functions with Harness::exec sites (one per module entry point)', len({(s.fn.root or s.fn.key) if s.fn.kind == 'closure' else s.fn.key for s in execs}), 5)
    harnessed = set()
    for s in execs:
        arg = peel(s.fn.expr_operand(s.args[1], s.b, 'T'))
        if arg[0] == 'agg' and arg[1].startswith('closure:'):
            harnessed.add(arg[1][len('closure:'):])
    n = 0
    for f in P.fn_list:
        for s in f.calls():
            if s.callee and s.callee.startswith('des::net::module::Module::') and s.callee.split('::')[-1] in CALLBACKS:
                n += 1
                ctx.touch(f)
                if f.key in EXEMPT_CALLERS:
                    ctx.ok('exempt caller of Module::%s: %s' % (s.callee.split('::')[-1], EXEMPT_CALLERS[f.key]), s.where())
                    continue
                ok = f.kind == 'closure' and (f.key in harnessed or (f.root and any(h.startswith(f.root) and f.key.startswith(h) for h in harnessed)))
                ctx.check(ok, 'unharnessed:%s' % f.key,
                          'Module::%s is only invoked inside a closure handed to Harness::exec (a panic there is caught and attributed)' % s.callee.split('::')[-1],
                          s.where(), f.key)
    ctx.floor('Module callback invocation sites', n, 4)
    # every exec result goes through catch()/pass()
    for s in execs:
        f = s.fn
        consumers = [c for c in f.calls() if c.name in (H + '::catch', H + '::pass') and
                     any(x[0] == 'call' and x[1] == H + '::exec' and x[3] == s.b for x in walk(f.expr_operand(c.args[0], c.b, 'T')))]
        ctx.check(len(consumers) == 1, 'exec-consumed:%s' % f.key, 'the outcome of every harness execution is inspected (catch/pass)', s.where())


_PANICKED = 'Some'


def _payload_field(P):
    """role: the field that holds the outcome of the harnessed callback — in the Harness itself or in a private companion type of the
    same module (`Harness::exec` may return one): `Option<Box<dyn Any + Send>>` (Some = panicked) or `Result<(), Box<dyn Any + Send>>`
    (Err = panicked).  Sets _PANICKED to the variant that means "the callback panicked"."""
    global _PANICKED
    mod = H.rsplit('::', 1)[0] + '::'
    cands = [H] + sorted(k for k in P.adts if k.startswith(mod) and k != H)
    for k in cands:
        a = P.adts.get(k)
        for v in (a or {}).get('variants', []):
            for fd in v['fields']:
                if fd['ty'].startswith('std::option::Option<std::boxed::Box<(dyn std::any::Any'):
                    _PANICKED = 'Some'
                    return fd['n']
                if fd['ty'].startswith('std::result::Result<(), std::boxed::Box<(dyn std::any::Any'):
                    _PANICKED = 'Err'
                    return fd['n']
    return None


def r2_harness(ctx):
    ctx.set_rule('C13.R2')
    P = ctx.P
    PF = _payload_field(P)
    if not ctx.check(PF is not None, 'payload-role', 'the harness has a field holding the caught unwind payload', None, PF):
        return
    fe = ctx.anchor(H + '::exec')
    if fe:
        cu = [s for s in fe.calls() if s.name == 'std::panic::catch_unwind']
        if ctx.floor('catch_unwind in Harness::exec', len(cu), 1):
            # the user closure f is called inside the closure given to catch_unwind
            inner = P.closures_of(fe)
            calls_f = False
            for g in inner:
                for s in g.calls():
                    if s.callee and ('FnOnce' in s.callee or 'call_once' in s.callee):
                        calls_f = True
            ctx.check(calls_f, 'closure-under-catch_unwind', 'the callback runs inside the catch_unwind scope', cu[0].where())
            w = fe.writes_to_field(PF)
            okw = any(any(x[0] == 'call' and x[1] == 'std::panic::catch_unwind' for x in walk(fe.expr_rvalue(st['r'], b, i))) for b, i, st in w)
            if not okw:
                # functional form: exec returns a fresh Harness { <payload field>: catch_unwind(..).err(), .. }
                for _, rt in ret_trees(fe):
                    for x in walk(rt):
                        if x[0] == 'agg' and str(x[1]).replace('adt:', '').startswith(H.rsplit('::', 1)[0] + '::') and len(x) > 3 and PF in x[3]:
                            v = x[2][list(x[3]).index(PF)]
                            if any(y[0] == 'call' and y[1] == 'std::panic::catch_unwind' for y in walk(v)):
                                okw = True
            ctx.check(okw, 'payload-recorded', 'the unwind payload is recorded in the harness', fe.where())
    fc = ctx.anchor(H + '::catch')
    if not fc:
        return
    n = 0
    for path, outcome, decs in fn_paths(ctx, fc):
        if outcome != 'return':
            continue
        atoms = [a for _, a in path_atoms(fc, path, decs)]
        unw = next((a[2] for a in atoms if a[0] == 'is' and a[1][0] == 'field' and a[1][2] == PF), None)
        effs = path_effects(fc, path)
        deact = [e for e in effs if e[0] == 'c' and e[1].name == 'std::sync::atomic::Atomic::store' and
                 any(x[0] == 'field' and x[2] == 'active' for x in walk(e[2][0])) and e[2][1] == ('int', 0)]
        ret = path_ret_resolved(fc, path)
        is_err = ret is not None and ret[0] == 'agg' and ret[1].endswith('Result::Err')
        n += 1
        if unw == _PANICKED:
            ctx.check(len(deact) == 1, 'unwind-deactivates', 'a panicking module is deactivated', fc.where_path(path))
            catch = [a for a in atoms if a[0] == 'bool' and a[1][0] == 'field' and a[1][2] == 'on_panic_catch']
            live = bool(catch) and any(x[0] == 'call' and x[1].endswith('Cell::get') and any(y[0] == 'field' and y[2] == 'stereotyp' and any(z[0] == 'field' and z[2] == 'ctx' for z in walk(y)) for y in walk(x))
                                       for x in walk(catch[0][1]))
            ctx.check(live, 'stereotype-read-live', "the caught/not-caught decision reads the module's current stereotype (ctx.stereotyp) when the panic is handled",
                      fc.where_path(path), [show_atom(a) for a in catch])
            if catch:
                want_err = catch[0][2] is False
                ctx.check(is_err == want_err, 'error-iff-not-caught', 'a panic is reported as PanicError unless the stereotype declares panics as caught', fc.where_path(path),
                          {'on_panic_catch': catch[0][2], 'returns_err': is_err})
                if is_err:
                    pe = [x for x in walk(ret) if x[0] == 'agg' and x[1].endswith('PanicError::PanicError')]
                    okp = bool(pe) and any(x[0] == 'call' and x[1].endswith('ModuleContext::path') for x in walk(pe[0])) and \
                        any(x[0] == 'field' and x[2] == PF for x in walk(pe[0]))
                    ctx.check(okp, 'error-attributed', "the PanicError names the panicking module's path and carries the payload", fc.where_path(path))
        else:
            ctx.check(not deact and not is_err, 'no-unwind-no-effect', 'without a panic the harness reports success and leaves the module active', fc.where_path(path))
    ctx.floor('paths of Harness::catch', n, 3)
    fp = ctx.anchor(H + '::pass')
    if fp:
        for path, outcome, decs in fn_paths(ctx, fp):
            if outcome != 'return':
                continue
            atoms = [a for _, a in path_atoms(fp, path, decs)]
            unw = next((a[2] for a in atoms if a[0] == 'is' and a[1][0] == 'field' and a[1][2] == PF), None)
            ret = path_ret_resolved(fp, path)
            is_err = ret is not None and ret[0] == 'agg' and ret[1].endswith('Result::Err')
            ok_pass = is_err == (unw == _PANICKED)
            rp = peel(ret) if ret is not None else None
            if not ok_pass and unw is None and rp is not None and rp[0] == 'call' and rp[1] == 'std::result::Result::map_err' and len(rp[2]) == 2 \
                    and peel(rp[2][0])[0] == 'field' and peel(rp[2][0])[2] == PF and _PANICKED == 'Err':
                # `self.result.map_err(|payload| PanicError { .. })`: Err exactly when the stored outcome is Err
                cl = peel(rp[2][1])
                g = P.fns.get(cl[1][len('closure:'):]) if cl[0] == 'agg' and str(cl[1]).startswith('closure:') else None
                rts = [peel(t2) for _, t2 in ret_trees(g)] if g else []
                ok_pass = bool(rts) and all(t2[0] == 'agg' and str(t2[1]).endswith('PanicError::PanicError') and any(y[0] == 'arg' and y[1] == 2 for y in walk(t2)) for t2 in rts)
            ctx.check(ok_pass, 'pass-table', 'Harness::pass reports an error iff the callback panicked', fp.where_path(path))


ERR_TYPES = ('PanicError', 'RuntimeError', 'JoinError')
DISCARD_EXCEPTIONS = {
    'des::net::module::ctx::spawner::Spawner::terminate':
        'unfinished API: its nested block_on panics inside the caller\'s harness, so the panic is reported for the caller; no module panic is swallowed through it (DESIGN §4 C13.R3)',
}


def r3_error_discipline(ctx):
    ctx.set_rule('C13.R3')
    P = ctx.P
    n = 0
    for f in P.fn_list:
        if not f.key.startswith(('des::net', '<des::net', 'des::runtime', '<des::runtime')):
            continue
        if f.kind == 'promoted':
            continue
        for b in sorted(f.reachable()):
            if f.is_cleanup(b):
                continue
            t = f.term(b)
            if t['k'] != 'drop':
                continue
            ty = t['ty']
            if not (ty.startswith('std::result::Result<') and any(e in ty for e in ERR_TYPES)):
                continue
            # dropping a Result<_, Err> local: only fine if on this path it is known Ok or was moved out
            l = t['p']['l']
            if t['p']['pr']:
                continue
            src = f.expr_local(l, b, 'T')
            n += 1
            # is the drop guarded by "is Ok"?  (match arms / ? desugaring move the Err out and leave a shell)
            atoms = [a for _, a in f.guard_atoms(b)]
            ok_known = any(a[0] == 'is' and a[2] == 'Ok' for a in atoms)
            moved = _moved_somewhere(f, l)
            if ok_known or moved:
                continue
            if f.key in DISCARD_EXCEPTIONS or (f.root and f.root in DISCARD_EXCEPTIONS):
                ctx.ok('tabled exception: %s' % DISCARD_EXCEPTIONS.get(f.key) or '', f.where(b), show(src)[:120])
                continue
            ctx.violation('discarded-error:%s' % f.key, 'a Result carrying a %s is dropped without being reported' % ty.split(',')[-1].strip(' >'), f.where(b), show(src)[:200])
    # calls whose Result return value is never used at all
    for f in P.fn_list:
        if not f.key.startswith(('des::net', '<des::net', 'des::runtime', '<des::runtime')) or f.kind == 'promoted':
            continue
        for s in f.calls():
            dty = f.local_ty(s.dest['l']) if not s.dest['pr'] else ''
            if dty.startswith('std::result::Result<') and any(e in dty for e in ERR_TYPES):
                n += 1
                if s.dest['l'] != 0 and not _used(f, s.dest['l'], s.b):
                    if f.key in DISCARD_EXCEPTIONS:
                        ctx.ok('tabled exception: %s' % DISCARD_EXCEPTIONS[f.key], s.where(), s.name)
                    else:
                        ctx.violation('unused-error:%s' % f.key, 'the error result of %s is ignored' % short(s.name), s.where())
    ctx.floor('fallible results examined', n, 8)
    ctx.ok('no panic/runtime/join error is discarded outside the tabled exception (%d result values examined)' % n)
    # errors are merged into the application error
    for k in (EV + 'HandleMessageEvent::handle', EV + 'ModuleRestartEvent::handle', EV + 'AsyncWakeupEvent::handle'):
        f = P.fns.get(k)
        if not f:
            ctx.violation('anchor:' + k, 'unresolved-anchor ' + k); continue
        ext = [s for s in f.calls() if s.name.endswith('RuntimeError::extend')]
        cb = {EV + 'HandleMessageEvent::handle': EV + 'handle_message', EV + 'ModuleRestartEvent::handle': EV + 'module_restart',
              EV + 'AsyncWakeupEvent::handle': EV + 'async_wakeup'}[k]
        ok = len(ext) >= 1 and all(any(x[0] == 'call' and x[1] == cb for x in walk(f.expr_operand(e.args[1], e.b, 'T'))) for e in ext)
        ctx.check(ok, 'error-merged:%s' % k.split('::')[-2], "the handler's panic error is merged into the simulation's error list", f.where())


def _moved_somewhere(f, l):
    for b in sorted(f.reachable()):
        for st in f.stmts(b):
            if st['k'] == 'assign':
                for op in _ops(st['r']):
                    if op.get('k') == 'move' and op['p']['l'] == l:
                        return True
        t = f.term(b)
        if t['k'] == 'call':
            for op in t['args']:
                if op.get('k') == 'move' and op['p']['l'] == l:
                    return True
    return False


def _used(f, l, defb):
    for b in sorted(f.reachable()):
        for st in f.stmts(b):
            if st['k'] == 'assign':
                for op in _ops(st['r']):
                    if op.get('k') in ('move', 'copy') and op['p']['l'] == l:
                        return True
                if st['r']['k'] in ('ref', 'discr', 'rawptr') and st['r']['p']['l'] == l:
                    return True
        t = f.term(b)
        if t['k'] == 'call':
            for op in t['args']:
                if op.get('k') in ('move', 'copy') and op['p']['l'] == l:
                    return True
        if t['k'] == 'switch' and t['d'].get('p', {}).get('l') == l:
            return True
    return False


def _ops(r):
    k = r['k']
    if k in ('use', 'repeat', 'cast'):
        return [r['o']]
    if k == 'binop':
        return [r['a'], r['b']]
    if k == 'unop':
        return [r['a']]
    if k == 'agg':
        return r['ops']
    return []


BRACKET_EXCEPTIONS = {
    'des::net::ndl::raw_ndl': 'the `?` return for a missing registry symbol lies between activate and deactivate; the globals are reset by the next SimStaticsGuard::new (DESIGN §4 C13.R4)',
}
FLUSH_REQUIRED = (EV + 'HandleMessageEvent::handle', EV + 'ModuleRestartEvent::handle', EV + 'AsyncWakeupEvent::handle',
                  '<des::net::runtime::SimLifecycle as des::runtime::event::types::EventLifecycle>::at_sim_start')


def r4_brackets(ctx):
    ctx.set_rule('C13.R4')
    P = ctx.P
    ACT = ('des::net::module::refs::ModuleRef::activate',)
    DEA = ('des::net::module::refs::ModuleRef::deactivate',)
    sites = P.call_sites_of(*ACT)
    ctx.floor('activate() sites', len(sites), 9)
    for s in sites:
        f = s.fn
        ctx.touch(f)
        recv = canon(peel(f.expr_operand(s.args[0], s.b, 'T')))
        deas = [d for d in f.calls() if d.name in DEA and canon(peel(f.expr_operand(d.args[0], d.b, 'T'))) == recv]
        pd = [d for d in deas if f.postdominates(d.b, s.b)]
        if not pd and f.key in BRACKET_EXCEPTIONS and deas:
            # every returning path that does not pass deactivate must be an error return
            ctx.ok('tabled exception: %s' % BRACKET_EXCEPTIONS[f.key], s.where())
            continue
        ctx.check(bool(pd), 'bracket:%s' % f.key, 'activate() is followed by deactivate() of the same module on every returning path (the global module context is always released)',
                  s.where(), {'deactivate_sites': [d.where() for d in deas]})
        if f.key in FLUSH_REQUIRED and pd:
            bp = [x for x in f.calls() if x.name == NR + 'ctx::buf_process']
            okf = any(f.postdominates(x.b, pd[0].b) and pd[0].b != x.b for x in bp)
            ctx.check(okf, 'flush-after-bracket:%s' % f.key,
                      'after the bracket the event buffer is flushed on every returning path (events emitted by a handler that then panicked are not left in the global buffer for the next module)',
                      s.where())
    # the handlers activate before calling into the module
    for k, callee in ((EV + 'HandleMessageEvent::handle', EV + 'handle_message'), (EV + 'ModuleRestartEvent::handle', EV + 'module_restart'), (EV + 'AsyncWakeupEvent::handle', EV + 'async_wakeup')):
        f = P.fns.get(k)
        if not f:
            continue
        a = [s for s in f.calls() if s.name in ACT]
        c = f.calls_to(callee)
        d = [s for s in f.calls() if s.name in DEA]
        # (the call may be conditional - e.g. skipped for an inactive module - but when it runs, it runs inside the bracket)
        ok = a and c and d and all(f.dominates(a[0].b, x.b) and a[0].b != x.b and any(f.postdominates(y.b, x.b) and y.b != x.b for y in d) for x in c)
        ctx.check(bool(ok), 'activate-call-deactivate:%s' % k.split('::')[-2], 'the module callback runs between activate and deactivate', f.where())


def r5_raii(ctx):
    ctx.set_rule('C13.R5')
    P = ctx.P
    guards = [p for p, a in P.adts.items() if p.startswith('des_net_utils::sync::') and p.endswith('Guard')]
    ctx.floor('custom lock guards', len(guards), 1)
    for g in guards:
        d = P.adts[g].get('drop')
        if not d:
            # released through a permit field whose own type implements Drop
            for v in P.adts[g]['variants']:
                for fl in v['fields']:
                    tj = fl['tyj']
                    if tj.get('k') == 'adt' and P.adts.get(strip_generics(tj['p']), {}).get('drop'):
                        d = P.adts[strip_generics(tj['p'])]['drop']
        ok = bool(d)
        if ok:
            df = P.fns.get(strip_generics(d))
            ok = df is not None and bool(df.calls())
        ctx.check(ok, 'guard-drop:%s' % g, 'lock guard %s releases its lock in Drop (locks survive an unwinding callback)' % g.split('::')[-1], None, d)
    # SimStaticsGuard releases on drop
    k = '<des::net::runtime::guard::SimStaticsGuard as std::ops::Drop>::drop'
    f = P.fns.get(k)
    ctx.check(f is not None and bool(f.calls_to(NR + 'ctx::buf_drop')), 'statics-guard-drop', 'the simulation statics guard clears the global buffers on drop', f.where() if f else None)


CONSUMER = {  # entry point -> how the harness outcome must be consumed
    EV + 'handle_message': 'catch', EV + 'at_sim_start': 'catch', EV + 'at_sim_end': 'catch', EV + 'async_wakeup': 'catch',
    EV + 'reset': 'pass',   # a panic while resetting is always reported (the module is already inactive)
}


def r6_consumers_and_teardown(ctx):
    P = ctx.P
    ctx.set_rule('C13.R2')
    for k, want in CONSUMER.items():
        f = P.fns.get(k)
        if f is None:
            ctx.violation('anchor:' + k, 'unresolved-anchor ' + k); continue
        for s in f.calls_to(H + '::exec'):
            cons = [c for c in f.calls() if c.name in (H + '::catch', H + '::pass') and
                    any(x[0] == 'call' and x[1] == H + '::exec' and x[3] == s.b for x in walk(f.expr_operand(c.args[0], c.b, 'T')))]
            got = cons[0].name.split('::')[-1] if cons else None
            ctx.check(got == want, 'consumer:%s' % k.split('::')[-1],
                      "%s consumes the harness outcome with `%s` (catch = deactivate the module and honour its stereotype; only reset reports unconditionally)" % (short(k), want),
                      s.where(), got)
    teardown_reaches_all(ctx, 'C13.R3')
    from .C12 import teardown_regardless_of_activity
    teardown_regardless_of_activity(ctx, 'C13.R3')
    # the event buffer is flushed unconditionally by buf_process
    ctx.set_rule('C13.R4')
    g = P.fns.get(NR + 'ctx::buf_process')
    if g is not None:
        dr = [s for s in g.calls() if s.name in ('std::vec::Vec::drain', 'std::collections::VecDeque::drain')]
        ok = bool(dr) and g.postdominates(dr[0].b, 0)
        if not ok:
            # equivalent: the buffer is moved out (mem::take) and every element handed to the runtime, on every path
            for w in per_item_calls(P, g, 'des::runtime::Runtime::add_event'):
                src = w.it
                if src is not None and src[0] == 'call' and src[1] in ('std::mem::take', 'std::vec::Vec::drain', 'std::collections::VecDeque::drain') and w.exhaustive and g.postdominates(w.anchor, 0):
                    ok = True
        ctx.check(ok, 'flush-unconditional', 'buf_process drains the global event buffer on every path — also for a module that has just been deactivated by a panic', g.where())


def teardown_reaches_all(ctx, rule):
    """tear-down reaches every module: after the application's own at_sim_end the per-module loop is on every feasible path"""
    P = ctx.P
    ctx.set_rule(rule)
    k = '<des::net::runtime::SimLifecycle as des::runtime::event::types::EventLifecycle>::at_sim_end'
    f = P.fns.get(k)
    if f is None:
        ctx.violation('anchor:' + k, 'unresolved-anchor ' + k); return
    ends = f.calls_to(EV + 'at_sim_end')
    if not ctx.floor('per-module at_sim_end call', len(ends), 1):
        return
    hdrs = f.loops_containing(ends[0].b)
    n = 0
    for path, outcome, decs in fn_paths(ctx, f):
        if outcome != 'return':
            continue
        atoms = [a for _, a in path_atoms(f, path, decs)]
        # the `?` on the application's at_sim_end is a legitimate early exit
        app_err = any(a[0] == 'is' and a[2] in ('Break', 'Err') for a in atoms)
        if app_err or any(h in path for h in hdrs):
            continue
        # an exit before the loop: feasible?  `x.is_empty() == false` right after x was swapped with a fresh RuntimeError::empty() is dead code
        dead = False
        for a in atoms:
            if a[0] == 'bool' and a[2] is False and a[1][0] == 'call' and a[1][1].endswith('::is_empty'):
                subj = a[1][2][0]
                while subj[0] == 'call' and len(subj[2]) == 1 and subj[1].split('::')[-1] in ('deref', 'as_ref', 'borrow', 'as_slice', 'deref_mut'):
                    subj = subj[2][0]
                for s in f.calls():
                    if s.name == 'std::mem::swap' and s.b in path:
                        t0 = canon(peel(f.expr_operand(s.args[0], s.b, 'T')))
                        t1 = canon(peel(f.expr_operand(s.args[1], s.b, 'T')))
                        fresh = [t for t in (t0, t1) if t[0] == 'call' and t[1].endswith('RuntimeError::empty')]
                        other = [t for t in (t0, t1) if t not in fresh]
                        if fresh and other and other[0] == subj:
                            dead = True
                    if s.name == 'std::mem::replace' and s.b in path:
                        t0 = canon(peel(f.expr_operand(s.args[0], s.b, 'T')))
                        t1 = canon(peel(f.expr_operand(s.args[1], s.b, 'T')))
                        if t1[0] == 'call' and t1[1].endswith('RuntimeError::empty') and t0 == subj:
                            dead = True
        if dead:
            continue
        n += 1
        ctx.violation('teardown-skipped',
                      "SimLifecycle::at_sim_end can return without visiting the modules: after a run-phase panic no module would get at_sim_end and later panics/join errors would not be listed",
                      f.where_path(path), [show_atom(a) for a in atoms][:5])
    if n == 0:
        ctx.ok('every feasible path of the tear-down visits all modules (the only early exits are the application error and a provably dead check)', f.where())


def r7_failure_changes_nothing_else(ctx):
    """healthy modules are served as if the faulty one had merely fallen silent: (a) the start-up schedule does not depend on whether
    some module has failed already (no branch of SimLifecycle::at_sim_start reads the collected errors); (b) in a module's own entry
    points nothing of the module runs between the harnessed callback and the consumption of its outcome (catch = deactivate first):
    the processing stack's event_end of a panicked module would otherwise still run - and send - while the module counts as active"""
    ctx.set_rule('C13.R7')
    P = ctx.P
    f = P.fns.get('<des::net::runtime::SimLifecycle as des::runtime::event::types::EventLifecycle>::at_sim_start')
    if f is None:
        ctx.violation('anchor:at_sim_start', 'unresolved-anchor SimLifecycle::at_sim_start')
    else:
        ctx.touch(f)
        n = 0
        for g in [f] + P.closures_of(f):
            for b in sorted(g.reachable()):
                t = g.term(b)
                if t['k'] != 'switch':
                    continue
                n += 1
                cond = g.expr_operand(t['d'], b, 'T')
                dep = any(x[0] == 'field' and x[2] == 'error' for x in walk(cond))
                ctx.check(not dep, 'startup-independent-of-failures', 'no decision of the start-up schedule depends on the errors collected so far', g.where(b), show(cond)[:120])
        ctx.floor('decisions in SimLifecycle::at_sim_start', n, 2)
    for k in CONSUMER:
        g = P.fns.get(k)
        if g is None:
            continue
        ctx.touch(g)
        for path, outcome, decs in fn_paths(ctx, g):
            if outcome != 'return':
                continue
            effs = path_effects(g, path)
            ex = [i for i, e in enumerate(effs) if e[0] == 'c' and e[1].name == H + '::exec']
            co = [i for i, e in enumerate(effs) if e[0] == 'c' and e[1].name in (H + '::catch', H + '::pass')]
            for i in ex:
                nxt = [j for j in co if j > i]
                if not nxt:
                    continue
                between = [e[1].name for e in effs[i + 1:nxt[0]] if e[0] == 'c' and e[1].name.startswith(('des::net::processing::', 'des::net::runtime::ctx::', 'des::net::module::'))]
                ctx.check(not between, 'outcome-consumed-first:%s' % k.split('::')[-1],
                          "the outcome of the harnessed callback is consumed (a panicking module deactivated) before anything else of the module runs", g.where_path(path), between[:3])


def r8_join_errors_reported(ctx):
    """a panicked (or unfinished) joined task is always listed: when the errors collected while joining the module's tasks are not empty,
    ModuleRef::at_sim_end reports exactly Err(those errors): the Err value is built under the `!is_empty` test and stored / returned as
    it is, never fed into a combinator (`result.and(Err(..))`, `or`, ..) in which the module's own result can take precedence"""
    ctx.set_rule('C13.R8')
    f = ctx.anchor(EV + 'at_sim_end')
    if not f:
        return
    def join_err(t):
        return any(x[0] == 'agg' and str(x[1]).endswith('Result::Err') and any(y[0] == 'call' and str(y[1]).endswith('RuntimeError::empty') for y in walk(x)) for x in walk(t))
    n = 0
    for b in sorted(f.reachable()):
        for i, st in enumerate(f.stmts(b)):
            if st['k'] == 'assign' and st['r']['k'] == 'agg' and str(st['r'].get('adt', '')).endswith('result::Result') and st['r'].get('variant') == 'Err':
                v = f.expr_rvalue(st['r'], b, i)
                if not join_err(v):
                    continue
                n += 1
                guards = [a for _, a in f.guard_atoms(b)]
                ne = any(a[0] == 'bool' and a[2] is False and a[1][0] == 'call' and str(a[1][1]).endswith('is_empty') for a in guards)
                ctx.check(ne, 'join-errors-returned', 'Err(join errors) is built exactly when the collected join errors are not empty', f.where(b), [show_atom(a) for a in guards][-3:])
    ctx.floor('Err(join errors) built in at_sim_end', n, 1)
    for s_ in f.calls():
        if str(s_.name).startswith('std::result::Result::') and s_.name.split('::')[-1] in ('and', 'or', 'and_then', 'or_else', 'unwrap_or', 'unwrap_or_else', 'unwrap_or_default'):
            if any(join_err(f.expr_operand(a, s_.b, 'T')) for a in s_.args):
                ctx.violation('join-errors-returned', "non-empty join errors are what at_sim_end returns (they are never combined with the module's own result so that they can be dropped)",
                              s_.where(), s_.name)


# explicit panics (assert!/panic!/unreachable!) raised while a poisoning lock guard is held, audited on the pinned tree
PANIC_UNDER_LOCK = {
    ('des::net::gate::Gate::connect', 'Connections'): 'wiring assertion (already connected / too many peers): raised while the topology is built, a build error of the '
                                                     'model, not a fault of one module at run time',
}


def r9_no_poisoning(ctx):
    """a module's panic must not damage what healthy modules use: std's Mutex / RwLock (write side) are poisoned when a panic unwinds through
    a live guard, and every later `lock().expect(..)` of ANY module on that object panics too.  No explicit panic is reachable while such
    a guard is held in the net layer, outside the audited table."""
    ctx.set_rule('C13.R9')
    P = ctx.P
    n_g = 0
    found = set()
    for f in P.fn_list:
        if f.kind == 'promoted' or not f.key.startswith(('des::net::', '<des::net::')):
            continue
        for G in range(len(f.locals)):
            ty = str(f.locals[G]['ty'])
            if not ty.startswith(('std::sync::MutexGuard<', 'std::sync::RwLockWriteGuard<')):
                continue
            n_g += 1
            defs = []
            for b in sorted(f.reachable()):
                t = f.blocks[b]['t']
                if t['k'] == 'call' and t['dest']['l'] == G and not t['dest']['pr'] and t.get('t') is not None:
                    defs.append(t['t'])
                if any(st['k'] == 'assign' and st['p']['l'] == G and not st['p']['pr'] for st in f.blocks[b]['s']):
                    defs.append(b)
            seen = set()
            stack = list(defs)
            while stack:
                b = stack.pop()
                if b in seen:
                    continue
                seen.add(b)
                blk = f.blocks[b]
                if blk.get('cleanup'):
                    continue
                t = blk['t']
                gone = (t['k'] == 'drop' and t['p']['l'] == G and not t['p']['pr']) or \
                    any(st['k'] == 'assign' and st['r']['k'] == 'use' and st['r']['o'].get('k') == 'move' and st['r']['o']['p']['l'] == G and not st['r']['o']['p']['pr'] for st in blk['s']) or \
                    (t['k'] == 'call' and any(a.get('k') == 'move' and a['p']['l'] == G and not a['p']['pr'] for a in t['args']))
                if t['k'] == 'call' and t.get('t') is None and 'panicking' in strip_generics(t.get('callee') or ''):
                    what = re.sub(r"^.*<'_, |^.*<", '', ty).rstrip('>').split('::')[-1]
                    found.add((f.root or f.key, what, f.where(b)))
                if gone:
                    continue
                for nb in f.succs(b):
                    if not f.blocks[nb].get('cleanup'):
                        stack.append(nb)
    ctx.floor('poisoning lock guards held in the net layer', n_g, 3)
    for fk, what, where in sorted(found):
        ctx.check((fk, what) in PANIC_UNDER_LOCK, 'panic-under-lock:%s:%s' % (fk, what),
                  'no explicit panic while a poisoning lock guard is held (a faulty module would poison a lock that healthy modules take)', where,
                  PANIC_UNDER_LOCK.get((fk, what)))


def r10_outcomes_not_forgotten(ctx):
    """(a) the handles of joined tasks live until the tear-down collects their outcome: they are taken out of the module's lists by
    ModuleRef::at_sim_end (drain) and by the explicit reset_join_handles only — a restart does not forget a task that already panicked;
    (b) Runtime::finish reports success only after the tear-down reported success, on every exit (also when a limit cut the run short)"""
    ctx.set_rule('C13.R10')
    P = ctx.P
    allowed = {g.key for k in (EV + 'at_sim_end', 'des::net::module::ctx::rt::reset_join_handles') for g in P.scope_of(k)}
    n = 0
    for f in P.fn_list:
        if f.kind == 'promoted' or not f.key.startswith(('des::net::', '<des::net::')):
            continue
        for s_ in f.calls():
            last = s_.name.split('::')[-1]
            if not s_.args or last not in ('clear', 'drain', 'truncate', 'retain', 'retain_mut', 'pop', 'remove', 'swap_remove', 'split_off', 'take', 'replace', 'drain_filter', 'extract_if'):
                continue
            r = f.expr_operand(s_.args[0], s_.b, 'T')
            fl = [x[2] for x in walk(r) if x[0] == 'field' and x[2] in ('must_join', 'try_join') and str(x[3] if len(x) > 3 else '').endswith('AsyncCoreExt')]
            if not fl:
                continue
            n += 1
            ctx.check((f.root or f.key) in allowed or f.key in allowed, 'join-handles-forgotten:%s' % (f.root or f.key).split('::')[-1],
                      'join handles leave the module only through the tear-down (at_sim_end) or the explicit reset_join_handles', s_.where(), {'list': fl[0], 'by': s_.name})
    ctx.ok('sites taking join handles out of a module inspected: %d' % n, None)
    f = P.fns.get('des::runtime::Runtime::finish')
    if f is None:
        ctx.violation('anchor:Runtime::finish', 'unresolved-anchor: des::runtime::Runtime::finish')
        return
    n_ok = 0
    seen = set()
    for path, outcome, decs in fn_paths(ctx, f):
        if outcome != 'return':
            continue
        r = path_ret_resolved(f, path)
        r = peel(r) if r is not None else ('unknown',)
        if not (r[0] == 'agg' and str(r[1]).endswith('Result::Ok')):
            continue
        fin = [a for _, a in path_atoms(f, path, decs) if a[0] == 'is' and any(x[0] == 'call' and str(x[1]).endswith('EventLifecycle::at_sim_end') for x in walk(a[1]))]
        k = tuple(show_atom(a) for a in fin)
        n_ok += 1
        if k in seen:
            continue
        seen.add(k)
        ctx.check(any(a[2] in ('Ok', 'Continue') for a in fin), 'finish-ok-only-after-teardown-ok', 'Runtime::finish returns Ok only on paths that found the tear-down result Ok',
                  f.where_path(path), list(k))
    ctx.floor('successful returns of Runtime::finish', n_ok, 2)


def r11_error_list_only_grows(ctx):
    """run() lists exactly the failures that happened: the accumulating operations of the error list (`RuntimeError::merge` / `extend`) add
    the argument to what the receiver already holds on every returning path, and never take anything out of the receiver (no swap /
    replace / take / clear / truncate / drain ... of `self.inner` that is not followed by re-adding on the same path)."""
    ctx.set_rule('C13.R11')
    P = ctx.P
    RE_ = 'des::runtime::error::RuntimeError::'
    GROW = ('extend', 'append', 'push', 'extend_from_slice', 'extend_one', 'insert', 'push_back')
    LOSE = ('clear', 'truncate', 'drain', 'retain', 'retain_mut', 'pop', 'remove', 'swap_remove', 'split_off', 'take', 'replace', 'swap', 'drain_filter', 'extract_if', 'dedup')

    def self_inner(f, op, b):
        t = peel(f.expr_operand(op, b, 'T'))
        return t[0] == 'field' and len(t) > 2 and t[2] == 'inner' and any(isinstance(y, tuple) and y and y[0] == 'arg' and len(y) > 1 and y[1] == 1 for y in walk(t[1]))

    def from_param(f, c):
        # the added value comes from the function's argument (directly, or element-wise through its iterator)
        return len(c.args) > 1 and any(isinstance(y, tuple) and y and y[0] == 'arg' and len(y) > 1 and y[1] == 2 for a in c.args[1:] for y in walk(f.expr_operand(a, c.b, 'T')))

    def is_grow(f, c, depth=0):
        last = c.name.split('::')[-1]
        if last in GROW and c.args and self_inner(f, c.args[0], c.b):
            return depth > 0 or from_param(f, c)
        if depth == 0 and c.name.startswith(RE_) and c.args and from_param(f, c):
            # a private recording helper of RuntimeError called on the receiver: it must add its argument to the list on every path
            r = peel(f.expr_operand(c.args[0], c.b, 'T'))
            g = P.fns.get(c.name)
            if g is not None and g is not f and r[0] == 'arg' and r[1] == 1:
                gp = [(p_, d_) for p_, o_, d_ in fn_paths(ctx, g) if o_ == 'return']
                return bool(gp) and all(any(e[0] == 'c' and is_grow(g, e[1], 1) for e in path_stream(g, p_, d_)) for p_, d_ in gp)
        return False

    n = 0
    for nm in ('merge', 'extend'):
        f = P.fns.get(RE_ + nm)
        if f is None:
            ctx.violation('anchor:RuntimeError::' + nm, 'unresolved-anchor: ' + RE_ + nm)
            continue
        ctx.check(not f.writes_to_field('inner'), 'error-list-overwritten:' + nm, 'RuntimeError::%s does not assign the error list (it adds to it)' % nm, f.where())
        n_p = 0
        # loop form (`for e in iter { self.inner.push(..) }`): a path that leaves such a loop without a turn met an empty argument
        loop_heads = set()
        for c in f.calls():
            if is_grow(f, c):
                for lp in f.loops_containing(c.b):
                    loop_heads.add(lp)
        for path, outcome, decs in fn_paths(ctx, f):
            if outcome != 'return':
                continue
            n_p += 1
            calls = [e[1] for e in path_stream(f, path, decs) if e[0] == 'c']
            grow = [i for i, c in enumerate(calls) if is_grow(f, c)]
            lose = [i for i, c in enumerate(calls) if c.name.split('::')[-1] in LOSE and c.args and any(self_inner(f, a, c.b) for a in c.args if isinstance(a, dict) and a.get('k') in ('copy', 'move'))]
            ok = (bool(grow) or any(h in path for h in loop_heads)) and all(any(g > l for g in grow) for l in lose)
            ctx.check(ok, 'error-list-grows:' + nm,
                      'RuntimeError::%s adds its argument to the errors the receiver already holds on every returning path, and takes nothing out of the receiver '
                      'without adding it back (a path that swaps/replaces/clears the list, or returns without appending, loses recorded failures: '
                      'run() would no longer list every module that panicked)' % nm, f.where_path(path), {'grow_calls': len(grow), 'losing_calls': len(lose)})
        n += n_p
    ctx.floor('returning paths of RuntimeError::merge/extend', n, 2)


def run(ctx):
    r11_error_list_only_grows(ctx)
    r10_outcomes_not_forgotten(ctx)
    r8_join_errors_reported(ctx)
    r9_no_poisoning(ctx)
    r7_failure_changes_nothing_else(ctx)
    # (R3 cont.) a panic in any start-up stage of a restart is reported, not only the last stage's (shared with C09.R4)
    from .C09 import r4_restart
    r4_restart(ctx, rule='C13.R3')
    r6_consumers_and_teardown(ctx)
    r1_harness_coverage(ctx)
    r2_harness(ctx)
    r3_error_discipline(ctx)
    r4_brackets(ctx)
    r5_raii(ctx)
    # (R5) a module deactivated by a panic runs no further handler or task: every handler invocation of handle_message / async_wakeup is
    # dominated by active == true (shared with C09.R1; a panicked module keeps its runtime and timers, only this guard keeps it inert)
    from .C09 import r1_inert_handlers
    r1_inert_handlers(ctx, rule='C13.R5')

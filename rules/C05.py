"""C05 — timers fire exactly at their deadline and are never lost (structural clauses, DESIGN §4 C05)."""
from .engine.helpers import *

EXPLANATION = (
    "Static analysis of the timer driver: (R1) the next wake-up is computed by a search over all pending slots whenever "
    "emptied slots can persist in the pending list; (R2) Sleep::poll is Ready iff deadline <= now and TimerQueue::bump pops a "
    "slot iff slot.time <= now (same predicate, same clock); (R3) in ModuleRef::deactivate, on every path, the stored "
    "next_wakeup is written iff a wake-up event is scheduled, both with the value returned by next(), under next < next_wakeup; "
    "(R4) activate bumps, clears a reached next_wakeup, wakes every bumped slot and only then installs the driver; "
    "(R5) Sleep::poll registers an unscheduled pending sleep and stores the handle, resolves it when ready; the handle's Drop "
    "removes the entry unless resolved; a handle returned by TimerSlotEntryHandle::reset is only kept if reset defuses the old "
    "handle; (R6) Timeout polls the value before the delay and maps value-ready to Ok; (R7) Interval returns the old deadline "
    "and re-arms to deadline+period or the missed-tick result. "
    '(R7 per path: an on-time tick is re-armed at its own deadline + period — never relative to `now` — and a missed tick by the configured MissedTickBehavior from (deadline, now, period), whose table Burst/Delay/Skip is checked row by row; R1 also: the yield of bump is lossless — every popped waker is woken.) '
    "(R8) deadline provenance: the Sleep behind sleep/timeout carries now + the given duration (the far future on overflow), the one behind "
    "sleep_until/timeout_at/interval_at the given instant, interval starts at now and keeps the given period, Sleep::reset stores the new "
    "deadline on every path and Interval::reset re-arms at now + period. "
    '(R5 also: TimerSlot::add stores every entry unconditionally - one entry per registered sleep.) '
    '(R9) no deadline or clock read-out in a unit coarser than its resolution anywhere in the timer modules. '
    '(R1 also: Driver::next answers with the search over the live slots on every call - no cached or suppressed answer.) '
    "Decides these necessary conditions only; not firing instants over programs.")
ASSUMPTIONS = ["VecDeque::binary_search_by/insert keep the pending list sorted by time", "wakers wake their tasks (tokio)"]

D = 'des::time::driver::'
TQ = D + 'TimerQueue'
TS = D + 'TimerSlot'
TH = D + 'TimerSlotEntryHandle'
SLEEP = 'des::time::sleep::Sleep'
NOW = 'des::time::SimTime::now'
REMOVERS = ('remove', 'swap_remove', 'retain', 'pop', 'drain', 'clear', 'truncate', 'take')
POSITIONAL = ('front', 'back', 'get', 'index', 'first', 'last', 'front_mut')
SEARCH = ('find', 'position', 'find_map', 'filter', 'skip_while', 'any', 'min_by_key', 'min', 'fold', 'for_each', 'next')


def _calls_rec(P, f, depth=3):
    """call sites of f and of closures it creates (transitively)"""
    out = list(f.calls())
    for g in P.closures_of(f):
        out += list(g.calls())
    return out


def r1_next_wakeup(ctx, rule='C05.R1'):
    ctx.set_rule(rule)
    P = ctx.P
    sc = P.scope_of(TQ + '::next')   # the slot search: TimerQueue::next, or Driver::next if the delegate was merged into it
    if not ctx.floor('function computing the next wake-up (TimerQueue::next)', len(sc), 1):
        return
    fnext = sc[0]
    # (0) what the module asks (Driver::next) IS that search, on every call: a forwarder with no state of its own — an answer cached or
    # suppressed "because nothing changed" misses a wake-up that was never announced (not announced because a nearer one existed)
    dn = P.fns.get(D + 'Driver::next')
    if dn is not None and dn is not fnext:
        alts = []
        for _, t in ret_trees(dn):
            t = peel(t)
            alts += [peel(y) for y in (t[1] if t[0] == 'phi' else [t])]
        # (every answer is computed from the search: the call itself, or the call behind filter/map adaptors — never a path without it)
        ctx.check(bool(alts) and all(any(x[0] == 'call' and x[1] == fnext.key for x in walk(a)) for a in alts), 'driver-next-is-the-search', 'Driver::next answers with the search over the live slots, unconditionally',
                  dn.where(), [show(a)[:80] for a in alts][:3])
    # (a) can an emptied slot stay in the pending list?
    removers = []
    for f in P.fn_list:
        for s in f.calls():
            if s.args and s.name.split('::')[-1] in REMOVERS and 'std::vec::Vec' in s.name:
                rf = receiver_field(f.expr_operand(s.args[0], s.b, 'T'))
                if rf == 'entrys':
                    # does the same function prune the pending list?
                    prunes = any(receiver_field(f.expr_operand(c.args[0], c.b, 'T')) == 'pending' and c.name.split('::')[-1] in REMOVERS
                                 for c in f.calls() if c.args)
                    if not prunes:
                        removers.append((f, s))
    ctx.touch(fnext)
    calls = _calls_rec(P, fnext)
    positional = [s for s in calls if s.name.split('::')[-1] in POSITIONAL and 'VecDeque' in s.name]
    searching = [s for s in calls if s.name.split('::')[-1] in SEARCH and ('Iterator' in s.name or 'iter' in s.name.lower())]
    if not removers:
        ctx.ok('no function empties a slot without pruning it from the pending list (emptied slots cannot persist)', fnext.where())
        ctx.note('risk idiom (persisting empty slots) not found')
        return
    ok = bool(searching) and not positional
    ctx.check(ok, 'front-only:%s' % fnext.key,
              'emptied timer slots can persist in the pending list (%s), so the next wake-up must be found by a search over all slots, '
              'not by a positional look at the front slot — otherwise a live later timer gets no wake-up'
              % ', '.join(sorted({short(f.key) for f, _ in removers})),
              fnext.where(), {'positional': [s.name for s in positional], 'search': [s.name for s in searching]})
    # the search predicate is "slot has entries"
    if ok:
        ctx.check(any(_selects_nonempty(ctx, g) for g in [fnext] + P.closures_of(fnext)), 'search-predicate',
                  'the search selects the first slot that still has entries', fnext.where())


def _mentions_entries(t):
    return any(x[0] == 'field' and x[2] == 'entrys' for x in walk(t))


def _selects_nonempty(ctx, g):
    """g accepts (returns true / Some(time)) only slots whose entry list is non-empty"""
    # (a) straight-line predicate: `!entries.is_empty()` / `entries.len() > 0`
    for b, t in ret_trees(g):
        a = atom_of(t, ('eq', 1))
        if a and a[0] == 'bool' and a[2] is False and a[1][0] == 'call' and a[1][1].endswith('::is_empty') and _mentions_entries(a[1]):
            return True
        if a and a[0] == 'cmp' and _len_positive(a):
            return True
    # (a') `nonempty.then_some(time)` / `nonempty.then(|| time)` (find_map form)
    for b, t in ret_trees(g):
        t = peel(t)
        if t[0] == 'call' and t[1].endswith(('bool::then_some', 'bool::then')) and t[2]:
            a = atom_of(peel(t[2][0]), ('eq', 1))
            if a and a[0] == 'bool' and a[2] is False and a[1][0] == 'call' and a[1][1].endswith('::is_empty') and _mentions_entries(a[1]):
                return True
            if a and a[0] == 'cmp' and _len_positive(a):
                return True
    # (b) branching: every accepting path carries the non-emptiness fact
    n = 0
    for path, outcome, decs in fn_paths(ctx, g):
        if outcome != 'return':
            continue
        r = path_ret(g, path)
        accepting = r == ('int', 1) or (r is not None and r[0] == 'agg' and r[1].endswith('Option::Some'))
        if not accepting:
            continue
        n += 1
        atoms = [a for _, a in path_atoms(g, path, decs)]
        good = any((a[0] == 'bool' and a[2] is False and a[1][0] == 'call' and a[1][1].endswith('::is_empty') and _mentions_entries(a[1])) or
                   (a[0] == 'cmp' and _len_positive(a)) for a in atoms)
        if not good:
            return False
    return n > 0


def _len_positive(a):
    op, l, r = a[1], a[2], a[3]
    if r[0] == 'call' and r[1].endswith('::len'):
        l, r, op = r, l, SWAP[op]
    if not (l[0] == 'call' and l[1].endswith('::len') and _mentions_entries(l)):
        return False
    return (op in ('gt', 'ne') and r == ('int', 0)) or (op == 'ge' and r == ('int', 1))


def _closure_ret_atoms(P, f):
    """comparison atoms returned by the closures of f: list of (closure, atom)"""
    out = []
    for g in P.closures_of(f):
        for b, t in ret_trees(g):
            a = atom_of(t, ('eq', 1))
            if a and a[0] == 'cmp':
                out.append((g, a))
    return out


def r2_ready_wake_agreement(ctx, rule='C05.R2'):
    ctx.set_rule(rule)
    P = ctx.P
    fp = ctx.anchor('<%s as std::future::Future>::poll' % SLEEP)
    fb = ctx.anchor(TQ + '::bump')
    if not (fp and fb):
        return
    # Sleep::poll: block that builds Poll::Ready
    ready_blocks = []
    pending_blocks = []
    for b in sorted(fp.reachable()):
        for i, st in enumerate(fp.stmts(b)):
            if st['k'] == 'assign' and st['p']['l'] == 0 and not st['p']['pr'] and st['r']['k'] == 'agg' and st['r'].get('adt', '').endswith('task::Poll'):
                (ready_blocks if st['r']['variant'] == 'Ready' else pending_blocks).append(b)
    ctx.floor('Poll::Ready construction in Sleep::poll', len(ready_blocks), 1)
    ctx.floor('Poll::Pending construction in Sleep::poll', len(pending_blocks), 1)

    def deadline_vs_now(atoms):
        for a in atoms:
            if a[0] == 'cmp':
                l, r = a[2], a[3]
                ln = any(x[0] == 'call' and x[1] == NOW for x in walk(l))
                rn = any(x[0] == 'call' and x[1] == NOW for x in walk(r))
                ld = any(x[0] == 'field' and x[2] == 'deadline' for x in walk(l))
                rd = any(x[0] == 'field' and x[2] == 'deadline' for x in walk(r))
                if ld and rn:
                    return a[1]
                if rd and ln:
                    return SWAP[a[1]]
        return None
    for b in ready_blocks:
        op = deadline_vs_now([a for _, a in fp.guard_atoms(b, derived=True)])
        ctx.check(op == 'le', 'sleep-ready-table', 'Sleep::poll returns Ready iff deadline <= now', fp.where(b), 'deadline %s now' % op)
    for b in pending_blocks:
        op = deadline_vs_now([a for _, a in fp.guard_atoms(b, derived=True)])
        ctx.check(op == 'gt', 'sleep-pending-table', 'Sleep::poll returns Pending iff deadline > now', fp.where(b), 'deadline %s now' % op)
    # bump: closures return slot.time <= cur, cur = now()
    atoms = _closure_ret_atoms(P, fb)
    inline = []
    if not atoms:
        # the predicate written in place: the pop of a pending slot is guarded by a comparison of the front slot's time
        seen = set()
        for path, outcome, decs in fn_paths(ctx, fb):
            last = None
            for e in path_stream(fb, path, decs):
                if e[0] == 'atom':
                    a = e[1]
                    if a and a[0] == 'cmp' and any(x[0] == 'field' and x[2] == 'time' for x in walk(a)):
                        last = a
                elif e[0] == 'c' and e[1].name.split('::')[-1] in ('pop_front', 'pop_first', 'remove') and ('VecDeque' in e[1].name or 'BTreeMap' in e[1].name):
                    k = (e[1].b, repr(last))
                    if k not in seen:
                        seen.add(k)
                        inline.append((fb, last if last is not None else ('cmp', 'none', ('unknown',), ('unknown',))))
                    last = None
    ctx.floor('slot predicates in TimerQueue::bump', len(atoms) + len(inline), 1)
    for g, a in inline:
        l, r, op = a[2], a[3], a[1]
        if any(x[0] == 'field' and x[2] == 'time' for x in walk(r)) and not any(x[0] == 'field' and x[2] == 'time' for x in walk(l)):
            l, r, op = r, l, SWAP[op]
        lp, rp = peel_c(l), peel_c(r)
        ctx.check(lp[0] == 'field' and lp[2] == 'time' and op == 'le' and rp[0] == 'call' and rp[1] == NOW, 'bump-table:inline',
                  'TimerQueue::bump takes a slot iff slot.time <= now (same predicate as Sleep::poll)', fb.where(), '%s %s %s' % (show_c(l)[:80], op, show_c(r)[:80]))
    for g, a in atoms:
        l, r = a[2], a[3]
        op = a[1]
        if any(x[0] == 'field' and x[2] == 'time' for x in walk(r)) and not any(x[0] == 'field' and x[2] == 'time' for x in walk(l)):
            l, r, op = r, l, SWAP[op]
        is_time = l[0] == 'field' and l[2] == 'time'
        if not is_time:
            # slots kept in a map ordered by deadline (`BTreeMap<SimTime, slot>`, filled by `entry(time)` in TimerQueue::add): the
            # predicate's parameter is a (deadline, slot) entry and it tests the key
            tq = P.adts.get(TQ) or {}
            keyed = any(fd['ty'].replace('std::cell::RefCell<', '').startswith('std::collections::BTreeMap<des::time::SimTime,') for v in tq.get('variants', []) for fd in v['fields'])
            lp = peel_c(l)
            is_time = keyed and lp[0] == 'field' and lp[2] == '0' and peel_c(lp[1])[0] == 'arg' and peel_c(lp[1])[1] in (2, '_2')
        ctx.check(is_time and op == 'le', 'bump-table:%s' % g.key.split('::')[-1], 'TimerQueue::bump takes a slot iff slot.time <= now (same predicate as Sleep::poll)', g.where(),
                  '%s %s %s' % (show_c(l), op, show_c(r)))
    # cur is SimTime::now()
    def is_now(f, e, depth=0):
        # the value of SimTime::now(): read in place, or handed in by every caller (`bump(now)` with `let now = SimTime::now()`)
        e = peel(e)
        if e[0] == 'call' and e[1] == NOW:
            return True
        if e[0] == 'arg' and depth < 4:
            k = int(str(e[1]).lstrip('_')) - 1
            sites = [s_ for s_ in P.call_sites_of(f.key) if s_.fn.key != f.key]
            return bool(sites) and all(k < len(s_.args) and is_now(s_.fn, s_.fn.expr_operand(s_.args[k], s_.b, 'T'), depth + 1) for s_ in sites)
        return False
    now_calls = fb.calls_to(NOW)
    handed_in = [k for k in range(2, fb.argc + 1) if 'SimTime' in str(fb.local_ty(k)) and is_now(fb, ('arg', k))] if not now_calls else []
    ctx.check(len(now_calls) >= 1 or bool(handed_in), 'bump-clock', 'bump compares against the simulation clock', fb.where())
    for (_, _, ck) in fb.closures_created():
        pass
    # the captured `cur` of every predicate closure is the now() value
    for b in sorted(fb.reachable()):
        for i, st in enumerate(fb.stmts(b)):
            if st['k'] == 'assign' and st['r']['k'] == 'agg' and st['r'].get('ak') == 'closure':
                if strip_generics(st['r']['def']) not in {g.key for g, _ in atoms}:
                    continue   # not a slot predicate (e.g. the closure unwrapping the Arc)
                caps = [peel(fb.expr_operand(o, b, i)) for o in st['r']['ops']]
                ok = all(is_now(fb, c) for c in caps) and caps
                ctx.check(bool(ok), 'bump-captures-now', "bump's slot predicate compares with the value of SimTime::now()", fb.where(b), [show(c) for c in caps])


def r3_wakeup_scheduling(ctx, rule='C05.R3'):
    ctx.set_rule(rule)
    f = ctx.anchor('des::net::module::refs::ModuleRef::deactivate')
    if not f:
        return
    n = 0
    for path, outcome, decs in fn_paths(ctx, f):
        if outcome != 'return':
            continue
        effs = path_effects(f, path)
        writes = [e for e in effs if e[0] == 'w' and e[2] == 'next_wakeup']
        for e in effs:
            # `mem::replace(&mut driver.next_wakeup, t)` stores t as well
            if e[0] == 'c' and e[1].name == 'std::mem::replace' and len(e[2]) == 2 and peel(e[2][0])[0] == 'field' and peel(e[2][0])[2] == 'next_wakeup':
                writes.append(('w', 'set', 'next_wakeup', None, e[2][1], e[1].b, 'T'))
        adds = [e for e in effs if e[0] == 'c' and e[1].callee == 'des::runtime::event::EventSink::add'
                and any(x[0] == 'agg' and 'AsyncWakeupEvent' in x[1] for x in walk(e[2][1]))]
        if not writes and not adds:
            continue
        n += 1
        ok = len(writes) == 1 and len(adds) == 1
        detail = {'writes': len(writes), 'scheduled': len(adds)}
        if ok:
            v0 = peel(writes[0][4])
            if v0[0] == 'agg' and str(v0[1]).endswith('Option::Some') and v0[2]:
                v0 = peel(v0[2][0])     # the recorded wake-up kept as Option<SimTime> (None instead of the MAX sentinel)
            v = canon(v0)
            t = canon(peel(adds[0][2][2]))
            from_next = any(x[0] == 'call' and x[1] in (D + 'Driver::next', TQ + '::next') for x in walk(v))
            ok = v == t and from_next
            detail.update({'stored': show_c(v), 'scheduled_at': show_c(t)})
            atoms = [a for _, a in path_atoms(f, path, decs)]
            atoms = atoms + filter_facts(f, atoms)
            def recorded(x):
                # the recorded wake-up time: the field, or `field.unwrap_or(SimTime::MAX)` when it is kept as an Option
                if x[0] == 'field' and x[2] == 'next_wakeup':
                    return True
                return x[0] == 'call' and x[1] == 'std::option::Option::unwrap_or' and len(x[2]) == 2 and peel_c(x[2][0])[0] == 'field' and peel_c(x[2][0])[2] == 'next_wakeup' \
                    and 'MAX' in show_c(x[2][1])
            guard = any(a[0] == 'cmp' and a[1] == 'lt' and a[2] == v and recorded(a[3]) for a in atoms)
            if not guard:
                # the comparison may sit in the driver method that computes the deadline: it returns `next().filter(|t| *t < self.next_wakeup)`
                for x in walk(v):
                    if x[0] == 'call' and x[1] == D + 'Driver::next':
                        gn = ctx.P.fns.get(D + 'Driver::next')
                        for _, rt in (ret_trees(gn) if gn else []):
                            rt = peel(rt)
                            if rt[0] == 'call' and rt[1] == 'std::option::Option::filter' and len(rt[2]) == 2:
                                body = gn._beta(rt[2][1], [('arg', 99, 'candidate')], 80)
                                a2 = atom_of(body, ('eq', 1)) if body is not None else None
                                if a2 and a2[0] == 'cmp' and a2[1] == 'lt' and a2[2] == ('arg', 'candidate') and a2[3][0] == 'field' and a2[3][2] == 'next_wakeup':
                                    guard = True
            ok = ok and guard
            detail['guard'] = [show_atom(a) for a in atoms if a[0] == 'cmp']
        ctx.check(ok, 'wakeup-pairing',
                  'ModuleRef::deactivate: next_wakeup is updated iff a wake-up event is scheduled, both with the deadline returned by next(), and only when it is earlier than the recorded one',
                  f.where_path(path), detail)
    ctx.floor('scheduling paths in deactivate', n, 1)
    # the driver is put back on every path
    for path, outcome, decs in fn_paths(ctx, f):
        if outcome != 'return':
            continue
        effs = path_effects(f, path)
        put = [e for e in effs if e[0] == 'w' and e[2] == 'driver']
        ctx.check(len(put) == 1, 'driver-put-back', 'deactivate stores a driver back into the module on every path', f.where_path(path), len(put))


LOSSLESS = ('into_iter', 'iter', 'map', 'flat_map', 'flatten', 'collect', 'into_inner', 'by_ref', 'deref', 'deref_mut', 'into_values', 'drain', 'take')


def _lossless_chain(P, t, src_pred, depth=0):
    """the iterator expression `t` passes on every element of its source (no filter / take(n) / skip / early exit): only adaptors from
    LOSSLESS, mapping callbacks that are themselves lossless chains or plain projections; src_pred(tree) recognises the source"""
    t = peel(t)
    if src_pred(t):
        return True
    if depth > 6 or t[0] != 'call' or not t[2]:
        return False
    m = t[1].split('::')[-1]
    if m not in LOSSLESS or (m == 'take' and 'mem::take' not in t[1] and 'Option' not in t[1] and 'Cell' not in t[1]):
        return False
    if m == 'drain' and not (len(t[2]) == 2 and 'RangeFull' in show(t[2][1])):
        return False
    if not _lossless_chain(P, t[2][0], src_pred, depth + 1):
        return False
    if m == 'flat_map' and len(t[2]) == 2:
        cb = peel(t[2][1])
        g = P.fns.get(cb[1]) if cb[0] == 'fnitem' else (P.fns.get(cb[1][len('closure:'):]) if cb[0] == 'agg' and str(cb[1]).startswith('closure:') else None)
        if g is None:
            return False
        arg_src = lambda x: peel_c(x)[0] in ('arg', 'field') and any(y[0] == 'arg' for y in walk(x))
        return all(_lossless_chain(P, r, arg_src, depth + 1) for _, r in ret_trees(g))
    return True


def _bump_yields_all_wakers(ctx, P):
    g = P.fns.get(D + 'Driver::bump')
    if g is None:
        return False
    ctx.touch(g)
    rts = [t for _, t in ret_trees(g)]
    is_src = lambda x: x[0] == 'call' and x[1] == TQ + '::bump'
    return bool(rts) and all(_lossless_chain(P, t, is_src) for t in rts)


def activation_wake_order(ctx, f, prefix=''):
    """activate: bump -> wake every bumped slot -> install the driver (shared with C06.R3)"""
    P = ctx.P
    bump = f.calls_to(D + 'Driver::bump') or f.calls_to(TQ + '::bump')   # the delegate Driver::bump may have been removed
    sets = f.calls_to(D + 'Driver::set')
    wakes = per_item_calls(P, f, TS + '::wake_all')
    if not wakes:
        # representation change: bump hands out the due wakers themselves; activate wakes each of them
        wk = per_item_calls(P, f, 'std::task::Waker::wake')
        if wk and _bump_yields_all_wakers(ctx, P):
            wakes = wk
    if not (ctx.floor('Driver::bump in activate', len(bump), 1) and ctx.floor('Driver::set in activate', len(sets), 1) and ctx.floor('wake_all in activate', len(wakes), 1)):
        return None
    b0, s0 = bump[0], sets[0]
    for w in wakes:
        # order: the whole wake iteration lies between bump and set on every path
        order = f.dominates(b0.b, w.anchor) and f.dominates(w.anchor, s0.b) and w.anchor not in f.reach_from(s0.b) and b0.b != s0.b
        ctx.check(order, prefix + 'bump-wake-set-order',
                  'activate bumps the timer queue, wakes every due slot and only then installs the driver for the callback', s0.where(), {'form': w.form})
        ok = w.it is not None and w.it[0] == 'call' and w.it[1] in (D + 'Driver::bump', TQ + '::bump') and w.exhaustive
        ctx.check(ok, prefix + 'wake-all-bumped', 'every slot returned by bump is woken (the iteration runs over the whole bump result, no early exit)', w.site.where(),
                  {'iterator': show(w.it)[:160] if w.it else None, 'form': w.form, 'exhaustive': w.exhaustive})
    return bump, sets, wakes


def r4_wake_before_callback(ctx, rule='C05.R4'):
    ctx.set_rule(rule)
    f = ctx.anchor('des::net::module::refs::ModuleRef::activate')
    if not f:
        return
    r = activation_wake_order(ctx, f)
    if not r:
        return
    bump, sets, wakes = r
    # next_wakeup cleared iff <= now, with MAX
    wr = f.writes_to_field('next_wakeup')
    if ctx.floor('next_wakeup clear in activate', len(wr), 1):
        for (b, i, st) in wr:
            atoms = [a for _, a in f.guard_atoms(b, derived=True)]
            g = any(a[0] == 'cmp' and a[1] == 'le' and any(x[0] == 'field' and x[2] == 'next_wakeup' for x in walk(a[2])) and any(x[0] == 'call' and x[1] == NOW for x in walk(a[3])) for a in atoms)
            v = f.expr_rvalue(st['r'], b, i)
            cleared = 'MAX' in show(v) or (peel(v)[0] == 'agg' and str(peel(v)[1]).endswith('Option::None'))
            ctx.check(g and cleared, 'clear-reached-wakeup', 'a reached next_wakeup (<= now) is cleared to MAX so that later timers are scheduled again', f.where(b), [show_atom(a) for a in atoms])
            ctx.check(sets[0].b in f.reach_from(b) and b not in f.reach_from(sets[0].b), 'clear-before-set', 'the clear happens before the driver is installed', f.where(b))


def r5_registration(ctx, rule='C05.R5'):
    ctx.set_rule(rule)
    P = ctx.P
    fp = ctx.anchor('<%s as std::future::Future>::poll' % SLEEP)
    if not fp:
        return
    # registration call lives in a closure passed to Driver::with_current
    reg = []
    for g in [fp] + P.closures_of(fp):
        reg += g.calls_to(TQ + '::add')
    if ctx.floor('TimerQueue::add reachable from Sleep::poll', len(reg), 1):
        s = reg[0]
        g = s.fn
        t_time = peel(resolve_captures(P, g, g.expr_operand(s.args[2], s.b, 'T')))
        ctx.check(any(x[0] == 'field' and x[2] == 'deadline' for x in walk(t_time)) or 'deadline' in show(t_time), 'register-at-deadline',
                  'the timer entry is registered at the sleep\'s deadline', s.where(), show(t_time))
    wc = fp.calls_to(D + 'Driver::with_current')
    REG = D + 'Driver::with_current'
    if not wc and fp.calls_to(TQ + '::add'):
        # the queue is fetched first and the entry registered by Sleep::poll itself (`Driver::current_queue().add(entry, deadline)`)
        wc = fp.calls_to(TQ + '::add')
        REG = TQ + '::add'
    lazy = None
    if not wc:
        # `me.handle.get_or_insert_with(|| <register>)`: the closure runs iff the handle is None, and its result is stored in the handle
        for c in fp.calls():
            if c.name == 'std::option::Option::get_or_insert_with' and len(c.args) == 2 and receiver_field(fp.expr_operand(c.args[0], c.b, 'T')) == 'handle':
                cl = peel(fp.expr_operand(c.args[1], c.b, 'T'))
                g = P.fns.get(cl[1][len('closure:'):]) if cl[0] == 'agg' and str(cl[1]).startswith('closure:') else None
                if g is not None and g.calls_to(D + 'Driver::with_current') and all(
                        any(x[0] == 'call' and x[1] == D + 'Driver::with_current' for x in walk(t)) for _, t in ret_trees(g)):
                    lazy = c
    if lazy is not None:
        atoms = [a for _, a in fp.guard_atoms(lazy.b, derived=True)]
        pend = any(a[0] == 'cmp' and a[1] == 'gt' for a in atoms)
        ctx.check(pend, 'register-iff-unscheduled', 'a pending sleep registers iff it holds no handle yet (get_or_insert_with on the handle, reached only while pending)',
                  lazy.where(), [show_atom(a) for a in atoms])
        ctx.ok('the registration handle is stored in the sleep (result of get_or_insert_with)', lazy.where())
    elif ctx.floor('Driver::with_current in Sleep::poll', len(wc), 1):
        s = wc[0]
        atoms = [a for _, a in fp.guard_atoms(s.b, derived=True)]
        unsched = any((option_state(a) or ('', None))[0] == 'none' and any(x[0] == 'field' and x[2] == 'handle' for x in walk(option_state(a)[1])) for a in atoms)
        pend = any(a[0] == 'cmp' and a[1] == 'gt' for a in atoms)
        ctx.check(unsched and pend, 'register-iff-unscheduled', 'a pending sleep registers iff it holds no handle yet', s.where(), [show_atom(a) for a in atoms])
        # handle stored
        stored = False
        for (b, i, st) in fp.writes_to_field('handle') + [(b, i, st) for b in sorted(fp.reachable()) for i, st in enumerate(fp.stmts(b)) if st['k'] == 'assign' and st['p']['pr'] and st['p']['pr'][-1]['k'] == 'deref']:
            v = fp.expr_rvalue(st['r'], b, i)
            if v[0] == 'agg' and v[1].endswith('::Some') and any(x[0] == 'call' and x[1] == REG for x in walk(v)) and fp.dominates(s.b, b):
                stored = True
        ctx.check(stored, 'handle-stored', 'the registration handle is stored in the sleep', s.where())
    res = fp.calls_to(TH + '::resolve')
    if ctx.floor('resolve in Sleep::poll', len(res), 1):
        atoms = [a for _, a in fp.guard_atoms(res[0].b, derived=True)]
        ctx.check(any(a[0] == 'cmp' and a[1] == 'le' for a in atoms), 'resolve-when-ready', 'the handle is resolved only on the Ready branch', res[0].where(), [show_atom(a) for a in atoms])
    # Drop of the handle removes unless resolved
    fd = ctx.anchor('<%s as std::ops::Drop>::drop' % TH)
    if fd:
        rm = fd.calls_to(TS + '::remove')
        if ctx.floor('TimerSlot::remove in handle drop', len(rm), 1):
            atoms = [a for _, a in fd.guard_atoms(rm[0].b)]
            flag = [a for a in atoms if a[0] == 'bool' and a[1][0] == 'field' and a[1][2] == 'resolved' and a[2] is False]
            upg = [a for a in atoms if (option_state(a) or ('', None))[0] == 'some' and any(x[0] == 'call' and x[1].endswith('Weak::upgrade') for x in walk(option_state(a)[1]))]
            ok = bool(flag)
            if not flag and len(upg) == len(atoms):
                # no flag: a resolved handle is one that was detached from its slot (resolve() replaces the weak link by a dangling one)
                fr = ctx.P.fns.get(TH + '::resolve')
                ws = fr.writes_to_field('handle') if fr is not None else []
                ok = bool(ws) and all(peel(fr.expr_rvalue(w[2]['r'], w[0], w[1]))[0] == 'call' and peel(fr.expr_rvalue(w[2]['r'], w[0], w[1]))[1].endswith('Weak::new')
                                      and fr.postdominates_entry(w[0]) for w in ws)
            ctx.check(ok, 'drop-removes-unless-resolved', "dropping an unresolved handle removes its entry (a dropped sleep leaves no stale waker)", rm[0].where(), [show_atom(a) for a in atoms])
    # every registration gets its own entry in the slot: TimerSlot::add stores the entry it is given on every path (each sleep removes
    # exactly its own entry again when dropped - one entry shared by two sleeps of a task is lost with the first of them)
    stores = []
    for fa in P.fn_list:
        if not fa.key.startswith(D) or fa.kind == 'promoted':
            continue
        for s in fa.calls():
            if s.name.split('::')[-1] in ('push', 'push_back', 'insert', 'extend_one') and s.argtys and len(s.argtys) > 1 and s.argtys[-1].endswith('TimerSlotEntry'):
                stores.append(s)
    if ctx.floor('stores of a timer entry into a slot (TimerSlot::add)', len(stores), 1):
        for s0 in stores:
            fa = s0.fn
            ctx.touch(fa)
            val = peel(fa.expr_operand(s0.args[-1], s0.b, 'T'))
            conds = [a for _, a in fa.guard_atoms(s0.b) if a and a[0] in ('bool', 'cmp')]
            ctx.check(val[0] == 'arg' and not conds, 'slot-keeps-every-entry',
                      'a slot stores the entry it is given unconditionally (one entry per registered sleep)', s0.where(), [show_atom(a) for a in conds][:3])
    # typestate: `handle` is Some only while a registration for the CURRENT deadline exists; whoever changes the deadline releases it
    n_dw = 0
    for f in P.fn_list:
        if not f.key.startswith('des::time::sleep::') or f.kind == 'promoted':
            continue
        dws = [w for w in f.writes_to_field('deadline') if w[2]['p']['pr'] and w[2]['p']['pr'][0]['k'] == 'deref']   # stores through the pin projection, not struct construction
        if not dws:
            continue
        for path, outcome, decs in fn_paths(ctx, f):
            if outcome != 'return':
                continue
            blocks = set(path)
            if not any(b in blocks for b, _, _ in dws):
                continue
            n_dw += 1
            effs = path_effects(f, path)
            released = any(e[0] == 'c' and e[1].name == 'std::option::Option::take' and receiver_field(e[2][0]) == 'handle' for e in effs) or \
                any(e[0] == 'w' and e[2] == 'handle' for e in effs)
            ctx.check(released, 'deadline-change-releases-handle:%s' % f.key.split('::')[-1],
                      'whenever a sleep\'s deadline is changed its registration handle is released, so that the next poll registers at the new deadline '
                      '(a kept handle makes poll believe it is still scheduled after the old slot fired)', f.where_path(path))
    ctx.floor('deadline-changing paths of Sleep', n_dw, 1)
    # risk pattern: a handle returned by TimerSlotEntryHandle::reset is kept only if reset defuses the consumed handle
    fr = ctx.anchor(TH + '::reset')
    if fr:
        kept = []
        def value_used(f, dl, depth=0):
            """is local `dl` of f stored / moved on (other than into an explicit drop)?  A closure that returns it hands it to the adaptor
            it was given to (`opt.and_then(|h| h.reset(d))`): then the adaptor's result in the parent is what counts"""
            if dl == 0:
                if f.kind == 'closure' and depth < 2:
                    par = P.fns.get(f.parent)
                    if par is not None:
                        for c in par.calls():
                            if any(peel(par.expr_operand(a, c.b, 'T'))[0] == 'agg' and peel(par.expr_operand(a, c.b, 'T'))[1] == 'closure:' + f.key for a in c.args):
                                return value_used(par, c.dest['l'], depth + 1)
                return True
            for b in sorted(f.reachable()):
                for st in f.stmts(b):
                    if st['k'] == 'assign':
                        for op in _ops(st['r']):
                            if op.get('k') in ('move', 'copy') and op['p']['l'] == dl:
                                if not st['p']['pr'] and st['r']['k'] == 'use' and st['p']['l'] != 0:
                                    if value_used(f, st['p']['l'], depth + 1) if depth < 3 else True:
                                        return True
                                    continue
                                return True
                t = f.term(b)
                if t['k'] == 'call':
                    for op in t['args']:
                        if op.get('k') in ('move', 'copy') and op['p']['l'] == dl:
                            if strip_generics(t.get('callee') or '') in ('std::mem::drop', 'core::mem::drop'):
                                continue
                            return True
            return False
        for s in P.call_sites_of(TH + '::reset'):
            f = s.fn
            # is the destination used (stored/moved) other than being dropped?
            if value_used(f, s.dest['l']):
                kept.append(s)
        defused = False
        # on paths that re-register (call TimerQueue::add) the old handle `self` must be resolved or forgotten
        for path, outcome, decs in fn_paths(ctx, fr):
            if outcome != 'return':
                continue
            effs = path_effects(fr, path)
            if not any(e[0] == 'c' and e[1].name == TQ + '::add' for e in effs):
                continue
            defused = any((e[0] == 'w' and e[2] == 'resolved') or (e[0] == 'c' and e[1].name in ('std::mem::forget', TH + '::resolve')) for e in effs)
        if not kept:
            ctx.ok('no caller keeps the handle returned by TimerSlotEntryHandle::reset (its drop un-registers the moved entry; the sleep re-registers on its next poll)',
                   fr.where(), {'reset_defuses_old_handle': defused})
            ctx.note('risk idiom (keeping the handle returned by reset) not found')
        else:
            for s in kept:
                ctx.check(defused, 'reset-handle-kept:%s' % s.fn.key,
                          'the handle returned by TimerSlotEntryHandle::reset is kept, but reset drops the consumed handle unresolved: its Drop removes the entry with the same id '
                          'from the old slot — when the new deadline equals the old one this is the freshly re-registered entry and the timer is lost',
                          s.where())


def _ops(r):
    k = r['k']
    if k in ('use', 'repeat', 'cast'):
        return [r['o']]
    if k == 'binop':
        return [r['a'], r['b']]
    if k == 'unop':
        return [r['a']]
    if k == 'agg':
        return r['ops']
    return []


def r6_timeout_order(ctx):
    ctx.set_rule('C05.R6')
    P = ctx.P
    fs = [f for f in P.fn_list if f.key.startswith('<des::time::timeout::Timeout as std::future::Future>::poll') and f.kind != 'promoted']
    f = next((x for x in fs if x.kind == 'assocfn'), None)
    if not f:
        ctx.violation('anchor:Timeout::poll', 'unresolved-anchor Timeout::poll'); return
    ctx.touch(f)
    polls = [s for s in f.calls() if s.callee == 'std::future::Future::poll']
    vpoll = [s for s in polls if any(x[0] == 'field' and x[2] == 'value' for x in walk(f.expr_operand(s.args[0], s.b, 'T')))]
    # the delay poll may sit in a closure
    dpoll = []
    for g in [f] + P.closures_of(f):
        for s in g.calls():
            if s.name == '<%s as std::future::Future>::poll' % SLEEP or (s.callee == 'std::future::Future::poll' and 'Sleep' in (s.argtys[0] if s.argtys else '')):
                dpoll.append(s)
    if not (ctx.floor('poll of the inner value', len(vpoll), 1) and ctx.floor('poll of the delay', len(dpoll), 1)):
        return
    v = vpoll[0]
    for d in dpoll:
        if d.fn is f:
            blk = d.b
        else:
            # block in f that calls the closure
            cs = [s for s in f.calls() if s.res == d.fn.key or (s.callee and 'Fn' in s.callee and any(x[0] == 'agg' and d.fn.key in x[1] for x in walk(f.expr_operand(s.args[0], s.b, 'T'))))]
            blk = cs[0].b if cs else None
        ok = blk is not None and f.dominates(v.b, blk) and v.b != blk
        ctx.check(ok, 'value-before-delay', 'Timeout polls the inner future before the deadline (a value completing exactly at the deadline yields Ok)', d.where())
        if ok:
            atoms = [a for _, a in f.guard_atoms(blk)]
            notready = any(a[0] in ('is', 'isnot') and a[1][0] == 'call' and 'poll' in a[1][1] and (a[2] == 'Pending' or (a[0] == 'isnot' and 'Ready' in a[2])) for a in atoms)
            ctx.check(notready, 'delay-only-if-pending', 'the deadline is consulted only if the inner future is still pending', d.where(), [show_atom(a) for a in atoms])
    # value Ready => Ok
    okret = False
    for b in sorted(f.reachable()):
        for i, st in enumerate(f.stmts(b)):
            if st['k'] == 'assign' and st['p']['l'] == 0 and st['r']['k'] == 'agg' and st['r'].get('variant') == 'Ready':
                t = f.expr_rvalue(st['r'], b, i)
                if any(x[0] == 'agg' and x[1].endswith('Result::Ok') for x in walk(t)):
                    atoms = [a for _, a in f.guard_atoms(b)]
                    if any(a[0] == 'is' and a[2] == 'Ready' for a in atoms):
                        okret = True
    ctx.check(okret, 'ready-is-ok', 'a ready inner future is returned as Ok', f.where())
    # delay Ready => Err(Elapsed)
    g = dpoll[0].fn
    el = False
    for b in sorted(g.reachable()):
        for i, st in enumerate(g.stmts(b)):
            if st['k'] == 'assign' and st['p']['l'] == 0 and st['r']['k'] == 'agg' and st['r'].get('variant') == 'Ready':
                t = g.expr_rvalue(st['r'], b, i)
                if any(x[0] == 'agg' and x[1].endswith('Result::Err') for x in walk(t)):
                    el = True
    # (spliced closure / merged returns): some returned alternative is Ready(Err(..))
    for _, t in ret_trees(g):
        for x in walk(t):
            if x[0] == 'agg' and str(x[1]).endswith('Poll::Ready') and any(y[0] == 'agg' and str(y[1]).endswith('Result::Err') for y in walk(x)):
                el = True
    # same through Poll::map(delay.poll(cx), |()| Err(..))
    for s in g.calls():
        if s.name == 'std::task::Poll::map' and len(s.args) == 2:
            a0 = g.expr_operand(s.args[0], s.b, 'T')
            a1 = peel(g.expr_operand(s.args[1], s.b, 'T'))
            if any(x[0] == 'call' and x[1] == dpoll[0].name for x in walk(a0)) and a1[0] == 'agg' and str(a1[1]).startswith('closure:'):
                cl = P.fns.get(a1[1][len('closure:'):])
                if cl and all(any(x[0] == 'agg' and x[1].endswith('Result::Err') for x in walk(t)) for t in ret_trees(cl)) and ret_trees(cl):
                    el = True
    ctx.check(el, 'elapsed-is-err', 'a reached deadline is returned as Err(Elapsed)', g.where())


def _policy_row_ok(var, r, is_timeout, is_now, is_period):
    """the MissedTickBehavior table: Burst -> timeout + period ; Delay -> now + period ; Skip -> now + period - ((now - timeout) mod period)"""
    r = peel(r)
    add_of = lambda x, p, q: peel(x)[0] == 'call' and peel(x)[1].endswith('::add') and len(peel(x)[2]) == 2 and p(peel(x)[2][0]) and q(peel(x)[2][1])
    if var == 'Burst':
        return add_of(r, is_timeout, is_period)
    if var == 'Delay':
        return add_of(r, is_now, is_period)
    if var == 'Skip':
        return r[0] == 'call' and r[1].endswith('::sub') and len(r[2]) == 2 and add_of(r[2][0], is_now, is_period) and \
            any(x[0] == 'bin' and x[1] == 'Rem' for x in walk(r[2][1])) and any(is_timeout(x) for x in walk(r[2][1]))
    return False


def r7_interval(ctx):
    ctx.set_rule('C05.R7')
    f = ctx.anchor('des::time::interval::Interval::poll_tick')
    if not f:
        return
    resets = f.calls_to(SLEEP + '::reset')
    if not ctx.floor('re-arm in poll_tick', len(resets), 1):
        return
    s = resets[0]
    t = f.expr_operand(s.args[1], s.b, 'T')
    txt = show(t)
    has_period = any(x[0] == 'field' and x[2] == 'period' for x in walk(t))
    has_deadline = any(x[0] == 'call' and x[1] == SLEEP + '::deadline' for x in walk(t))
    has_missed = any(x[0] == 'call' and (x[1].endswith('MissedTickBehavior::next_timeout') or x[1] == NOW) for x in walk(t))
    ctx.check(has_period and has_deadline and has_missed, 're-arm-value', 'the next tick is the old deadline + period, or the missed-tick policy result', s.where(), txt[:300])
    # per path: an on-time tick is re-armed one period after its OWN deadline (never after `now`: consuming a tick a little late must not
    # shift the following ticks); a missed tick goes through the configured policy with (deadline, now, period)
    NT = 'des::time::interval::MissedTickBehavior::next_timeout'
    is_deadline = lambda x: peel(x)[0] == 'call' and peel(x)[1] == SLEEP + '::deadline'
    is_period = lambda x: peel(x)[0] == 'field' and peel(x)[2] == 'period'
    is_now = lambda x: peel(x)[0] == 'call' and peel(x)[1] == NOW
    n_on = n_late = 0
    packed_roles = {}
    for path, outcome, decs in fn_paths(ctx, f):
        if outcome != 'return':
            continue
        effs = path_effects(f, path)
        rs = [e for e in effs if e[0] == 'c' and e[1].name == SLEEP + '::reset']
        if not rs:
            continue
        late = None
        for _, a in path_atoms(f, path, decs):
            if a and a[0] == 'cmp' and is_now(a[2]) and any(is_deadline(x) or (x[0] == 'call' and x[1] == SLEEP + '::deadline') for x in walk(a[3])):
                late = a[1] in ('gt', 'ge')
        site = rs[0][1]
        pidx = max(k for k, bb in enumerate(path) if bb == site.b)
        v = peel(f.expr_operand_on_path(site.args[1], path, pidx, 'T'))
        strat = None
        args_ok = False
        if v[0] == 'call' and v[1] == NT and len(v[2]) >= 2:
            nts = [c for c in f.calls() if c.name == NT and c.b in path]
            if nts:
                k2 = max(k for k, bb in enumerate(path) if bb == nts[-1].b)
                strat = peel(f.expr_operand_on_path(nts[-1].args[0], path, k2, 'T'))
            # (deadline, now, period) in this order - as three arguments, or packed into a private record whose components they are
            flat = []
            for a_ in v[2][1:]:
                ap = peel(a_)
                if ap[0] == 'agg' and str(ap[1]).startswith('adt:des::') and len(ap) > 3:
                    flat += list(ap[2])
                    packed_roles.update({nm: ('timeout' if is_deadline(c_) else 'now' if is_now(c_) else 'period' if is_period(c_) else None) for nm, c_ in zip(ap[3], ap[2])})
                else:
                    flat.append(a_)
            args_ok = len(flat) == 3 and is_deadline(flat[0]) and is_now(flat[1]) and is_period(flat[2])
        plain = v[0] == 'call' and v[1].endswith('::add') and len(v[2]) == 2 and is_deadline(v[2][0]) and is_period(v[2][1])
        if late is False:
            n_on += 1
            burst = strat is not None and strat[0] == 'agg' and str(strat[1]).endswith('MissedTickBehavior::Burst') and args_ok
            ctx.check(plain or burst, 'on-time-rearm', 'a tick that was not missed is re-armed at its own deadline + period (independent of when it was consumed)',
                      f.where_path(path), show(v)[:200])
        elif late is True:
            n_late += 1
            pol = strat is not None and strat[0] == 'field' and args_ok
            if not pol and not (v[0] == 'call' and v[1] == NT):
                # the policy applied in place: the path tests the configured behaviour and re-arms by that row of the table
                var = next((a[2] for _, a in path_atoms(f, path, decs) if a and a[0] == 'is' and isinstance(a[2], str) and a[2] in ('Burst', 'Delay', 'Skip')
                            and any(x[0] == 'field' and x[2] == 'missed_tick_behavior' for x in walk(a[1]))), None)
                pol = var is not None and _policy_row_ok(var, v, is_deadline, is_now, is_period)
            ctx.check(pol, 'missed-rearm', 'a missed tick is re-armed by the configured MissedTickBehavior from (deadline, now, period)', f.where_path(path), show(v)[:200])
    ctx.floor('on-time re-arm paths of poll_tick', n_on, 1)
    ctx.floor('missed-tick re-arm paths of poll_tick', n_late, 1)
    fn_ = ctx.P.fns.get(NT)
    if fn_ is not None:
        # the policy table: Burst -> timeout + period ; Delay -> now + period ; Skip -> now + period - ((now - timeout) mod period)
        for path, outcome, decs in fn_paths(ctx, fn_):
            if outcome != 'return':
                continue
            var = next((a[2] for _, a in path_atoms(fn_, path, decs) if a and a[0] == 'is' and isinstance(a[2], str) and a[2] in ('Burst', 'Delay', 'Skip')), None)
            r = path_ret_resolved(fn_, path)
            r = peel(r) if r is not None else ('unknown',)
            def base_is(name):
                def t_(x):
                    x = peel(x)
                    if x[0] == 'arg' and x[2] == name:
                        return True
                    # a component of the packed record argument that carries this role at the call site
                    return x[0] == 'field' and peel(x[1])[0] == 'arg' and packed_roles.get(x[2]) == name
                return t_
            if var in ('Burst', 'Delay'):
                want = 'timeout' if var == 'Burst' else 'now'
                okp = _policy_row_ok(var, r, base_is('timeout'), base_is('now'), base_is('period'))
                ctx.check(okp, 'policy-%s' % var, 'MissedTickBehavior::%s re-arms at %s + period' % (var, want), fn_.where_path(path), show(r)[:160])
            elif var == 'Skip':
                okp = _policy_row_ok(var, r, base_is('timeout'), base_is('now'), base_is('period'))
                ctx.check(okp, 'policy-Skip', 'MissedTickBehavior::Skip re-arms at the next multiple of the period after now, counted from the missed deadline', fn_.where_path(path), show(r)[:200])
    # returns the old deadline
    ok = False
    for b, rt in ret_trees(f):
        for x in walk(rt):
            if x[0] == 'agg' and x[1].endswith('Poll::Ready') and any(y[0] == 'call' and y[1] == SLEEP + '::deadline' for y in walk(x)):
                ok = True
    ctx.check(ok, 'returns-scheduled-time', 'a tick reports the instant it was scheduled for', f.where())
    # waits for the delay first
    polls = [c for c in f.calls() if c.name.endswith('::poll') and c.argtys and 'Sleep' in c.argtys[0]]
    ctx.check(bool(polls) and f.dominates(polls[0].b, s.b), 'wait-then-rearm', 'the interval waits for its delay before re-arming', s.where())


TMOD = 'des::time::'
_PIN_WRAP = ('std::boxed::Box::pin', 'std::boxed::Box::new', 'std::pin::Pin::new', 'std::pin::Pin::new_unchecked', 'std::pin::pin')


def _subst_args(t, actuals):
    if isinstance(t, tuple):
        if t and t[0] == 'arg' and isinstance(t[1], int) and 1 <= t[1] <= len(actuals):
            return actuals[t[1] - 1]
        return tuple(_subst_args(x, actuals) if isinstance(x, tuple) else x for x in t)
    return t


def _agg_field(t, name):
    if t[0] == 'agg' and len(t) > 3 and name in t[3]:
        return t[2][list(t[3]).index(name)]
    return None


def _apply_fn(fn, args):
    fn = peel(fn)
    if fn[0] == 'fnitem':
        return ('call', fn[1], tuple(args), -1)
    return None


def _deadlines(ctx, t, depth=0):
    """the deadline operands of every Sleep a timer-valued tree can denote: calls into des::time constructors are replaced by what the
    callee returns on each of its paths (actual arguments substituted); a Timeout / Interval denotes the Sleep in its `delay`"""
    P = ctx.P
    t = peel(t)
    if depth > 6:
        return [('unknown', t)]
    if t[0] == 'call' and t[1] in _PIN_WRAP and t[2]:
        return _deadlines(ctx, t[2][0], depth + 1)
    if t[0] == 'agg':
        if str(t[1]).endswith('sleep::Sleep::Sleep'):
            d = _agg_field(t, 'deadline')
            return [d if d is not None else ('unknown', t)]
        d = _agg_field(t, 'delay')
        if d is not None:
            return _deadlines(ctx, d, depth + 1)
        return [('unknown', t)]
    if t[0] == 'call':
        last = t[1].split('::')[-1]
        if 'option::Option' in t[1] and last == 'map_or_else' and len(t[2]) == 3:
            a, b = _apply_fn(t[2][1], ()), _apply_fn(t[2][2], (('field', ('as', t[2][0], 'Some'), '0'),))
            if a and b:
                return _deadlines(ctx, a, depth + 1) + _deadlines(ctx, b, depth + 1)
        if 'option::Option' in t[1] and last == 'map_or' and len(t[2]) == 3:
            b = _apply_fn(t[2][2], (('field', ('as', t[2][0], 'Some'), '0'),))
            if b:
                return _deadlines(ctx, t[2][1], depth + 1) + _deadlines(ctx, b, depth + 1)
        if 'option::Option' in t[1] and last in ('unwrap_or_else', 'unwrap_or') and len(t[2]) == 2:
            inner = peel(t[2][0])
            other = _apply_fn(t[2][1], ()) if last == 'unwrap_or_else' else t[2][1]
            if inner[0] == 'call' and inner[1].endswith('Option::map') and len(inner[2]) == 2 and other:
                b = _apply_fn(inner[2][1], (('field', ('as', inner[2][0], 'Some'), '0'),))
                if b:
                    return _deadlines(ctx, other, depth + 1) + _deadlines(ctx, b, depth + 1)
        g = P.fns.get(t[1])
        if g is not None and t[1].startswith(TMOD) and g.kind != 'closure':
            out = []
            for path, outcome, decs in fn_paths(ctx, g):
                if outcome != 'return':
                    continue
                r = path_ret_resolved(g, path)
                if r is None:
                    out.append(('unknown', t)); continue
                out += _deadlines(ctx, _subst_args(r, t[2]), depth + 1)
            return out or [('unknown', t)]
    return [('unknown', t)]


def r8_deadline_provenance(ctx):
    """a timer waits for the deadline it was asked for: the Sleep behind sleep/sleep_until/timeout/timeout_at/interval/interval_at carries
    exactly the requested instant (now + duration, saturating to the far future; or the given instant), and resetting stores the new one"""
    ctx.set_rule('C05.R8')
    P = ctx.P
    is_now = lambda x: peel(x)[0] == 'call' and peel(x)[1] == NOW
    is_arg = lambda n: (lambda x: peel(x)[0] == 'arg' and peel(x)[1] == n)
    is_max = lambda x: peel(x)[0] in ('constdef', 'const') and str(peel(x)[1]).endswith('SimTime::MAX')

    def is_checked(x, dur):
        x = peel(x)
        if not (x[0] == 'field' and x[2] == '0' and x[1][0] == 'as' and x[1][2] == 'Some'):
            return False
        c = peel(x[1][1])
        return c[0] == 'call' and c[1].endswith('::checked_add') and len(c[2]) == 2 and is_now(c[2][0]) and dur(c[2][1])

    def is_sum(x, a, b):
        x = peel(x)
        return x[0] == 'call' and x[1].endswith('::add') and len(x[2]) == 2 and a(x[2][0]) and b(x[2][1])

    REL = 'now + the given duration (the far future if that overflows)'
    TABLE = [  # constructor, accepted deadline forms, required forms, text
        ('sleep::sleep', [lambda x: is_checked(x, is_arg(1)), is_max], 1, REL),
        ('sleep::sleep_until', [is_arg(1)], 1, 'the given instant'),
        ('timeout::timeout', [lambda x: is_checked(x, is_arg(1)), is_max], 1, REL),
        ('timeout::timeout_at', [is_arg(1)], 1, 'the given instant'),
        ('interval::interval', [is_now], 1, 'now (the first tick completes immediately)'),
        ('interval::interval_at', [is_arg(1)], 1, 'the given start instant'),
    ]
    for name, forms, need, text in TABLE:
        f = ctx.anchor(TMOD + name)
        if not f:
            continue
        ctx.touch(f)
        ds = []
        n = 0
        for path, outcome, decs in fn_paths(ctx, f):
            if outcome != 'return':
                continue
            n += 1
            r = path_ret_resolved(f, path)
            ds += _deadlines(ctx, r, 0) if r is not None else [('unknown',)]
        if not ctx.floor('returning paths of ' + name, n, 1):
            continue
        bad = [d for d in ds if not any(p(d) for p in forms)]
        first = any(forms[0](d) for d in ds)
        ctx.check(not bad and first, 'deadline:%s' % name.split('::')[-1], '%s waits for %s' % (name.split('::')[-1], text), f.where(),
                  [show(d)[:160] for d in (bad or ds)][:4])
    # the interval keeps the period it was given
    for name, idx in (('interval::interval', 1), ('interval::interval_at', 2)):
        f = P.fns.get(TMOD + name)
        if f is None:
            continue
        per = []
        for path, outcome, decs in fn_paths(ctx, f):
            if outcome != 'return':
                continue
            r = peel(path_ret_resolved(f, path) or ('unknown',))
            depth = 0
            while r[0] == 'call' and r[1].startswith(TMOD) and P.fns.get(r[1]) is not None and depth < 4:
                g = P.fns[r[1]]
                rts = [path_ret_resolved(g, p2) for p2, o2, _ in fn_paths(ctx, g) if o2 == 'return']
                if len(rts) != 1 or rts[0] is None:
                    break
                r = peel(_subst_args(rts[0], r[2])); depth += 1
            v = _agg_field(r, 'period') if r[0] == 'agg' else None
            per.append(v)
        ctx.check(bool(per) and all(v is not None and is_arg(idx)(v) for v in per), 'period:%s' % name.split('::')[-1],
                  '%s ticks with the period it was given' % name.split('::')[-1], f.where(), [show(v)[:120] if v else None for v in per][:3])
    # resetting: Sleep::reset stores the instant it is given; Interval::reset* re-arm relative to now / at the given instant
    sc = P.scope_of(SLEEP + '::reset_inner') or P.scope_of(SLEEP + '::reset')
    if ctx.floor('function storing a reset deadline (Sleep::reset_inner)', len(sc), 1):
        f = sc[0]
        ctx.touch(f)
        ws = f.writes_to_field('deadline')
        okw = [w for w in ws if f.postdominates_entry(w[0]) and not f.loops_containing(w[0]) and
               peel(f.expr_rvalue(w[2]['r'], w[0], w[1]))[0] == 'arg' and peel(f.expr_rvalue(w[2]['r'], w[0], w[1]))[2] == 'deadline']
        ctx.check(len(okw) >= 1 and len(okw) == len(ws), 'reset-stores-deadline', 'Sleep::reset stores exactly the new deadline, on every path', f.where(),
                  [show(f.expr_rvalue(w[2]['r'], w[0], w[1]))[:100] for w in ws])
    IV = TMOD + 'interval::Interval::'
    RESETS = [('reset', lambda x: is_sum(x, is_now, lambda y: peel(y)[0] == 'field' and peel(y)[2] == 'period'), 'now + period'),
              ('reset_immediately', is_now, 'now'),
              ('reset_after', lambda x: is_sum(x, is_now, is_arg(2)), 'now + the given duration'),
              ('reset_at', is_arg(2), 'the given instant')]
    for m, pred, text in RESETS:
        f = P.fns.get(IV + m)
        if f is None:
            continue    # not every reset flavour exists in every version of the API
        ctx.touch(f)
        rs = f.calls_to(SLEEP + '::reset')
        if not ctx.floor('Sleep::reset in Interval::%s' % m, len(rs), 1):
            continue
        ok = all(pred(f.expr_operand(s.args[1], s.b, 'T')) for s in rs) and any(f.postdominates_entry(s.b) for s in rs)
        ctx.check(ok, 'interval-%s' % m, 'Interval::%s re-arms the interval at %s' % (m, text), rs[0].where(), [show(f.expr_operand(s.args[1], s.b, 'T'))[:120] for s in rs])


COARSE_TIME = ('as_micros', 'as_millis', 'as_secs', 'as_secs_f32', 'as_secs_f64', 'subsec_micros', 'subsec_millis', 'mul_f32', 'mul_f64',
               'div_f32', 'div_f64', 'div_duration_f32', 'div_duration_f64', 'eq_approx')


def r9_timer_resolution(ctx, rule='C05.R9'):
    """timers are kept and compared at the resolution deadlines have: nowhere in the timer driver, Sleep, Timeout or Interval is a deadline
    or the clock read in a coarser unit (two deadlines inside one millisecond are two instants)"""
    ctx.set_rule(rule)
    P = ctx.P
    mods = ('des::time::driver::', '<des::time::driver::', 'des::time::sleep::', '<des::time::sleep::', 'des::time::timeout::', '<des::time::timeout::',
            'des::time::interval::', '<des::time::interval::')
    n = 0
    for f in P.fn_list:
        if not f.key.startswith(mods) or f.kind == 'promoted' or f.name == 'fmt':
            continue
        for s in f.calls():
            if 'time::Duration::' in s.name or s.name.startswith('des::time::SimTime::'):
                n += 1
                ctx.check(s.name.split('::')[-1] not in COARSE_TIME, 'coarse-deadline-readout:%s' % f.key.split('::')[-1].replace('{closure#', 'closure').rstrip('}'),
                          'a deadline or the clock is never read in a unit coarser than its resolution', s.where(), s.name)
    ctx.floor('time operations in the timer modules', n, 5)


def run(ctx):
    r9_timer_resolution(ctx)
    r1_next_wakeup(ctx)
    r2_ready_wake_agreement(ctx)
    r3_wakeup_scheduling(ctx)
    r4_wake_before_callback(ctx)
    r5_registration(ctx)
    r6_timeout_order(ctx)
    r7_interval(ctx)
    r8_deadline_provenance(ctx)

"""C10 — stepping ≡ uninterrupted run (structural clauses, DESIGN §4 C10)."""
from .engine.helpers import *

EXPLANATION = (
    "Static analysis of the stepping API: (R1) dispatch_n_events / dispatch_events_until install their limit by swapping it "
    "into the runtime, run dispatch_all exactly once under it and restore the previous limit on every returning path; the count "
    "limit is (events dispatched so far) + n, the time limit is t; (R2) on the path of dispatch_event that stops at the limit the "
    "event set must be left as it was found: the lower bound used by the add guard must not have been advanced and a same-instant "
    "event taken from the front of the FIFO must go back to the front — today the fetch + generic add put-back violates both "
    "(KNOWN FINDING F4, keyed by that call site); (R3) the limit path writes neither the clock nor the dispatched-event counter "
    "(a paused runtime reports the last dispatched event); (R4) after fetching, stop-or-dispatch depends on limit.applies alone; (R5) the put-back's placement rule: an event at the set's current instant goes to the same-instant FIFO (drained first) independent of anything else stored. "
    '(R1 also: the wrappers do not touch the clock or the event counter themselves.) '
    '(R6, shared with C02.R7) relative scheduling is based on the reported clock, absolute scheduling passes the instant through. '
    "Decides these necessary conditions only; not equivalence over all step schedules.")
ASSUMPTIONS = ["C11.R1/R2 (limit tables and ordinal) hold"]
USES_B = True

RT = 'des::runtime::Runtime'
LIM = 'des::runtime::limit::RuntimeLimit'


def _fes(cfg):
    return 'des::runtime::event::event_set::%s::FutureEventSet' % ('cqueue_impl' if cfg == 'A' else 'default_impl')


def r1_step_wrappers(ctx, cfg='A', rule='C10.R1'):
    ctx.set_rule(rule, cfg)
    P = ctx.progs[cfg]
    from .dispatch import counter_field, limit_fields
    CNT = counter_field(ctx, cfg)
    LBASE, LOVR = limit_fields(ctx, cfg)
    LF = LOVR or LBASE or 'limit'     # the field a step installs its temporary limit in
    for m, var in (('dispatch_n_events', 'EventCount'), ('dispatch_events_until', 'SimTime')):
        f = P.fns.get(RT + '::' + m)
        if not f:
            ctx.violation('anchor:' + m, 'unresolved-anchor ' + m); continue
        ctx.touch(f)
        n = 0
        for path, outcome, decs in fn_paths(ctx, f):
            if outcome != 'return':
                continue
            n += 1
            effs = path_effects(f, path)
            seq = []
            for e in effs:
                if e[0] == 'c' and e[1].name == 'std::mem::swap':
                    a0, a1 = peel(e[2][0]), peel(e[2][1])
                    if (a0[0] == 'field' and a0[2] == LF) or (a1[0] == 'field' and a1[2] == LF):
                        seq.append(('swap', e))
                elif e[0] == 'c' and e[1].name in ('std::mem::replace', 'std::option::Option::replace') and peel(e[2][0])[0] == 'field' and peel(e[2][0])[2] == LF:
                    seq.append(('swap', e))
                elif e[0] == 'c' and e[1].name == RT + '::dispatch_all':
                    seq.append(('run', e))
                elif e[0] == 'c' and e[1].name == RT + '::dispatch_event' and f.loops_containing(e[1].b):
                    # dispatch_all inlined: `while !self.dispatch_event() {}` — one 'run' per loop, however often the path iterates
                    if not (seq and seq[-1][0] == 'run' and seq[-1][1][1].b == e[1].b):
                        seq.append(('run', e))
                elif e[0] == 'w' and e[2] == LF:
                    seq.append(('restore', e))
            # a step is the dispatch loop under a temporary limit and nothing else: it must not touch the clock or the counter itself
            # (a paused runtime reports the time of the last dispatched event — also when the step ran out of events)
            stray = [e for e in effs if (e[0] == 'c' and 'des::time::SimTime::set_now' in e[1].names()) or (e[0] == 'w' and CNT is not None and e[2] == CNT)]
            ctx.check(not stray, 'wrapper-no-clock:%s' % m, 'Runtime::%s neither writes the clock nor the dispatch counter outside the dispatch step' % m,
                      f.where_path(path), len(stray))
            kinds = [k for k, _ in seq]
            ok = kinds == ['swap', 'run', 'restore']
            detail = {'sequence': kinds}
            if ok:
                # the installed limit
                sw = seq[0][1]
                new = [peel(a) for a in sw[2] if not (peel(a)[0] == 'field' and peel(a)[2] == LF)]
                lim = new[0] if new else None
                if lim is not None and lim[0] == 'agg' and str(lim[1]).endswith('Option::Some') and lim[2]:
                    lim = peel(lim[2][0])     # mem::replace(&mut self.<override>, Some(limit))
                good = lim is not None and lim[0] == 'agg' and lim[1].endswith('RuntimeLimit::' + var)
                if good and var == 'EventCount':
                    v = peel(lim[2][0])
                    v = v[1] if (v[0] == 'field' and v[1][0] == 'bin') else v
                    good = v[0] == 'bin' and v[1].startswith('Add') and any((x[0] == 'call' and x[1] == RT + '::num_events_dispatched') or (x[0] == 'field' and x[2] == CNT) for x in walk(v)) \
                        and any(x[0] == 'arg' and x[1] == 2 for x in walk(v))
                    detail['count_limit'] = show(v)
                elif good:
                    v = peel(lim[2][0])
                    good = v[0] == 'arg' and v[1] == 2
                    detail['time_limit'] = show(v)
                # restored value is the swapped-out one (the local that was swapped)
                rv = seq[2][1][4]
                ok = good and rv is not None
            ctx.check(ok, 'wrapper:%s' % m,
                      'Runtime::%s installs its limit, runs the dispatch loop once under it and restores the previous limit on every returning path' % m,
                      f.where_path(path), detail)
        ctx.floor('returning paths of %s' % m, n, 1)
    g = P.fns.get(RT + '::num_events_dispatched')
    if g:
        ctx.check(CNT is not None and returned_field(g) == CNT, 'dispatched-counter', 'num_events_dispatched reports the dispatch counter (the field a dispatching step increases by one)', g.where(), {'returned': returned_field(g), 'counter': CNT})
    h = P.fns.get(RT + '::dispatch_all')
    if h:
        de = h.calls_to(RT + '::dispatch_event')
        ok = len(de) == 1 and bool(h.loops_containing(de[0].b))
        if not de:
            from .dispatch import dispatch_iterations
            g_, its_, form_ = dispatch_iterations(ctx, cfg)
            ok = form_ == 'loop' and g_ is h and any(not i.stops for i in its_) and any(i.stops for i in its_)
        ctx.check(ok, 'dispatch-all-loop', 'dispatch_all repeats dispatch_event until it reports the end', h.where())


def _bound_role(P, cfg):
    """(add fn, bound field, adt) of the event set in this configuration"""
    if cfg == 'A':
        key = 'des_cqueue::stable::CQueue::add'
    else:
        key = _fes('B') + '::add'
    f = P.fns.get(key)
    if not f:
        return None, None
    for path, outcome, decs in f.enum_paths():
        if outcome == 'panic':
            for _, a in path_atoms(f, path, decs):
                if a[0] == 'cmp' and ('arg', 'time') in (a[2], a[3]):
                    o = a[3] if a[2] == ('arg', 'time') else a[2]
                    if o[0] == 'field':
                        return f, o[2]
    return f, None


def r2_limit_path(ctx, cfg='A'):
    ctx.set_rule('C10.R2', cfg)
    P = ctx.progs[cfg]
    from .dispatch import dispatch_iterations
    f, its, form = dispatch_iterations(ctx, cfg)
    if not f:
        ctx.violation('anchor:dispatch_event', 'unresolved-anchor'); return
    ctx.touch(f)
    addf, bound = _bound_role(P, cfg)
    n = 0
    for it in its:
        path, decs = it.path, it.decs
        effs = it.effs
        handled = any(e[0] == 'c' and e[1].callee == 'des::runtime::event::types::Event::handle' for e in effs)
        fetched = [e for e in effs if e[0] == 'c' and e[1].name == _fes(cfg) + '::fetch_next']
        if handled or not fetched:
            continue
        n += 1
        # (a) does the destructive fetch advance the lower bound?  (transitively)
        reach, _ = P.reachable_from([_fes(cfg) + '::fetch_next'])
        bound_writers = [k for k in reach if P.fns[k].writes_to_field(bound)] if bound else []
        putback = [e for e in effs if e[0] == 'c' and e[1].name == _fes(cfg) + '::add']
        # does the put-back restore the bound?
        restore = False
        for e in putback:
            r2, _ = P.reachable_from([e[1].name])
            restore = any(P.fns[k].writes_to_field(bound) for k in r2) if bound else False
        # (b) FIFO end agreement: the fetch pops one end of the zero container, the put-back pushes ...
        def ends(root, prefix):
            r3, _ = P.reachable_from([root])
            out = set()
            for k in r3:
                for s in P.fns[k].calls():
                    if s.name.startswith('std::collections::VecDeque::' + prefix):
                        out.add(s.name.split('_')[-1])
            return out
        pop_end = ends(_fes(cfg) + '::fetch_next', 'pop_')
        push_end = ends(_fes(cfg) + '::add', 'push_')
        same_end = bool(pop_end) and pop_end == push_end
        a_bad = bool(bound_writers) and not restore
        b_bad = bool(putback) and not same_end
        if not fetched:
            continue
        if a_bad or b_bad:
            ctx.violation('limit-path-not-inverse:%s' % (RT + '::dispatch_event'),
                          'dispatch_event decides the limit after a destructive fetch and puts the event back with the generic add: '
                          + ('(a) the fetch advanced the event set\'s lower bound (%s written in %s) and the put-back does not roll it back, so an event scheduled while paused at a time >= the reported time but < the pending event is rejected; ' % (bound, ', '.join(short(k) for k in bound_writers) ) if a_bad else '')
                          + ('(b) a same-instant event is taken from the %s of the FIFO and re-inserted at the %s, so a step that cuts a same-instant group reorders it' % ('/'.join(sorted(pop_end)), '/'.join(sorted(push_end))) if b_bad else ''),
                          f.where_path(path), {'bound_field': bound, 'bound_writers_under_fetch': bound_writers, 'putback_restores_bound': restore, 'pop_end': sorted(pop_end), 'push_end': sorted(push_end)})
        else:
            ctx.ok('the limit path leaves the event set as it found it', f.where_path(path))
    if n == 0:
        ctx.ok('no path of dispatch_event returns after a fetch without handling the event (limit decided without a destructive fetch)', f.where())
        ctx.note('risk idiom (fetch before limit decision) not found')


def r3_paused_state(ctx, cfg='A'):
    ctx.set_rule('C10.R3', cfg)
    P = ctx.progs[cfg]
    from .dispatch import dispatch_iterations, counter_field
    f, its, form = dispatch_iterations(ctx, cfg)
    if not f:
        return
    CNT = counter_field(ctx, cfg)
    n = 0
    for it in its:
        path, decs = it.path, it.decs
        effs = it.effs
        handled = any(e[0] == 'c' and e[1].callee == 'des::runtime::event::types::Event::handle' for e in effs)
        if handled:
            continue
        n += 1
        clock = any(e[0] == 'c' and e[1].name == 'des::time::SimTime::set_now' for e in effs)
        counter = any(e[0] == 'w' and e[2] == CNT for e in effs)
        ctx.check(not clock and not counter, 'paused-state-untouched',
                  'a dispatch_event call that dispatches nothing changes neither the clock nor the dispatch counter (a paused runtime reports the last dispatched event)',
                  f.where_path(path), {'clock_written': clock, 'counter_written': counter})
        ctx.check(it.stops is True, 'stop-signalled', 'a dispatch step that dispatches nothing ends the dispatch loop', f.where_path(path), {'form': form})
    # (the limit path, plus the empty-set path when the step itself tests for emptiness rather than the loop that drives it)
    own_empty = any(s.name.endswith('::is_empty') or s.name.endswith('::len') for s in f.calls())
    ctx.floor('non-dispatching paths of dispatch_event', n, 2 if own_empty else 1)


def r4_stop_decision(ctx, cfg='A'):
    """whether dispatch_event stops or dispatches depends on limit.applies(..) alone (besides the empty test)"""
    ctx.set_rule('C10.R4', cfg)
    P = ctx.progs[cfg]
    from .dispatch import dispatch_iterations
    f, its, form = dispatch_iterations(ctx, cfg)
    if not f:
        return
    n = 0
    for it in its:
        path, decs = it.path, it.decs
        effs = it.effs
        if not any(e[0] == 'c' and e[1].name == _fes(cfg) + '::fetch_next' for e in effs):
            continue
        atoms = it.atoms
        # (the emptiness test may live in the event set: fetch_next -> Option, None = exhausted; nothing was fetched on that path)
        opt = [a for a in atoms if a[0] == 'is' and peel(a[1])[0] == 'call' and peel(a[1])[1] == _fes(cfg) + '::fetch_next']
        if any(a[2] == 'None' for a in opt):
            continue
        n += 1
        handled = any(e[0] == 'c' and e[1].callee == 'des::runtime::event::types::Event::handle' for e in effs)
        lim = [a for a in atoms if a[0] == 'bool' and a[1][0] == 'call' and a[1][1] == LIM + '::applies']
        empt = [a for a in atoms if a[0] == 'bool' and a[1][0] == 'call' and a[1][1].endswith('::is_empty')] + opt
        other = [a for a in atoms if a not in lim and a not in empt]
        ok = len(lim) == 1 and lim[0][2] is (not handled) and not other
        ctx.check(ok, 'stop-iff-limit',
                  'after fetching, dispatch_event stops iff the installed limit applies to that event, and dispatches it otherwise — no other condition (a step of n events must stop inside a group of equal timestamps too)',
                  f.where_path(path), {'dispatches': handled, 'conditions': [show_atom(a) for a in atoms]})
    ctx.floor('post-fetch paths of dispatch_event', n, 2)


def r5_putback_placement(ctx, cfg='A'):
    """the put-back relies on: an event whose time equals the event set's current instant goes to the same-instant FIFO, which is
    drained first — whatever else is stored (shared with C03.R2)"""
    from . import C03
    C03.r2_zero_container(ctx, cfg, 'C10.R5')


def run(ctx):
    for cfg in [c for c in ('A', 'B') if c in ctx.progs]:
        r5_putback_placement(ctx, cfg)
        r1_step_wrappers(ctx, cfg)
        r2_limit_path(ctx, cfg)
        r3_paused_state(ctx, cfg)
        r4_stop_decision(ctx, cfg)
        # (R6) a paused runtime schedules relative to the time it reports, and files events under exactly the instant given (shared with C02.R7)
        from .C02 import r7_relative_scheduling
        r7_relative_scheduling(ctx, cfg, rule='C10.R6')
    ctx.cfg = 'A'

"""C16 — message bodies: type safe, value preserving, measured consistently (structural clauses, DESIGN §4 C16)."""
import re
from .engine.helpers import *

EXPLANATION = (
    "Static analysis of des::net::message::body and friends: (R1) every reinterpretation of Body.data as *T in "
    "try_cast/try_content/try_content_mut is control-dependent on is::<T>() for the same T; (R2) each vtable*::<T>() fills every typed "
    "slot with the thunk of its role instantiated at T, and each Body::new*::<T> boxes a T and installs a vtable instantiated at T; the "
    "drop thunk drops the box whenever the pointer is non-null, with no other condition; (R3) try_cast takes the pointer out with "
    "mem::replace(.., null) before rebuilding the box (so Drop sees null) and Body::drop always calls the vtable's drop; (R4) "
    "Message::length = body length + Header::byte_len(), the latter the constant 64; (R5) Body's data/vtable and Message's content are "
    "private; (R6) every MessageBody impl that is generic over MessageBody-bounded parameters measures its contents by calling byte_len "
    "on each such parameter (sum over elements), never by the in-memory size; the derive macro's output is checked in the thorough tier. "
    '(R4 also: Message::set_body installs exactly the body it is given and every content setter builds the body from the new value; Message::try_clone returns None when the body cannot be cloned, never a body-less message.) '
    '(R4 also: new_non_debugable declares size_of::<T>() of the value type; R8, shared with C07.R7) channels charge the declared length undiminished. '
    '(R8 also: queues are charged and un-charged with Message::length, shared with C07.R3.) '
    "(R8 also, shared with C07.R2: the queue admission compares with Message::length.) "
    '(R9) Message::from_raw_parts stores the header and body it was given unchanged; R10) in #[derive(MessageBody)] every turn of a field loop feeds every token stream the loop feeds (no field is left out of byte_len). '
    '(R11) can_cast::<T>() is false for a message without a body, and the body of an existing message is replaced by the setters alone (no other writer of Message.content). '
    "Decides these necessary conditions only; not value equality / drop counts over operation sequences.")
ASSUMPTIONS = ["TypeId::of::<T>() identifies T", "Box::into_raw/from_raw round-trip"]

B = 'des::net::message::body::'
BODY = B + 'Body'
CASTS = ('std::ptr::mut_ptr::cast', 'std::ptr::const_ptr::cast')


def _is_sites(f):
    return [s for s in f.calls() if s.name == BODY + '::is']


def r1_guarded_reinterpretation(ctx):
    ctx.set_rule('C16.R1')
    P = ctx.P
    n = 0
    fns = [f for f in P.fn_list if f.key.startswith(BODY + '::') and f.kind != 'promoted']
    for f in fns:
        for s in f.calls():
            if s.name not in CASTS:
                continue
            src = f.expr_operand(s.args[0], s.b, 'T')
            if not any(x[0] == 'field' and x[2] == 'data' for x in walk(src)) and not (f.kind == 'closure' and any(x[0] == 'field' for x in walk(src))):
                continue
            to = s.targs[-1] if s.targs else '?'
            if to in ('()', 'u8'):
                continue
            n += 1
            ctx.touch(f)
            ok = False
            why = None
            if f.kind == 'closure':
                par = P.fns.get(f.parent)
                if par:
                    for c in par.calls():
                        if c.name.endswith('bool::then') or c.name.endswith('::then'):
                            clo = peel(par.expr_operand(c.args[1], c.b, 'T'))
                            if clo[0] == 'agg' and clo[1] == 'closure:' + f.key:
                                recv = peel(par.expr_operand(c.args[0], c.b, 'T'))
                                if recv[0] == 'call' and recv[1] == BODY + '::is':
                                    site = [x for x in _is_sites(par) if x.b == recv[3]]
                                    if site and site[0].targs == [to]:
                                        ok = True
                                    why = {'guard': 'bool::then on is::<%s>()' % (site[0].targs[0] if site else '?'), 'cast_to': to}
            else:
                atoms = [a for _, a in f.guard_atoms(s.b)]
                for a in atoms:
                    if a[0] == 'bool' and a[1][0] == 'call' and a[1][1] == BODY + '::is' and a[2] is True:
                        # find the is() site that dominates
                        for x in _is_sites(f):
                            if f.dominates(x.b, s.b) and x.targs == [to]:
                                ok = True
                                why = {'guard': 'is::<%s>() == true' % x.targs[0], 'cast_to': to}
            ctx.check(ok, 'unguarded-cast:%s' % f.key, 'Body.data is reinterpreted as *%s only under is::<%s>() (never a reinterpretation of bytes of another type)' % (to, to), s.where(), why)
    # a typed pointer obtained from the body's own typed accessor (try_content_mut::<T>() is Some) and rebuilt into a Box<T>: the
    # reinterpretation is the accessor's (checked above), the rebuild must be at the accessor's T
    for f in fns:
        for s in f.calls():
            if s.name != 'std::boxed::Box::from_raw':
                continue
            t = f.expr_operand(s.args[0], s.b, 'T')
            acc = [x for x in walk(t) if x[0] == 'call' and x[1] in (BODY + '::try_content_mut', BODY + '::try_content')]
            if not acc or any(x[0] == 'field' and x[2] == 'data' for x in walk(t) if x[0] == 'field' and not any(y is x for a_ in acc for y in walk(a_))):
                continue
            sites = [c for c in f.calls() if c.name == acc[0][1] and c.b == acc[0][3]]
            n += 1
            ctx.touch(f)
            ctx.check(bool(sites) and sites[0].targs[:1] == s.targs[:1], 'unguarded-cast:%s' % f.key,
                      'a Box<T> is rebuilt only from the pointer the typed accessor returned for the same T', s.where(), {'accessor': sites and sites[0].targs, 'box': s.targs})
    ctx.floor('reinterpreting casts of Body.data', n, 3)
    fi = ctx.anchor(BODY + '::is')
    if fi:
        ok = False
        for b, t in ret_trees(fi):
            a = atom_of(t, ('eq', 1))
            if a and a[0] == 'cmp' and a[1] == 'eq':
                txt = show_c(a[2]) + show_c(a[3])
                ok = 'TypeId::of' in txt and ('type_id' in txt)
                if not ok:
                    # the stored id is whatever a thunk of this body's vtable reports (directly or as a component of a record); R2 decides
                    # that every thunk that is generic is instantiated at the vtable's own T
                    sides = (a[2], a[3])
                    of = [x for x in sides if peel(x)[0] == 'call' and peel(x)[1] == 'std::any::TypeId::of']
                    via = [x for x in sides if any(y[0] == 'callind' and any(z[0] == 'field' and z[2] == 'vtable' for z in walk(y[1])) for y in walk(x))]
                    ok = len(of) == 1 and len(via) == 1 and of[0] is not via[0]
        if not ok:
            # the comparison lives in the thunk: `(self.vtable.<slot>)(TypeId::of::<T>())` with every thunk installed in that slot
            # answering `TypeId::of::<its own T>() == id` (R2: generic thunks are instantiated at the vtable's T)
            for b, t in ret_trees(fi):
                t = peel(t)
                if t[0] == 'callind' and peel(t[1])[0] == 'field' and any(y[0] == 'field' and y[2] == 'vtable' for y in walk(t[1])) and \
                        len(t[2]) == 1 and peel(t[2][0])[0] == 'call' and peel(t[2][0])[1] == 'std::any::TypeId::of':
                    ths = _slot_thunks(ctx.P, peel(t[1])[2])
                    def cmp_own(g):
                        rts = [atom_of(t2, ('eq', 1)) for _, t2 in ret_trees(g)]
                        return bool(rts) and all(a and a[0] == 'cmp' and a[1] == 'eq' and
                                                 sorted(['of' if (peel(x)[0] == 'call' and peel(x)[1] == 'std::any::TypeId::of') else ('arg' if peel(x)[0] == 'arg' else '?') for x in (a[2], a[3])]) == ['arg', 'of']
                                                 for a in rts)
                    ok = bool(ths) and all(g is not None and cmp_own(g) for g in ths)
        ctx.check(ok, 'is-compares-typeid', 'is::<T>() compares the stored type id with TypeId::of::<T>()', fi.where())


def _slot_thunks(P, slot):
    """the functions installed in slot `slot` of any VTable literal of the body module (None for an entry that is not a function item)"""
    out = []
    for f in P.fn_list:
        if not (f.key.startswith(B) or f.key.startswith('<' + B)):
            continue
        for b in sorted(f.reachable()):
            for i, st in enumerate(f.stmts(b)):
                if st['k'] == 'assign' and st['r']['k'] == 'agg' and str(st['r'].get('adt', '')).endswith('VTable') and slot in st['r'].get('fields', []):
                    t = f.expr_operand(st['r']['ops'][st['r']['fields'].index(slot)], b, i)
                    while t[0] == 'cast':
                        t = t[2]
                    out.append(P.fns.get(t[1]) if t[0] == 'fnitem' else None)
    return out


ROLE = {  # vtable slot -> allowed thunks (generic ones must be instantiated at T)
    'type_id': {B + 'vtype_id': True},
    'type_name': {B + 'vtype_name': True},
    'debug': {B + 'vdebug': True, B + 'vdebug_unknown': False},
    'try_clone': {B + 'vclone': True, B + 'vclone_panic': False},
    'drop': {B + 'vdrop': True},
}


def _touches_arg(g, idx):
    """does the body of g read through / cast / pass on its idx-th argument?"""
    for b in sorted(g.reachable()):
        for st in g.stmts(b):
            if st['k'] == 'assign':
                r = st['r']
                ops = []
                if r['k'] in ('use', 'cast', 'repeat'):
                    ops = [r['o']]
                elif r['k'] in ('binop', 'cbinop'):
                    ops = [r['a'], r['b']]
                elif r['k'] == 'agg':
                    ops = r['ops']
                elif r['k'] in ('ref', 'rawptr', 'discr', 'len'):
                    if r['p']['l'] == idx:
                        return True
                for o in ops:
                    if o.get('k') in ('copy', 'move') and o['p']['l'] == idx:
                        return True
        t = g.term(b)
        if t['k'] == 'call':
            for o in t['args']:
                if o.get('k') in ('copy', 'move') and o['p']['l'] == idx:
                    return True
    return False


_VDROP_NULLCHECK = None


def r2_vtables(ctx, rule='C16.R2'):
    ctx.set_rule(rule)
    P = ctx.P
    def _has_vtable_literal(f):
        for body in [f] + list(f.promoted):
            for b in sorted(body.reachable()):
                for st in body.stmts(b):
                    if st['k'] == 'assign' and st['r']['k'] == 'agg' and st['r'].get('adt', '').endswith('body::VTable'):
                        return True
        return False
    # the providers of vtables: the generic `vtable*::<T>()` functions, or associated constants of a generic holder type
    vts = [f for f in P.fn_list if f.key.startswith(B) and f.kind in ('fn', 'const', 'assocfn') and not f.key.startswith(BODY + '::') and _has_vtable_literal(f)]
    VT_KEYS = {f.key for f in vts}
    ctx.floor('vtable constructors', len(vts), 3)
    for f in vts:
        ctx.touch(f)
        agg = None
        for pf in f.promoted:
            for b in sorted(pf.reachable()):
                for i, st in enumerate(pf.stmts(b)):
                    if st['k'] == 'assign' and st['r']['k'] == 'agg' and st['r'].get('adt', '').endswith('VTable'):
                        agg = (pf, b, i, st['r'])
        for b in sorted(f.reachable()):
            for i, st in enumerate(f.stmts(b)):
                if st['k'] == 'assign' and st['r']['k'] == 'agg' and st['r'].get('adt', '').endswith('VTable'):
                    agg = (f, b, i, st['r'])
        if not ctx.check(agg is not None, 'vtable-literal:%s' % f.key, '%s builds a VTable literal' % short(f.key), f.where()):
            continue
        pf, b, i, r = agg
        for name, op in zip(r['fields'], r['ops']):
            t = pf.expr_operand(op, b, i)
            while t[0] == 'cast':
                t = t[2]
            ok = False
            # an optional slot (`clone: Option<unsafe fn(..)>`): `None` installs no thunk at all, `Some(f)` is judged by f
            if t[0] == 'agg' and str(t[1]).endswith('Option::None'):
                ctx.ok('slot `%s` of %s is empty (no thunk installed)' % (name, short(f.key)), f.where())
                continue
            if t[0] == 'agg' and str(t[1]).endswith('Option::Some') and t[2]:
                t = t[2][0]
                while t[0] == 'cast':
                    t = t[2]
            if t[0] == 'fnitem' and name in ROLE and t[1] in ROLE[name]:
                want = ROLE[name].get(t[1])
                if want is True:
                    ok = list(t[2]) == ['T']
                elif want is False:
                    ok = True
            elif t[0] == 'fnitem':
                # slot or thunk not in the pinned table (renamed / std function used directly): the slot types are pairwise different, so
                # the type checker fixes the role; what remains to decide is that a thunk which interprets the erased pointer is
                # instantiated at this vtable's own T, and that a non-generic thunk never looks at the pointer
                if list(t[2]) == ['T']:
                    ok = True
                elif not t[2]:
                    g = P.fns.get(t[1])
                    ok = g is not None and not _touches_arg(g, 1)
            ctx.check(ok, 'vtable-slot:%s:%s' % (f.key.split('::')[-1], name), 'slot `%s` of %s holds the thunk of its role, instantiated at T' % (name, short(f.key)), f.where(), show(t))
    ctors = [f for f in P.fn_list if f.key.startswith(BODY + '::new') and f.kind == 'assocfn']
    ctx.floor('Body constructors', len(ctors), 4)
    for f in ctors:
        ctx.touch(f)
        vt = [s for s in f.calls() if s.name in VT_KEYS]
        vt_targs = [s.targs for s in vt]
        # ... or a constant `Holder::<T>::NAME` among the providers
        for b_ in sorted(f.reachable()):
            for st in f.stmts(b_):
                if st['k'] == 'assign' and st['r']['k'] == 'agg' and st['r'].get('adt', '').endswith('body::Body'):
                    for o in st['r']['ops']:
                        cd = o.get('cdef') if o.get('k') == 'const' else None
                        if cd and strip_generics(cd) in VT_KEYS:
                            m = re.findall(r'::<([^<>]*)>::', cd)
                            vt_targs.append([x.strip() for x in m[0].split(',')] if m else [])
        bx = [s for s in f.calls() if s.name == 'std::boxed::Box::new']
        raw = [s for s in f.calls() if s.name == 'std::boxed::Box::into_raw']
        ok = len(vt_targs) == 1 and vt_targs[0] == ['T'] and len(bx) == 1 and bx[0].targs[:1] == ['T'] and len(raw) == 1
        if ok:
            v = peel(f.expr_operand(bx[0].args[0], bx[0].b, 'T'))
            ok = v[0] == 'arg'
        if not ok and not vt_targs and not bx:
            # a constructor that delegates to a sibling constructor (checked in its own right) at the same T, handing on its value
            rts = [peel(t) for _, t in ret_trees(f)]
            sib = {g.key for g in ctors if g is not f}
            dl = [s for s in f.calls() if s.name in sib]
            ok = len(rts) == 1 and rts[0][0] == 'call' and rts[0][1] in sib and len(dl) == 1 and dl[0].targs[:1] == ['T'] and \
                bool(rts[0][2]) and peel(rts[0][2][0])[0] == 'arg' and peel(rts[0][2][0])[1] == 1
        ctx.check(ok, 'ctor:%s' % f.key.split('::')[-1], '%s boxes the given T and installs a vtable instantiated at the same T' % short(f.key), f.where(),
                  {'vtable': vt_targs, 'boxed': bx and bx[0].targs})
    # the drop thunk
    fd = ctx.anchor(B + 'vdrop')
    if fd:
        fr = [s for s in fd.calls() if s.name == 'std::boxed::Box::from_raw']
        if ctx.floor('Box::from_raw in vdrop', len(fr), 1):
            atoms = [a for _, a in fd.guard_atoms(fr[0].b)]
            nulls = [a for a in atoms if a[0] == 'bool' and a[1][0] == 'call' and a[1][1].endswith('::is_null')]
            others = [a for a in atoms if a not in nulls]
            global _VDROP_NULLCHECK
            _VDROP_NULLCHECK = len(nulls) == 1 and nulls[0][2] is False
            ctx.check(len(nulls) <= 1 and all(a[2] is False for a in nulls) and not others, 'vdrop-iff-nonnull',
                      'the drop thunk destroys the boxed value whenever the pointer is non-null — no other condition (e.g. on the size of T) may skip a destructor',
                      fr[0].where(), [show_atom(a) for a in atoms])
            dropped = any(s.name == 'std::mem::drop' for s in fd.calls()) or any(fd.term(b)['k'] == 'drop' and 'Box<T>' in fd.term(b)['ty'] for b in fd.reachable())
            ctx.check(dropped and fr[0].targs[:1] == ['T'], 'vdrop-drops-box', 'the drop thunk drops a Box<T>', fr[0].where())
    fc = ctx.anchor(B + 'vclone')
    if fc:
        cl = [s for s in fc.calls() if s.callee == 'std::clone::Clone::clone']
        bx = [s for s in fc.calls() if s.name == 'std::boxed::Box::new']
        ctx.check(len(cl) == 1 and cl[0].targs[:1] == ['T'] and len(bx) == 1, 'vclone-clones-T', 'the clone thunk clones the T and boxes the copy', fc.where())


def r3_drop_once(ctx):
    ctx.set_rule('C16.R3')
    f = ctx.anchor(BODY + '::try_cast')
    if f:
        fr = [s for s in f.calls() if s.name == 'std::boxed::Box::from_raw']
        if ctx.floor('Box::from_raw in try_cast', len(fr), 1):
            t = f.expr_operand(fr[0].args[0], fr[0].b, 'T')
            rep = [x for x in walk(t) if x[0] == 'call' and x[1] == 'std::mem::replace']
            ok = bool(rep) and any(x[0] == 'field' and x[2] == 'data' for x in walk(rep[0][2][0])) and any(x[0] == 'call' and x[1].endswith('null_mut') for x in walk(rep[0][2][1]))
            if not ok:
                # equivalent: read self.data, then store null into self.data — on every path that rebuilds the Box
                is_null = lambda v: v is not None and any((x[0] == 'call' and x[1].endswith('null_mut')) or x == ('int', 0) for x in walk(v))
                n_p = 0
                good = any(x[0] == 'field' and x[2] == 'data' for x in walk(t)) or \
                    any(x[0] == 'call' and x[1] in (BODY + '::try_content_mut', BODY + '::try_content') for x in walk(t))   # (the accessor reads self.data)
                for path, outcome, decs in fn_paths(ctx, f):
                    if outcome != 'return' or fr[0].b not in path:
                        continue
                    n_p += 1
                    effs = path_effects(f, path)
                    nulled = any(e[0] == 'w' and e[2] == 'data' and is_null(e[4]) for e in effs)
                    if not nulled:
                        # equivalent mechanism: the body itself is released (ManuallyDrop::new(self) / mem::forget(self)), so that
                        # Body::drop never runs for it on this path — nothing but the rebuilt Box owns the value
                        rel = [i for i, e in enumerate(effs) if e[0] == 'c' and e[1].name in ('std::mem::ManuallyDrop::new', 'std::mem::forget')
                               and peel(e[2][0])[0] == 'arg' and peel(e[2][0])[1] == 1]
                        reb = [i for i, e in enumerate(effs) if e[0] == 'c' and e[1] is fr[0] or (e[0] == 'c' and e[1].b == fr[0].b)]
                        body_dropped = any(e[0] == 'd' and e[2].split('<')[0] == BODY for e in effs)
                        between_ok = bool(rel) and bool(reb) and (rel[0] < reb[0] or not any(e[0] == 'c' for e in effs[reb[0] + 1:rel[0]]))
                        nulled = bool(rel) and not body_dropped and between_ok
                    good = good and nulled
                ok = good and n_p >= 1
            ctx.check(ok, 'take-before-rebox', 'try_cast replaces Body.data by null before rebuilding the Box (the value cannot be dropped twice)', fr[0].where(), show(t)[:200])
        # failure path returns self untouched
        for path, outcome, decs in fn_paths(ctx, f):
            if outcome != 'return':
                continue
            r = path_ret(f, path)
            if r and r[0] == 'agg' and r[1].endswith('Result::Err'):
                v = peel(r[2][0])
                touched = any(e[0] == 'w' for e in path_effects(f, path))
                ctx.check(v[0] == 'arg' and not touched, 'failed-cast-intact', 'a failed cast hands the body back unchanged', f.where_path(path))
    fd = ctx.anchor('<%s as std::ops::Drop>::drop' % BODY)
    if fd:
        ind = [b for b in fd.reachable() if fd.term(b)['k'] == 'call' and not fd.term(b).get('callee')]
        ok = False
        body_null = False
        for b in ind:
            t = fd.term(b)
            fn_t = fd.expr_operand(t['f'], b, 'T')
            arg = fd.expr_operand(t['args'][0], b, 'T') if t['args'] else ('unknown',)
            if any(x[0] == 'field' and x[2] == 'vtable' for x in walk(fn_t)) and any(x[0] == 'field' and x[2] == 'data' for x in walk(arg)):
                ok = all(fd.dominates(b, r) for r in fd.return_blocks())
                if not ok:
                    # guarded by the null test of the data pointer only (the test may sit here instead of in the thunk)
                    atoms = [a for _, a in fd.guard_atoms(b)]
                    nul = [a for a in atoms if a[0] == 'bool' and a[1][0] == 'call' and a[1][1].endswith('::is_null') and any(x[0] == 'field' and x[2] == 'data' for x in walk(a[1]))]
                    ok = len(nul) == 1 and nul[0][2] is False and len([a for a in atoms if a[0] in ('bool', 'cmp', 'is')]) == 1
                    body_null = ok
        ctx.check(ok, 'body-drop-calls-vtable', "Body::drop calls the vtable's drop thunk on its data pointer whenever that pointer is non-null (no other condition)", fd.where())
        ctx.check(bool(_VDROP_NULLCHECK) or body_null, 'null-pointer-skipped', 'a null data pointer (value moved out by try_cast) is never handed to Box::from_raw: Body::drop or the drop thunk tests it', fd.where(),
                  {'thunk_tests_null': bool(_VDROP_NULLCHECK), 'body_drop_tests_null': body_null})
    fcl = ctx.anchor(BODY + '::try_clone')
    if fcl:
        clo = ctx.P.closures_of(fcl)
        ok = False
        for g in [fcl] + clo:
            for b, t0 in ret_trees(g):
                for t in walk(t0):
                  if t[0] == 'agg' and t[1].endswith('Body::Body'):
                    d = dict(zip(t[3], t[2]))
                    dt = peel(d['data'])
                    # the cloned pointer: the closure's parameter (Option::map form) or the Some payload of the vtable call (match form)
                    # ... obtained from an indirect call through a slot of this body's vtable on this body's data pointer
                    via_vtable = lambda x: x[0] == 'callind' and any(y[0] == 'field' and y[2] == 'vtable' for y in walk(x[1])) and any(y[0] == 'field' and y[2] == 'data' for a_ in x[2] for y in walk(a_))
                    from_clone = (g is not fcl and dt[0] == 'arg') or (g is fcl and any(via_vtable(x) for x in walk(dt)))
                    ok = from_clone and any(x[0] == 'field' and x[2] == 'vtable' for x in walk(d['vtable'])) and any(x[0] == 'field' and x[2] == 'length' for x in walk(d['length']))
        if not ok:
            # the clone thunk builds the body: `(self.vtable.<slot>)(self)`, every thunk of that slot answering None or Some(Body { fresh
            # data, length and vtable of the body it was given })
            for b, t in ret_trees(fcl):
                t = peel(t)
                if t[0] == 'callind' and peel(t[1])[0] == 'field' and any(y[0] == 'field' and y[2] == 'vtable' for y in walk(t[1])) and \
                        len(t[2]) == 1 and any(y[0] == 'arg' and y[1] == 1 for y in walk(t[2][0])):
                    ths = _slot_thunks(ctx.P, peel(t[1])[2])
                    def builds(g):
                        good = True
                        n_ = 0
                        for _, t2 in ret_trees(g):
                            t2 = peel(t2)
                            if t2[0] == 'agg' and str(t2[1]).endswith('Option::None'):
                                continue
                            bs = [x for x in walk(t2) if x[0] == 'agg' and str(x[1]).endswith('Body::Body') and len(x) > 3]
                            if not (t2[0] == 'agg' and str(t2[1]).endswith('Option::Some') and len(bs) == 1):
                                return False
                            n_ += 1
                            d = dict(zip(bs[0][3], bs[0][2]))
                            same = lambda v, nm: peel(v)[0] == 'field' and peel(v)[2] == nm and peel(peel(v)[1])[0] == 'arg' and peel(peel(v)[1])[1] in (1, 'original') or \
                                (peel(v)[0] == 'field' and peel(v)[2] == nm and any(y[0] == 'arg' for y in walk(peel(v)[1])))
                            good = good and same(d.get('length', ('unknown',)), 'length') and same(d.get('vtable', ('unknown',)), 'vtable') and \
                                any(x[0] == 'call' and str(x[1]).endswith('Clone::clone') for x in walk(d.get('data', ('unknown',))))
                        return good
                    ok = bool(ths) and all(g is not None and builds(g) for g in ths)
        ctx.check(ok, 'clone-shares-vtable-and-length', 'a cloned body owns the cloned value and keeps the vtable and the declared length', fcl.where())


def r4_length(ctx):
    ctx.set_rule('C16.R4')
    f = ctx.anchor('des::net::message::Message::length')
    if f:
        ok = False
        for b, t in ret_trees(f):
            v = t
            if v[0] == 'field' and v[1][0] == 'bin':
                v = v[1]
            if v[0] == 'bin' and v[1].startswith('Add'):
                parts = (v[2], v[3])
                def body_part(p):
                    if any(x[0] == 'call' and x[1].endswith('Option::map_or') for x in walk(p)) and \
                            any(x[0] == 'fnitem' and x[1] == BODY + '::length' for x in walk(p)) and any(x == ('int', 0) for x in walk(p)):
                        return True
                    q = peel(p)
                    if q[0] == 'phi':   # match &self.content { Some(b) => b.length(), None => 0 }
                        alts = [peel(x) for x in q[1]]
                        isz = [x == ('int', 0) for x in alts]
                        isl = [x[0] == 'call' and x[1] == BODY + '::length' and any(y[0] == 'field' and y[2] == 'content' for y in walk(x)) for x in alts]
                        return all(a or b for a, b in zip(isz, isl)) and any(isz) and any(isl)
                    return False
                body = any(body_part(p) for p in parts)
                hdr = any(any(x[0] == 'call' and x[1].endswith('MessageBody>::byte_len') and any(y[0] == 'field' and y[2] == 'header' for y in walk(x)) for x in walk(p)) for p in parts)
                ok = body and hdr
        if not ok:
            # distributed form:  content.map_or(H, |body| body.length() + H)  with H = header.byte_len()
            P = ctx.P
            def is_hdr(p):
                return any(x[0] == 'call' and x[1].endswith('MessageBody>::byte_len') and any(y[0] == 'field' and y[2] == 'header' for y in walk(x)) for x in walk(p))
            for b, t in ret_trees(f):
                q = peel(t)
                if q[0] == 'phi' and len(q[1]) == 2:
                    # match form: `match body { Some(b) => b.length() + H, None => H }`
                    alts = [peel(x) for x in q[1]]
                    alts = [a_[1] if (a_[0] == 'field' and a_[1][0] == 'bin') else a_ for a_ in alts]
                    sums = [a_ for a_ in alts if a_[0] == 'bin' and a_[1].startswith('Add')]
                    bare = [a_ for a_ in alts if not (a_[0] == 'bin' and a_[1].startswith('Add'))]
                    if len(sums) == 1 and len(bare) == 1 and is_hdr(bare[0]) and not any(x[0] == 'call' and x[1] == BODY + '::length' for x in walk(bare[0])):
                        parts = (sums[0][2], sums[0][3])
                        blen = [p_ for p_ in parts if peel(p_)[0] == 'call' and peel(p_)[1] == BODY + '::length' and any(y[0] == 'field' and y[2] == 'content' for y in walk(p_))]
                        ok = len(blen) == 1 and any(is_hdr(p_) for p_ in parts if p_ is not blen[0])
                if q[0] == 'call' and q[1].endswith('Option::map_or') and len(q[2]) == 3 and any(y[0] == 'field' and y[2] == 'content' for y in walk(q[2][0])) and is_hdr(q[2][1]):
                    cl = peel(q[2][2])
                    g = P.fns.get(cl[1][len('closure:'):]) if cl[0] == 'agg' and str(cl[1]).startswith('closure:') else None
                    good = g is not None
                    for _, r in (ret_trees(g) if g else []):
                        r = resolve_captures(P, g, r)
                        r = r[1] if (r[0] == 'field' and r[1][0] == 'bin') else r
                        if not (r[0] == 'bin' and r[1].startswith('Add')):
                            good = False; continue
                        parts = (r[2], r[3])
                        blen = [p_ for p_ in parts if peel(p_)[0] == 'call' and peel(p_)[1] == BODY + '::length' and any(y[0] == 'arg' and y[1] == 2 for y in walk(p_))]
                        good = good and len(blen) == 1 and any(is_hdr(p_) for p_ in parts if p_ is not blen[0])
                    ok = good
        ctx.check(ok, 'message-length', 'Message::length = declared body length (0 without body) + Header::byte_len()', f.where())
    h = ctx.anchor('<des::net::message::header::Header as des::net::message::body::MessageBody>::byte_len')
    if h:
        vals = [t for _, t in ret_trees(h)]
        ctx.check(vals == [('int', 64)], 'header-64', 'the header is charged with the constant 64 bytes', h.where(), [show(v) for v in vals])
    g = ctx.anchor(BODY + '::length')
    if g:
        ctx.check(returned_field(g) == 'length', 'body-length-getter', 'Body::length reports the length declared at creation', g.where())
    # channels charge Message::length
    cb = ctx.P.fns.get('des::net::channel::ChannelMetrics::calculate_busy')
    if cb:
        ctx.check(bool(cb.calls_to('des::net::message::Message::length')), 'channel-charges-length', 'channels charge Message::length()', cb.where())
    # a constructor for values that cannot measure themselves declares the in-memory size of the value's own type
    c = ctx.P.fns.get(BODY + '::new_non_debugable')
    if c is not None:
        ctx.touch(c)
        okl = False
        for b, t in ret_trees(c):
            t = peel(t)
            if t[0] == 'agg' and 'length' in t[3]:
                lv = peel(t[2][t[3].index('length')])
                if lv[0] == 'call' and lv[1] == 'std::mem::size_of':
                    site = [s_ for s_ in c.calls() if s_.name == lv[1] and s_.b == lv[3]]
                    okl = bool(site) and site[0].targs[:1] == ['T']
                elif lv[0] == 'call' and lv[1] == 'std::mem::size_of_val' and lv[2]:
                    site = [s_ for s_ in c.calls() if s_.name == lv[1] and s_.b == lv[3]]
                    okl = bool(site) and site[0].targs[:1] == ['T'] and peel(lv[2][0])[0] == 'arg'
        ctx.check(okl, 'declared-length:new_non_debugable', 'Body::new_non_debugable declares size_of::<T>() of the stored value type (not of a pointer to it)', c.where())
    # constructors that take a MessageBody measure with byte_len
    for k in (BODY + '::new', BODY + '::new_non_clonable'):
        c = ctx.P.fns.get(k)
        if c:
            bl = [s for s in c.calls() if s.callee == B + 'MessageBody::byte_len' and s.targs[:1] == ['T']]
            agg_ok = False
            for b, t in ret_trees(c):
                t = peel(t)
                if t[0] == 'call' and t[1].startswith(BODY + '::new') and t[1] != k and ctx.P.fns.get(t[1]) is not None:
                    # delegation to a sibling constructor: what that one stores as length, with the actual arguments put in
                    g2 = ctx.P.fns[t[1]]
                    for _, t2 in ret_trees(g2):
                        t2 = peel(t2)
                        if t2[0] == 'agg' and 'length' in t2[3]:
                            lv = peel(t2[2][t2[3].index('length')])
                            if lv[0] == 'arg' and isinstance(lv[1], int) and 1 <= lv[1] <= len(t[2]):
                                agg_ok = any(x[0] == 'call' and x[1] == B + 'MessageBody::byte_len' for x in walk(t[2][lv[1] - 1]))
                if t[0] == 'agg' and 'length' in t[3]:
                    agg_ok = any(x[0] == 'call' and x[1] == B + 'MessageBody::byte_len' for x in walk(t[2][t[3].index('length')]))
            ctx.check(len(bl) == 1 and agg_ok, 'declared-length:%s' % k.split('::')[-1], '%s declares the value\'s byte_len() as the body length' % short(k), c.where())


def r5_privacy(ctx):
    ctx.set_rule('C16.R5')
    P = ctx.P
    a = P.adts.get(BODY)
    if ctx.check(a is not None, 'body-adt', 'Body type present'):
        vis = {fl['n']: fl['vis'] for fl in a['variants'][0]['fields']}
        ctx.check(vis.get('data') != 'pub' and vis.get('vtable') != 'pub' and vis.get('length') != 'pub', 'body-private', "Body's data pointer, vtable and length are private", None, vis)
    m = P.adts.get('des::net::message::Message')
    if ctx.check(m is not None, 'message-adt', 'Message type present'):
        vis = {fl['n']: fl['vis'] for fl in m['variants'][0]['fields']}
        ctx.check(vis.get('content') != 'pub', 'content-private', "Message's content is not public", None, vis)
    v = P.adts.get(B + 'VTable')
    if v:
        ctx.check(v['vis'] != 'pub', 'vtable-private', 'the VTable type is private', None, v['vis'])


def r6_generic_measures(ctx):
    ctx.set_rule('C16.R6')
    P = ctx.P
    MB = B + 'MessageBody'
    n = 0
    for f in P.fn_list:
        if not (f.trait and strip_generics(f.trait) == MB and f.kind == 'assocfn' and f.name == 'byte_len'):
            continue
        bounds = [p for p, tr in f.j.get('impl_bounds', []) if strip_generics(tr) == MB]
        if not bounds:
            continue
        n += 1
        ctx.touch(f)
        measured = set()
        sizeof = []
        for g in [f] + P.closures_of(f):
            for s in g.calls():
                if s.callee == MB + '::byte_len' and s.targs:
                    measured.add(s.targs[0])
                # `T::byte_len` handed to an adaptor as a function value (`.map_or(0, T::byte_len)`, `.map(T::byte_len).sum()`)
                for a in s.args:
                    t = peel(g.expr_operand(a, s.b, 'T'))
                    if t[0] == 'fnitem' and t[1] == MB + '::byte_len' and t[2]:
                        measured.add(t[2][0])
                if s.name in ('std::mem::size_of', 'std::mem::size_of_val'):
                    sizeof.append(s)
        missing = [p for p in bounds if p not in measured]
        ctx.check(not missing and not sizeof, 'generic-measure:%s' % f.self_ty,
                  'MessageBody for %s measures its contents through byte_len() of every MessageBody-bounded parameter (the sum over elements), never through the in-memory size' % f.self_ty,
                  f.where(), {'bounded_params': bounds, 'measured': sorted(measured), 'size_of_calls': len(sizeof)})
    ctx.floor('generic MessageBody impls', n, 20)
    # (R12) the sum runs over the whole collection: a generic byte_len takes no partial view of `self` and truncates no iterator.
    # (`VecDeque::as_slices().0` is the contiguous front segment only — equal to the whole deque until the ring buffer has wrapped.)
    ctx.set_rule('C16.R12')
    PARTIAL = ('first', 'last', 'get', 'front', 'back', 'take', 'skip', 'step_by', 'take_while', 'skip_while', 'filter', 'filter_map', 'range', 'peek',
               'chunks', 'windows', 'nth', 'find', 'position', 'split_off', 'truncate', 'first_key_value', 'last_key_value', 'pop', 'pop_front', 'pop_back',
               'get_unchecked', 'first_chunk', 'last_chunk', 'split_first_chunk', 'split_last_chunk', 'map_while', 'dedup', 'rsplit', 'splitn')
    SPLIT = ('as_slices', 'as_mut_slices', 'split_at', 'split_first', 'split_last', 'split_at_checked', 'split_at_unchecked', 'partition', 'unzip')
    m = 0
    for f in P.fn_list:
        if not (f.trait and strip_generics(f.trait) == MB and f.kind == 'assocfn' and f.name == 'byte_len'):
            continue
        if not [p for p, tr in f.j.get('impl_bounds', []) if strip_generics(tr) == MB]:
            continue
        m += 1
        bad = []
        measures = 0
        for g in [f] + P.closures_of(f):
            for s in g.calls():
                last = (s.name or '').split('::')[-1]
                std_recv = (s.name or '').startswith(('std::', 'core::', 'alloc::', '<std::', '<core::', '<alloc::'))
                if s.callee == MB + '::byte_len' or (not std_recv and s.argtys and '[' in s.argtys[0]):
                    measures += 1
                if std_recv and last in PARTIAL and 'Option' not in (s.name or '') and 'Result' not in (s.name or ''):
                    bad.append(s.name)
        splits = [s.name for g in [f] + P.closures_of(f) for s in g.calls() if (s.name or '').split('::')[-1] in SPLIT]
        if splits and measures < 2:
            bad += splits
        ctx.check(not bad, 'whole-collection:%s' % f.self_ty,
                  'MessageBody for %s sums byte_len() over the whole collection: no partial view of self (front segment, prefix, first/last element) and no truncating iterator adaptor' % f.self_ty,
                  f.where(), bad[:4])
    ctx.floor('generic MessageBody impls (traversal)', m, 20)
    ctx.set_rule('C16.R6')


def r7_set_content_and_clone(ctx):
    ctx.set_rule('C16.R4')
    P = ctx.P
    M = 'des::net::message::Message'
    sb = P.fns.get(M + '::set_body')
    if sb is not None:
        okb = False
        for path, outcome, decs in fn_paths(ctx, sb):
            if outcome != 'return':
                continue
            ws = [e for e in path_effects(sb, path) if e[0] == 'w' and e[2] == 'content']
            okb = len(ws) == 1 and ws[0][4] is not None and peel(ws[0][4])[0] == 'agg' and str(peel(ws[0][4])[1]).endswith('Option::Some') and peel(peel(ws[0][4])[2][0])[0] == 'arg'
        ctx.check(okb, 'set_body-installs', 'Message::set_body replaces the content by exactly the body it is given', sb.where())
    # every setter measures the NEW value: the content field is (re)assigned Some(Body::new*(value)) on every path
    for m, ctor in (('set_content', 'new'), ('set_content_non_clonable', 'new_non_clonable'), ('set_content_non_debugable', 'new_non_debugable')):
        f = P.fns.get(M + '::' + m)
        if f is None:
            ctx.violation('anchor:%s' % m, 'unresolved-anchor Message::%s' % m); continue
        ctx.touch(f)
        n = 0
        for path, outcome, decs in fn_paths(ctx, f):
            if outcome != 'return':
                continue
            n += 1
            effs = path_effects(f, path)
            ws = [e for e in effs if e[0] == 'w' and e[2] == 'content']
            via = [e for e in effs if e[0] == 'c' and e[1].name == M + '::set_body']
            ok = len(ws) + len(via) == 1
            if ok:
                v = ws[0][4] if ws else via[0][2][1]     # the stored value / the body handed to Message::set_body (checked below)
                bn = [x for x in walk(v)] if v else []
                calls = [x for x in bn if x[0] == 'call' and x[1] == BODY + '::' + ctor]
                ok = bool(calls) and peel(calls[0][2][0])[0] == 'arg'
            ctx.check(ok, 'setter-builds-body:%s' % m,
                      'Message::%s installs a freshly built body (Body::%s measures the new value) on every path — an in-place overwrite would keep the old declared length' % (m, ctor),
                      f.where_path(path))
        ctx.floor('paths of Message::%s' % m, n, 1)
    # a message with a non-clonable body cannot be cloned into a body-less message
    ctx.set_rule('C16.R3')
    f = P.fns.get(M + '::try_clone')
    if f is None:
        ctx.violation('anchor:Message::try_clone', 'unresolved-anchor Message::try_clone'); return
    ctx.touch(f)
    direct = list(f.calls_to(BODY + '::try_clone'))
    # ... or handed to Option::map as a function value (`content.as_ref().map(Body::try_clone)`): the paths below then branch on
    # the reduced payload `Body::try_clone((content as Some).0)`
    direct += [k for k in f.fn_items_passed() if k == BODY + '::try_clone']
    if not ctx.check(len(direct) == 1, 'clone-failure-propagated', 'Message::try_clone inspects the result of Body::try_clone itself (a failed body clone must make the whole clone fail, not yield a body-less message)', f.where()):
        return
    n = 0
    for path, outcome, decs in fn_paths(ctx, f):
        if outcome != 'return':
            continue
        outs = [r for _, r in call_outcomes(f, path, decs, BODY + '::try_clone')]
        r = path_ret(f, path)
        is_some = r is not None and r[0] == 'agg' and r[1].endswith('Option::Some')
        is_none = r is not None and r[0] == 'agg' and r[1].endswith('Option::None')
        # the `?` is lowered to Try::branch on the clone result
        atoms = [a for _, a in path_atoms(f, path, decs)]
        failed = any(a[0] == 'is' and a[2] in ('Break', 'None') and any(x[0] == 'call' and x[1] == BODY + '::try_clone' for x in walk(a[1])) for a in atoms) or ('None' in outs)
        if failed:
            n += 1
            ctx.check(not is_some, 'failed-body-clone-is-none', 'when the body cannot be cloned, Message::try_clone returns None', f.where_path(path))
    ctx.floor('failing-clone paths of Message::try_clone', n, 1)


def r9_parts_reassembled(ctx):
    """a message put together from its parts carries exactly those parts (Message::from_raw_parts is what a failed try_cast hands the
    message back through): header and body are the parameters themselves — not filtered, rebuilt or defaulted"""
    ctx.set_rule('C16.R9')
    f = ctx.anchor('des::net::message::Message::from_raw_parts')
    if not f:
        return
    rts = [peel(t) for _, t in ret_trees(f)]
    ok = bool(rts)
    for t in rts:
        if not (t[0] == 'agg' and str(t[1]).endswith('Message::Message') and len(t) > 3):
            ok = False
            continue
        comps = [peel(x) for x in t[2]]
        ok = ok and len(comps) == 2 and sorted(c[1] for c in comps if c[0] == 'arg') == [1, 2]
    ctx.check(ok, 'parts-stored-unchanged', 'Message::from_raw_parts stores the header and the body it was given, unchanged', f.where(), [show(t)[:160] for t in rts][:2])


def r10_derive_counts_every_field(ctx):
    """#[derive(MessageBody)] sums byte_len over ALL fields: in the derive's field loops every turn feeds every token stream the loop
    feeds (no `continue` / condition that leaves a field out of the sum while it is still bound in the pattern)"""
    ctx.set_rule('C16.R10')
    P = ctx.P
    f = P.fns.get('des_macros_core::message_body::derive_impl')
    if f is None:
        ctx.violation('anchor:derive_impl', 'unresolved-anchor: des_macros_core::message_body::derive_impl')
        return
    ctx.touch(f)
    ext = [s for s in f.calls() if s.name.split('::')[-1] == 'extend' and 'TokenStream' in s.name and f.loops_containing(s.b)]
    heads = sorted({innermost_loop(f, s.b) for s in ext})
    def stream_of(s_):
        # the local the extended stream lives in (`ts.extend(..)` is `Extend::extend(&mut ts, ..)`: the borrow is taken in the same block)
        o = s_.args[0]
        if o.get('k') in ('move', 'copy') and not o['p']['pr']:
            defs = [st for b_ in sorted(f.reachable()) for st in f.blocks[b_]['s']
                    if st['k'] == 'assign' and st['p']['l'] == o['p']['l'] and not st['p']['pr'] and st['r']['k'] == 'ref']
            if len(defs) == 1:
                return defs[0]['r']['p']['l']
            return o['p']['l']
        return None
    n = 0
    for h in heads:
        mine = {}
        for s_ in ext:
            if innermost_loop(f, s_.b) == h:
                mine.setdefault(stream_of(s_), set()).add(s_.b)
        for path, outcome, decs in f.enum_paths(start=h, stop_at={h}):
            if outcome != 'stop' or not consistent(f, path, decs) or not all(h in f.loops_containing(b) for b in path[1:-1]):
                continue
            if len(path) <= 3:
                continue
            n += 1
            fed = [k for k, bs in mine.items() if bs & set(path)]
            ctx.check(len(fed) == len(mine), 'derive-counts-every-field', 'every field of the type contributes to the derived byte_len (each turn of a field loop feeds every stream the loop feeds)',
                      f.where_path(path), {'streams fed by the loop': len(mine), 'fed on this turn': len(fed)})
    if n == 0:
        # (quote's own repetition `#( .. )*` iterates every element by construction; there is no hand-written loop to skip a field in)
        ctx.note('the MessageBody derive has no hand-written field loop feeding a token stream')
    else:
        ctx.ok('field-loop turns of the MessageBody derive inspected: %d' % n, f.where())


CONTENT_WRITERS = {   # who replaces the body of an existing message (through &mut self)
    'des::net::message::Message::set_body': 'takes a ready-made Body',
    'des::net::message::Message::set_content': 'boxes the value and installs the clonable vtable',
    'des::net::message::Message::set_content_non_clonable': 'boxes the value, vtable without clone',
    'des::net::message::Message::set_content_non_debugable': 'boxes the value, vtable without debug',
}


def r11_body_presence(ctx):
    """(a) `can_cast::<T>()` is true only for a message that HAS a body of type T — a header-only message casts to nothing (the probe-then-
    cast idiom relies on it); (b) the body of an existing message is replaced by the setters alone: any other writer of `Message.content`
    (a hand-written `clone_from`, a merge, ..) is a place where a stale body can survive or a body can get lost"""
    ctx.set_rule('C16.R11')
    P = ctx.P
    f = ctx.anchor('des::net::message::Message::can_cast')
    if f:
        ok = True
        forms = []
        for _, t in ret_trees(f):
            t = peel(t)
            forms.append(show(t)[:120])
            good = False
            if t[0] == 'call' and str(t[1]).endswith('Option::map_or') and len(t[2]) == 3:
                good = peel(t[2][1]) == ('int', 0)
            elif t[0] == 'call' and str(t[1]).endswith('Option::is_some_and'):
                good = True
            elif t[0] == 'call' and str(t[1]).endswith('Option::unwrap_or') and len(t[2]) == 2:
                good = peel(t[2][1]) == ('int', 0)
            elif t[0] == 'call' and str(t[1]).endswith('Body::is'):
                good = any(x[0] == 'as' and x[2] == 'Some' for x in walk(t))      # `Body::is(payload of content)`: reached only under `is Some`
            elif t == ('int', 0):
                good = True
            ok = ok and good
        if not ok:
            # match / if-let forms: decided per path — `true` is returned only on a path that saw `content is Some`
            ok = True
            n_p = 0
            for path, outcome, decs in fn_paths(ctx, f):
                if outcome != 'return':
                    continue
                n_p += 1
                r = path_ret_resolved(f, path)
                r = peel(r) if r is not None else ('unknown',)
                has_body = any(a[0] == 'is' and a[2] == 'Some' and any(x[0] == 'field' and x[2] == 'content' for x in walk(a[1])) for _, a in path_atoms(f, path, decs))
                if r == ('int', 0) or has_body:
                    continue
                ok = False
            ok = ok and n_p >= 1
        ctx.check(ok and bool(forms), 'can-cast-needs-a-body', 'Message::can_cast::<T>() is false for a message without a body', f.where(), forms[:3])
    n = 0
    for g in P.fn_list:
        if g.kind == 'promoted' or not g.key.startswith(('des::net::message::', '<des::net::message::')):
            continue
        sites = [g.where(b) for (b, i, st) in g.writes_to_field('content') if str(st['p']['pr'][-1].get('adt', '') if st['p']['pr'] else '').endswith('message::Message') or True]
        if not sites:
            continue
        # only writes through a reference to an existing message count (constructors build a new value)
        if not any(str(g.local_ty(k)).startswith('&mut') and 'Message' in str(g.local_ty(k)) for k in range(1, g.argc + 1)):
            continue
        n += 1
        ctx.check((g.root or g.key) in CONTENT_WRITERS, 'content-writer:%s' % (g.root or g.key), 'the body of an existing message is replaced by the setters alone', sites[0],
                  CONTENT_WRITERS.get(g.root or g.key))
    ctx.floor('functions replacing the body of an existing message', n, 1)


def run(ctx):
    r11_body_presence(ctx)
    r9_parts_reassembled(ctx)
    r10_derive_counts_every_field(ctx)
    # (R8) the declared length is what channels charge for, undiminished: transmission time = length*8/bitrate from the unscaled
    # integers (shared with C07.R7 - a narrowing of the bit count there makes a large declared length cheaper than declared)
    from .C07 import r7_busy_formula
    r7_busy_formula(ctx, rule='C16.R8')
    from .C07 import r3_byte_accounting
    r3_byte_accounting(ctx, rule='C16.R8')
    from .C07 import r2_admission
    r2_admission(ctx, rule='C16.R8')   # ... and admitted to a bounded queue by it: accepted iff queued bytes + length <= limit   # ... and queues are charged and un-charged with that very length
    r7_set_content_and_clone(ctx)
    r1_guarded_reinterpretation(ctx)
    r2_vtables(ctx)
    r3_drop_once(ctx)
    r4_length(ctx)
    r5_privacy(ctx)
    r6_generic_measures(ctx)



def _flatten_sum(t):
    t = peel(t)
    if t[0] == 'field' and t[1][0] == 'bin' and t[1][1].startswith('Add') and t[2] == '0':
        return _flatten_sum(t[1][2]) + _flatten_sum(t[1][3])
    if t[0] == 'bin' and t[1].startswith('Add'):
        return _flatten_sum(t[2]) + _flatten_sum(t[3])
    return [t]


def derive_witness(ctx):
    """C16.R6 (thorough): MIR of the byte_len generated by #[derive(MessageBody)] for the witness shapes"""
    from .engine.extract import get_witness_facts, ExtractError
    ctx.set_rule('C16.R6')
    try:
        d = get_witness_facts()
    except ExtractError as e:
        ctx.note('derive witness not analysable: %s' % str(e)[:200])
        return {'derive_witness': 'not analysable'}
    W = Program(d, 'W')
    n = 0
    for f in W.fn_list:
        if f.name != 'byte_len' or f.kind != 'assocfn' or not (f.self_adt or '').startswith('des_witness::derive::'):
            continue
        adt = W.adts.get(strip_generics(f.self_adt))
        if adt is None:
            continue
        variants = {v['n']: [fl['n'] for fl in v['fields']] for v in adt['variants']}
        is_enum = adt['kind'] == 'enum'
        seen = set()
        for path, outcome, decs in f.enum_paths():
            if outcome != 'return':
                continue
            atoms = [a for _, a in path_atoms(f, path, decs)]
            var = next((a[2] for a in atoms if a[0] == 'is'), None) if is_enum else list(variants)[0]
            if var is None:
                var = list(variants)[0] if len(variants) == 1 else None
            seen.add(var)
            terms = _flatten_sum(path_ret(f, path))
            fields = []
            lits = []
            other = []
            for t in terms:
                if t[0] == 'call' and t[1].endswith('byte_len') and t[2]:
                    a = peel(t[2][0])
                    fields.append(a[2] if a[0] == 'field' else '?')
                elif t[0] == 'int':
                    lits.append(t[1])
                else:
                    other.append(show(t))
            want = variants.get(var, None)
            n += 1
            ctx.check(want is not None and sorted(fields) == sorted(want) and all(x == 0 for x in lits) and not other, 'derive:%s::%s' % (f.self_adt.split('::')[-1], var),
                      'derived byte_len of %s::%s is the sum of byte_len over exactly the fields of the active variant' % (f.self_adt.split('::')[-1], var),
                      'witness/src/lib.rs', {'fields_measured': fields, 'fields_declared': want, 'literals': lits, 'other_terms': other})
        missing = set(variants) - seen
        ctx.check(not missing, 'derive-variants:%s' % f.self_adt.split('::')[-1], 'every variant of %s is measured' % f.self_adt.split('::')[-1], 'witness/src/lib.rs', sorted(missing))
    ctx.floor('derived byte_len variants inspected', n, 10)
    return {'derive_witness_variants': n}


def thorough(ctx):
    from .engine.witness import check_witnesses
    res = check_witnesses(ctx, 'C16.R5', ('W3',), ('W3Content', 'W3ContentTwin'))
    out = {'witnesses': res}
    out.update(derive_witness(ctx) or {})
    return out

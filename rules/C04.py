"""C04 — seeded runs are reproducible (structural clauses, DESIGN §4 C04)."""
import re
from .engine.helpers import *

EXPLANATION = (
    "Static analysis of the sources of nondeterminism: (R1) entropy-seeded RNG construction occurs only in Builder::new, "
    "Builder::seeded seeds from its parameter, the global RNG static is written only in Builder::build with the builder's "
    "RNG, and every sampling call in des draws from runtime::rng(); (R2) every tokio runtime built by des gets an rng_seed "
    "derived from runtime::random (select! branch choice); (R3) no unseeded nondeterminism API (wall clock, threads, "
    "environment, RandomState-hashed iteration, pointer-to-integer casts) is used outside runtime::bench and the allocator; "
    "(R4) every static/thread-local of the workspace is in the audited table with its reset point; (R5) values drawn from the "
    "never-reset identity counters never key a hashed collection that is iterated (field/closure-sensitive taint). "
    '(R4 also: the reset point of the global event buffer replaces or empties every one of its fields.) '
    '(R1 also: the global RNG is installed only after the simulation lock was obtained.) '
    '(R3 also: an address is never hashed, ordered or turned into a number outside the allocator.) '
    "(R2 also: callbacks given to the async runtime are run inside the future the seeded runtime drives.) "
    "(R3 also: no public function returns a RandomState-hashed collection; R6) a by-value setter of the runtime builder returns the builder it was given or one whose every field is that builder's or computed from the setter's arguments - the seed survives every other option. "
    "(R1 also: the net layer's process-wide state is attached by buf_init only after the net-statics guard was obtained.) "
    "Decides these necessary conditions only; not equality of two observable traces.")
ASSUMPTIONS = ["tokio's scheduler is deterministic given rng_seed and a current-thread runtime", "StdRng is deterministic given its seed"]

ENTROPY = ('rand::prelude::ThreadRng', 'rand::rngs::ThreadRng', 'rand::rngs::OsRng', 'rand::rng', 'rand::thread_rng', 'rand::random',
           'rand::random_range', 'rand::random_bool', 'rand::random_ratio', 'rand::random_iter', 'rand::fill',
           'rand::SeedableRng::from_os_rng', 'rand::SeedableRng::try_from_os_rng', 'rand::SeedableRng::from_entropy',
           'getrandom::', 'rand::rngs::thread::')
SAMPLING = ('rand::Rng::', 'rand::RngCore::', 'rand_core::RngCore::', 'rand::distr::Distribution::sample', 'rand::seq::')
RNG_STATIC = 'des::runtime::RNG'
RNG_FN = 'des::runtime::rng'


def _is(n, prefixes):
    n = n or ''
    return any(n.startswith(p) or ('<' + p) in n or (' as ' + p) in n or n.startswith('<' + p) for p in prefixes)


def _from_sim_rng(P, f, tree, depth):
    """the RNG value is runtime::rng(), or a parameter that every local caller fills with one (public query
    functions without local callers take the user's RNG: not on the simulation path)"""
    if any(x[0] == 'call' and x[1] == RNG_FN for x in walk(tree)):
        return True
    root = peel(tree)
    while root[0] == 'cast':
        root = peel(root[2])
    if root[0] != 'arg' or depth <= 0:
        return False
    idx = root[1] - 1
    sites = P.call_sites_of(f.key)
    if not sites:
        return f.vis == 'pub'
    return all(_from_sim_rng(P, c.fn, c.fn.expr_operand(c.args[idx], c.b, 'T'), depth - 1) for c in sites)


def r1_one_rng(ctx):
    ctx.set_rule('C04.R1')
    P = ctx.P
    n_entropy = 0
    n_sample = 0
    for f in P.fn_list:
        for s in f.calls():
            n = s.name or ''
            if _is(n, ENTROPY):
                n_entropy += 1
                ctx.check(f.key == 'des::runtime::builder::Builder::new', 'entropy:%s' % f.key,
                          'entropy-seeded randomness (%s) is used only by the unseeded constructor Builder::new' % short(n), s.where(), n)
            if n in ('rand::SeedableRng::seed_from_u64', 'rand::SeedableRng::from_seed', 'rand::SeedableRng::from_rng') and f.key != 'des::runtime::builder::Builder::new':
                t = peel(f.expr_operand(s.args[0], s.b, 'T'))
                ok = f.key == 'des::runtime::builder::Builder::seeded' and t[0] == 'arg'
                ctx.check(ok, 'seed-source:%s' % f.key, 'an RNG is seeded only in Builder::seeded, from the seed parameter', s.where(), show(t))
            if _is(n, SAMPLING) or _is(s.callee, SAMPLING):
                n_sample += 1
                # Rng::x(rng, ..) takes the generator first; Distribution::sample(distr, rng) second
                ri = 1 if ('Distribution::sample' in (s.callee or n) and len(s.args) > 1) else 0
                recv = f.expr_operand(s.args[ri], s.b, 'T') if s.args else ('unknown',)
                src_ok = _from_sim_rng(P, f, recv, 4)
                ctx.touch(f)
                ctx.check(src_ok, 'sample-source:%s' % f.key, 'random draws come from the simulation RNG (runtime::rng())', s.where(), show(recv))
    ctx.floor('entropy canary (ThreadRng in Builder::new)', n_entropy, 1)
    ctx.floor('sampling sites', n_sample, 3)
    # the RNG static
    from .C02 import static_users
    users, writers = static_users(P, RNG_STATIC)
    uk = sorted(f.key for f in users)
    allowed = {RNG_FN, 'des::runtime::builder::Builder::build', 'des::runtime::Runtime::poison_cleanup', '<des::runtime::Runtime as std::ops::Drop>::drop'}
    for k in uk:
        ctx.check(k in allowed, 'rng-static-user:%s' % k, 'the RNG static is touched only by rng(), Builder::build (and runtime clean-up)', P.fns[k].where(), k)
    fb = P.fns.get('des::runtime::builder::Builder::build')
    ok = False
    wb = None
    if fb:
        for b in sorted(fb.reachable()):
            for i, st in enumerate(fb.stmts(b)):
                if st['k'] == 'assign' and st['p']['pr']:
                    dst = fb.expr_place(st['p'], b, i)
                    if any(x == ('static', RNG_STATIC) for x in walk(dst)):
                        v = fb.expr_rvalue(st['r'], b, i)
                        if any(x[0] == 'field' and x[2] == 'rng' for x in walk(v)):
                            ok = True
                            wb = b
    ctx.check(ok, 'rng-installed', "Builder::build installs the builder's own RNG as the global simulation RNG", fb.where() if fb else None)
    if ok:
        # ... while it owns the process-wide simulation lock: a build() on another thread must fail before it can replace the RNG (and
        # the other process-wide state) of a simulation that is running
        locks = [c for c in fb.calls() if c.name.split('::')[-1] in ('try_lock', 'lock') and
                 any(x == ('static', 'des::runtime::builder::SIMULATION_LOCK') for x in walk(fb.expr_operand(c.args[0], c.b, 'T')))]
        ctx.check(bool(locks) and any(fb.dominates(c.b, wb) and c.b != wb for c in locks), 'rng-installed-under-lock',
                  'the global RNG is replaced only after the simulation lock was obtained', fb.where(wb))
    # the net layer's process-wide state (event buffer, module context, globals) is attached by buf_init: only by the holder of the
    # net-statics guard — a Sim::new on another thread must wait before it can wipe the state of a simulation that is running
    bi = P.call_sites_of('des::net::runtime::ctx::buf_init')
    if ctx.floor('sites attaching the net statics (buf_init)', len(bi), 1):
        for s_ in bi:
            g = s_.fn
            lk = [c for c in g.calls() if c.name.split('::')[-1] in ('try_lock', 'lock') and c.args and
                  any(x[0] == 'static' and str(x[1]).endswith('guard::GUARD') for x in walk(g.expr_operand(c.args[0], c.b, 'T')))]
            ctx.check(bool(lk) and any(g.dominates(c.b, s_.b) and c.b != s_.b for c in lk), 'net-statics-attached-under-guard',
                      'the net statics are attached only after the net-statics guard was obtained', s_.where())
    # rng() hands out the static
    fr = P.fns.get(RNG_FN)
    ctx.check(fr is not None and fr in users, 'rng-fn', 'runtime::rng() returns the global simulation RNG', fr.where() if fr else None)
    for nm in ('des::runtime::random', 'des::runtime::sample'):
        g = P.fns.get(nm)
        if g is None:
            ctx.violation('anchor:' + nm, 'unresolved-anchor ' + nm); continue
        ctx.check(any(s.name == RNG_FN for s in g.calls()), 'funnel:%s' % nm, '%s draws from runtime::rng()' % short(nm), g.where())


def r2b_callbacks_in_seeded_context(ctx):
    """select! branch choices made while a handler runs are seeded too: tokio installs a runtime's seeded RNG only inside block_on, so the
    module callback must run inside the future that Harness::exec drives (shared with C06.R1)"""
    ctx.set_rule('C04.R2')
    P = ctx.P
    H_ = 'des::net::runtime::unwind::Harness'
    fe = ctx.anchor(H_ + '::exec')
    if not fe:
        return
    scope = [fe] + P.closures_of(fe)
    bo = [(g, s) for g in scope for s in g.calls() if s.name == 'tokio::task::LocalSet::block_on']
    cb = [(g, s) for g in scope for s in g.calls() if s.callee and s.callee.endswith('FnOnce::call_once')]
    if not (ctx.floor('LocalSet::block_on in Harness::exec', len(bo), 1) and ctx.floor('callback invocation in Harness::exec', len(cb), 1)):
        return
    in_future = False
    for g_bo, s_bo in bo:
        for a_ in s_bo.args:
            t_ = peel(g_bo.expr_operand(a_, s_bo.b, 'T'))
            if t_[0] == 'agg' and str(t_[1]).startswith('closure:'):
                k_ = str(t_[1])[len('closure:'):]
                if any(g_cb.key == k_ or g_cb.key.startswith(k_ + '::') for g_cb, _ in cb):
                    in_future = True
    if not in_future and cb and bo:
        # the future built beforehand (`let turn = async move { f(); .. }`) and handed over by name: the callback is then called in a
        # coroutine body of its own - neither in exec itself nor in the body that calls block_on
        bodies_bo = {g_.key for g_, _ in bo}
        in_future = all(g_cb.kind == 'closure' and g_cb.key not in bodies_bo and g_cb.key != fe.key for g_cb, _ in cb)
    ctx.check(in_future, 'callback-in-seeded-context', 'the module callback runs inside the future driven by block_on (where the seeded runtime context is installed)', fe.where())


def r2_seeded_executors(ctx):
    ctx.set_rule('C04.R2')
    P = ctx.P
    sites = P.call_sites_of('tokio::runtime::Builder::build')
    ctx.floor('tokio runtime builds', len(sites), 2)
    for s in sites:
        f = s.fn
        ctx.touch(f)
        recv = f.expr_operand(s.args[0], s.b, 'T')
        seeds = [x for x in walk(recv) if x[0] == 'call' and x[1] == 'tokio::runtime::Builder::rng_seed']
        ok = False
        detail = show(recv)[:300]
        for sd in seeds:
            arg = sd[2][1]
            fb = [x for x in walk(arg) if x[0] == 'call' and 'from_bytes' in x[1]]
            if fb and any(x[0] == 'call' and x[1] in ('des::runtime::random', 'des::runtime::sample', RNG_FN) for x in walk(fb[0])):
                ok = True
        if not ok:
            # statement form: `builder.rng_seed(seed); .. builder.build()` on the same builder value
            def root_of(t):
                t = peel(t)
                while t[0] == 'call' and t[1].startswith('tokio::runtime::Builder::') and t[2] and not t[1].endswith(('new_current_thread', 'new_multi_thread')):
                    t = peel(t[2][0])
                return canon(t)
            rb = root_of(recv)
            for r in f.calls_to('tokio::runtime::Builder::rng_seed'):
                if not (f.dominates(r.b, s.b) and r.b != s.b):
                    continue
                if root_of(f.expr_operand(r.args[0], r.b, 'T')) != rb:
                    continue
                arg = f.expr_operand(r.args[1], r.b, 'T')
                fb = [x for x in walk(arg) if x[0] == 'call' and 'from_bytes' in x[1]]
                if fb and any(x[0] == 'call' and x[1] in ('des::runtime::random', 'des::runtime::sample', RNG_FN) for x in walk(fb[0])):
                    ok = True
        ctx.check(ok, 'unseeded-runtime:%s' % f.key,
                  'every tokio runtime is built with rng_seed(RngSeed::from_bytes(<draw from the simulation RNG>)) — otherwise select! branch choice differs between runs',
                  s.where(), detail)
    # any other way to obtain a runtime
    for f in P.fn_list:
        for s in f.calls():
            n = s.name or ''
            if n in ('tokio::runtime::Runtime::new', 'tokio::runtime::Builder::new_multi_thread', 'tokio::runtime::Handle::current', 'tokio::runtime::Handle::try_current') :
                ctx.violation('foreign-runtime:%s' % f.key, 'a tokio runtime is obtained without the seeded builder (%s)' % short(n), s.where())


DENY = [
    (re.compile(r'^std::time::(Instant|SystemTime)::(now|elapsed)'), 'wall clock'),
    (re.compile(r'^std::thread::(spawn|scope|Builder::spawn|sleep|current|yield_now)'), 'OS threads'),
    (re.compile(r'^std::env::(var|vars|var_os|args|current_dir|current_exe|temp_dir)'), 'process environment'),
    (re.compile(r'^std::process::id'), 'process id'),
    (re.compile(r'RandomState::new|std::hash::RandomState'), 'randomly keyed hasher'),
    (re.compile(r'^tokio::(task::spawn_blocking|time::)'), 'real-time / threaded tokio API'),
]
ALLOW_MODULES = {
    'des::runtime::bench::': 'profiler: wall-clock statistics only, never fed back into the simulation',
}
ITER_METHODS = ('iter', 'keys', 'values', 'into_iter', 'drain', 'iter_mut', 'values_mut', 'into_keys', 'into_values', 'retain', 'extract_if')


def _flows_only_into_profile(f, s, depth=3):
    """the value produced by the wall-clock call `s` is only stored in a field of a type of an allow-listed module (the profiler's
    statistics record) — possibly after further wall-clock arithmetic (`now - start`): it never reaches simulation state"""
    d = s.dest
    if d['pr']:
        fl = [e for e in d['pr'] if e['k'] == 'field']
        return bool(fl) and any(str(fl[-1].get('adt', '')).startswith(m) for m in ALLOW_MODULES)
    work = [d['l']]
    seen = set()
    n_store = 0
    while work:
        l = work.pop()
        if l in seen:
            continue
        seen.add(l)
        for b in sorted(f.reachable()):
            for st in f.stmts(b):
                if st['k'] != 'assign':
                    continue
                r = st['r']
                ops = ([r['o']] if r.get('o') else []) + [r[x] for x in ('a', 'b') if isinstance(r.get(x), dict)] + list(r.get('ops', []))
                used = any(isinstance(o, dict) and o.get('k') in ('copy', 'move') and o['p']['l'] == l for o in ops) or \
                    (r['k'] in ('ref', 'rawptr') and r['p']['l'] == l)
                if not used:
                    continue
                fl = [e for e in st['p']['pr'] if e['k'] == 'field']
                if fl and any(str(fl[-1].get('adt', '')).startswith(m) for m in ALLOW_MODULES):
                    n_store += 1
                elif not st['p']['pr'] and (r['k'] in ('use', 'ref')):
                    work.append(st['p']['l'])      # a temporary / a borrow handed to the next wall-clock operation
                else:
                    return False
            t = f.term(b)
            if t['k'] == 'call' and any(a.get('k') in ('copy', 'move') and a['p']['l'] == l for a in t['args']):
                nme = strip_generics(t.get('res') or t.get('callee') or '')
                clock_op = nme.startswith(('std::time::Instant::', '<std::time::Instant as ', 'std::time::Duration::', '<std::time::Duration as '))
                if not clock_op or depth <= 0:
                    return False
                if t['dest']['pr']:
                    fl = [e for e in t['dest']['pr'] if e['k'] == 'field']
                    if not (fl and any(str(fl[-1].get('adt', '')).startswith(m) for m in ALLOW_MODULES)):
                        return False
                    n_store += 1
                else:
                    work.append(t['dest']['l'])
            if t['k'] == 'switch' and t['d'].get('k') in ('copy', 'move') and t['d']['p']['l'] == l:
                return False
    return n_store >= 1


def _default_hashed(ty):
    """the type is (a reference to) a std HashMap / HashSet with the default, randomly keyed hasher: `RandomState` spelled out, or — as
    rustc prints defaulted parameters — HashSet<T> with one / HashMap<K, V> with two type arguments"""
    if 'RandomState' in ty:
        return True
    t = re.sub(r"^&\s*('[a-z_]+\s+)?(mut\s+)?", '', ty)
    for head, n_default in (('std::collections::HashSet<', 1), ('std::collections::HashMap<', 2)):
        if t.startswith(head) and t.endswith('>'):
            inner = t[len(head):-1]
            depth = 0
            parts = 1
            for ch in inner:
                if ch in '<([':
                    depth += 1
                elif ch in '>)]':
                    depth -= 1
                elif ch == ',' and depth == 0:
                    parts += 1
            return parts == n_default
    return False


def r3_forbidden_sources(ctx):
    ctx.set_rule('C04.R3')
    P = ctx.P
    n = 0
    canary = 0
    for f in P.fn_list:
        if f.crate == 'des_macros_core':
            continue
        allowed = next((why for m, why in ALLOW_MODULES.items() if f.key.startswith(m) or ('<' + m) in f.key or f.key.startswith('<' + m)), None)
        for s in f.calls():
            nme = s.name or ''
            n += 1
            for rx, what in DENY:
                if rx.search(nme):
                    if allowed:
                        canary += 1
                        ctx.ok('allowed use of %s in %s (%s)' % (what, short(f.key), allowed), s.where(), nme)
                    elif what == 'wall clock' and _flows_only_into_profile(f, s):
                        canary += 1
                        ctx.ok('wall-clock value in %s flows only into the profiler record (%s)' % (short(f.key), list(ALLOW_MODULES.values())[0]), s.where(), nme)
                    else:
                        ctx.violation('forbidden:%s:%s' % (f.key, nme.split('::')[-1]), '%s (%s) reachable in simulation code — a source of run-to-run nondeterminism' % (what, nme), s.where())
            # an address fed to a hasher / compared for order: the value differs from process to process (and between two runs in one
            # process), and with it the iteration order of every hashed collection keyed by such a handle
            if s.argtys and nme.split('::')[-1] in ('hash', 'hash_slice', 'cmp', 'partial_cmp', 'addr', 'expose_provenance') and \
                    s.argtys[0].lstrip('&').startswith(('*const ', '*mut ', 'std::ptr::NonNull<')) and \
                    not (f.key.startswith('des_cqueue::stable::alloc::') or f.key.startswith('<des_cqueue::stable::alloc::')):
                ctx.violation('address-as-value:%s' % f.key, 'an address is hashed / ordered / turned into a number (address-dependent value)', s.where(), nme)
            if s.argtys and (_default_hashed(s.argtys[0])) and nme.split('::')[-1] in ITER_METHODS and not f.key.split('::')[-1] in ('eq', 'clone', 'fmt'):
                ctx.violation('hash-iteration:%s' % f.key, 'iteration over a RandomState-hashed collection (order differs between processes)', s.where(), s.argtys[0][:160])
        # pointer -> integer casts outside the allocator
        if f.key.startswith('des_cqueue::stable::alloc::') or f.key.startswith('<des_cqueue::stable::alloc::'):
            continue
        for b in sorted(f.reachable()):
            for st in f.stmts(b):
                if st['k'] == 'assign' and st['r']['k'] == 'cast' and st['r']['ck'] == 'PointerExposeProvenance' and not st.get('exp'):
                    ctx.violation('ptr-to-int:%s' % f.key, 'pointer-to-integer cast outside the allocator (address-dependent value)', f.where(b))
    # a collection handed to the user is iterated by the user: no public function of the simulation crates returns (or yields through a
    # reference) a std HashMap / HashSet with the default, randomly keyed hasher — the routing tables are FxHashMaps for that reason
    n_pub = 0
    for f in P.fn_list:
        if f.kind not in ('fn', 'assocfn') or f.vis != 'pub' or not f.key.startswith(('des::', '<des::', 'des_net_utils::', '<des_net_utils::')) or '::bench' in f.key:
            continue
        n_pub += 1
        rt = str(f.local_ty(0))
        inner = re.sub(r'^(std::option::Option|std::result::Result|std::boxed::Box|std::sync::Arc|std::rc::Rc)<', '', rt)
        if _default_hashed(rt) or _default_hashed(inner.rstrip('>')) or 'RandomState' in rt:
            ctx.violation('hash-order-handed-out:%s' % f.key, 'a public function returns a RandomState-hashed collection (its iteration order differs from run to run)', f.where(), rt[:160])
    ctx.floor('public functions whose result type was inspected', n_pub, 100)
    ctx.floor('canary: wall-clock uses in runtime::bench (matcher alive)', canary, 2)
    ctx.ok('no forbidden nondeterminism API among %d call sites outside the allow-listed modules' % n)


# every static / thread-local of the workspace, with its reset point or the reason none is needed
STATICS = {
    'des::runtime::builder::SIMULATION_LOCK': ('lock', None, 'serialises simulations in one process; carries no data'),
    'des::runtime::RNG': ('reset', 'des::runtime::builder::Builder::build', 'replaced for every runtime'),
    'des::time::SIMTIME': ('reset', 'des::time::SimTime::set_now', 'set to the start time by Builder::build (C02.R3)'),
    'des::time::driver::TIME_CTX': ('reset', 'des::time::driver::Driver::unset', 'installed/removed around every module event'),
    'des::time::sleep::SLEEP_ID': ('identity', None, 'identity-only counter: ids are compared for equality, never ordered across runs'),
    'des::net::runtime::ctx::BUF_CTX': ('reset', 'des::net::runtime::ctx::buf_drop', 'cleared when the simulation is dropped'),
    'des::net::runtime::guard::GUARD': ('lock', None, 'serialises Sim construction; carries no data'),
    'des::net::module::ctx::MOD_CTX': ('reset', 'des::net::runtime::ctx::buf_init', 'reset at Sim construction'),
    'des::net::module::MODULE_ID': ('identity', None, 'identity-only counter: module ids are compared for equality only'),
    'des::tracing::SCOPE_CURRENT_TOKEN': ('tracing', None, 'log scoping only'),
    'des::tracing::SCOPE_TOKEN_NEXT': ('tracing', None, 'log scoping only'),
    'des::tracing::SCOPES': ('tracing', None, 'log scoping only'),
}


def r4_static_inventory(ctx):
    ctx.set_rule('C04.R4')
    P = ctx.P
    seen = set()
    for s in P.statics:
        p = strip_generics(s['path'])
        if '__CALLSITE' in p or '__RUST_STD_INTERNAL_VAL' in p:
            continue  # tracing call-site metadata / thread_local! internals (macro generated)
        seen.add(p)
        ent = STATICS.get(p)
        ctx.check(ent is not None, 'untabled-static:%s' % p,
                  'static %s: %s is in the audited table of process-global state (a new static must be given a reset point or a justification)' % (p, s['ty'][:80]),
                  '%s:%s' % (s['file'], s['line']), ent[2] if ent else None)
    ctx.floor('statics in the workspace', len(seen), 12)
    from .C02 import static_users
    for p, (kind, reset_fn, why) in STATICS.items():
        if kind != 'reset' or p not in seen:
            continue
        f = P.fns.get(reset_fn)
        if f is None:
            ctx.violation('reset-missing:%s' % p, 'reset point %s of static %s no longer exists' % (reset_fn, p)); continue
        users, _ = static_users(P, p)
        ctx.check(f in users, 'reset-touches:%s' % p, 'the reset point %s still operates on %s' % (short(reset_fn), p.split('::')[-1]), f.where())
    # the event buffer's reset is complete: dropping a simulation leaves nothing of it in the process-global buffer (events buffered by
    # at_sim_end handlers are never flushed and would otherwise be scheduled into the NEXT simulation of the process)
    fb = P.fns.get('des::net::runtime::ctx::buf_drop')
    if fb is not None:
        whole = False
        for b in sorted(fb.reachable()):
            for i, st in enumerate(fb.stmts(b)):
                if st['k'] == 'assign' and st['p']['pr'] and st['p']['pr'][-1]['k'] == 'deref' and len(st['p']['pr']) == 1 \
                        and 'BufferContext' in fb.local_ty(st['p']['l']):
                    v = peel(fb.expr_rvalue(st['r'], b, i))
                    if (v[0] == 'call' and v[1].endswith('BufferContext::new')) or (v[0] == 'agg' and 'BufferContext' in str(v[1])) or v[0] == 'constdef':
                        whole = True
        for c in fb.calls():
            # `mem::replace(&mut *ctx, BufferContext::new())` / `mem::take(&mut *ctx)`
            if c.name in ('std::mem::replace', 'std::mem::take') and c.argtys and c.argtys[0].replace(' ', '').endswith('mutdes::net::runtime::ctx::BufferContext'):
                whole = True
        from .C03 import _buffer_container_types
        conts = _buffer_container_types(P)
        emptied = any(c.name.split('::')[-1] in ('clear', 'drain', 'take', 'truncate') and c.argtys and
                      any(re.sub(r"^&\s*('[a-z_]+\s+)?(mut\s+)?", '', c.argtys[0]) == t_ for t_ in conts) for c in fb.calls()) or \
            any(c.name in ('std::mem::take', 'std::mem::replace') and c.args and any(x[0] == 'field' and x[2] == 'events' for x in walk(fb.expr_operand(c.args[0], c.b, 'T'))) for c in fb.calls())
        ctx.check(whole or emptied, 'reset-complete:des::net::runtime::ctx::BUF_CTX',
                  'buf_drop resets the whole buffer context (or at least empties the buffered events): no event of a finished simulation survives into the next one', fb.where())
    # reset points are still called from where they must be
    need = [
        ('des::net::runtime::ctx::buf_drop', ('<des::net::runtime::guard::SimStaticsGuard as std::ops::Drop>::drop',)),
        ('des::net::runtime::ctx::buf_init', ('des::net::runtime::guard::SimStaticsGuard::new',)),
        ('des::time::driver::Driver::unset', ('des::net::module::refs::ModuleRef::deactivate',)),
    ]
    for callee, callers in need:
        cs = {s.fn.key for s in P.call_sites_of(callee)}
        for c in callers:
            ctx.check(any(k == c or k.startswith(c + '::{closure') for k in cs), 'reset-call:%s' % callee, '%s is called from %s' % (short(callee), short(c)), None, sorted(cs))


ITERATE = ('iter', 'values', 'keys', 'into_iter', 'into_values', 'into_keys', 'drain', 'iter_mut', 'values_mut', 'retain', 'extract_if')
HASHED = ('std::collections::HashMap', 'std::collections::HashSet', 'hashbrown::', 'indexmap::')


def r5_identity_counters(ctx):
    """values drawn from never-reset identity counters may be compared for equality but must not decide an iteration order"""
    ctx.set_rule('C04.R5')
    P = ctx.P
    ident = [p for p, (kind, _, _) in STATICS.items() if kind == 'identity']
    # --- field-sensitive taint, fixpoint over the whole program
    t_fields, t_params, t_rets = set(), set(), set()

    PASS = ('clone', 'into', 'from', 'deref', 'deref_mut', 'borrow', 'as_ref', 'to_owned', 'unwrap', 'expect', 'copied', 'cloned', 'get', 'load')

    def tainted(f, t, depth=0):
        """the VALUE is derived from an identity counter (not merely a structure that contains one somewhere)"""
        if depth > 40 or not isinstance(t, tuple) or not t:
            return False
        k = t[0]
        if k == 'call':
            last = t[1].split('::')[-1]
            if last in ('fetch_add', 'fetch_sub') and any(y[0] == 'static' and y[1] in ident for a in t[2] for y in walk(a)):
                return True
            if t[1] in t_rets:
                return True
            if last in PASS and t[2]:
                return tainted(f, t[2][0], depth + 1)
            return False
        if k == 'field':
            if (strip_generics(t[3]), t[2]) in t_fields:
                return True
            # projection out of a tuple / Option payload keeps the taint of the aggregate
            if t[2].isdigit() and t[3] in ('(tuple)', ''):
                return tainted(f, t[1], depth + 1)
            return False
        if k in ('ref', 'rawref', 'deref', 'as'):
            return tainted(f, t[1], depth + 1)
        if k == 'cast':
            return tainted(f, t[2], depth + 1)
        if k == 'bin':
            return tainted(f, t[2], depth + 1) or tainted(f, t[3], depth + 1)
        if k == 'un':
            return tainted(f, t[2], depth + 1)
        if k == 'agg':
            # newtype wrappers (single field) and Some(x) carry the taint of their content
            return len(t[2]) == 1 and tainted(f, t[2][0], depth + 1)
        if k == 'phi':
            return any(tainted(f, x, depth + 1) for x in t[1])
        if k == 'upd':
            return tainted(f, t[1], depth + 1)
        if k == 'arg':
            return (f.key, t[1]) in t_params
        return False

    fns = [f for f in P.fn_list if f.crate in ('des', 'des_net_utils') and f.kind != 'promoted']
    changed = True
    rounds = 0
    while changed and rounds < 8:
        changed = False
        rounds += 1
        for f in fns:
            for b in sorted(f.reachable()):
                for i, st in enumerate(f.stmts(b)):
                    if st['k'] != 'assign':
                        continue
                    r = st['r']
                    if r['k'] == 'agg' and r.get('ak') == 'closure':
                        for idx, op in enumerate(r['ops']):
                            if tainted(f, f.expr_operand(op, b, i)):
                                k = (strip_generics(r['def']), str(idx))
                                if k not in t_fields:
                                    t_fields.add(k); changed = True
                    if r['k'] == 'agg' and r.get('ak') == 'adt':
                        for name, op in zip(r.get('fields', []), r['ops']):
                            if tainted(f, f.expr_operand(op, b, i)):
                                k = (strip_generics(r['adt']), name)
                                if k not in t_fields:
                                    t_fields.add(k); changed = True
                    fl = [e for e in st['p']['pr'] if e['k'] == 'field']
                    if fl and tainted(f, f.expr_rvalue(r, b, i)):
                        k = (strip_generics(fl[-1].get('adt', '')), fl[-1].get('n', ''))
                        if k not in t_fields:
                            t_fields.add(k); changed = True
            for s in f.calls():
                if s.name in P.fns:
                    for idx, a in enumerate(s.args):
                        if tainted(f, f.expr_operand(a, s.b, 'T')):
                            k = (s.name, idx + 1)
                            if k not in t_params:
                                t_params.add(k); changed = True
            if f.key not in t_rets:
                for b, t in ret_trees(f):
                    if tainted(f, t):
                        t_rets.add(f.key); changed = True
                        break
    ctx.floor('fields carrying identity-counter values', len(t_fields), 2)
    # --- sinks: tainted key inserted into a hashed collection that is iterated somewhere
    def coll_id(f, s):
        """identity of the collection a method is called on: the field it lives in, or (function, local) for a local variable"""
        fld = receiver_field(f.expr_operand(s.args[0], s.b, 'T'))
        if fld is not None:
            return fld
        op = s.args[0]
        from .engine.helpers import _chase_local
        for _ in range(6):
            if op.get('k') not in ('copy', 'move'):
                return None
            l = op['p']['l']
            ds = [d for d in f._defs() if d[0] == l and not d[3]]
            if len(ds) == 1 and ds[0][2] != 'T':
                st = f.stmts(ds[0][1])[ds[0][2]]
                r = st['r']
                if r['k'] in ('ref', 'rawptr') and not [e for e in r['p']['pr'] if e['k'] != 'deref']:
                    if not r['p']['pr']:
                        return ('local', f.key, r['p']['l'])
                    op = {'k': 'copy', 'p': {'l': r['p']['l'], 'pr': []}}
                    continue
                if r['k'] == 'use':
                    op = r['o']
                    continue
            return ('local', f.key, l) if f.local_name(l) != '_%d' % l else None
        return None
    keyed = {}   # collection field -> insertion site
    for f in fns:
        for s in f.calls():
            if any(s.name.startswith(h) for h in HASHED) and s.name.split('::')[-1] in ('insert', 'entry', 'get_or_insert_with') and len(s.args) > 1:
                if tainted(f, f.expr_operand(s.args[1], s.b, 'T')):
                    fld = coll_id(f, s)
                    if fld is not None:
                        keyed[fld] = s
    n_iter = 0
    for f in fns:
        for s in f.calls():
            if s.args and s.name.split('::')[-1] in ITERATE and (any(s.name.startswith(h) for h in HASHED) or (s.argtys and any(h.split('::')[-1] in s.argtys[0] for h in ('HashMap', 'HashSet')))):
                n_iter += 1
                fld = coll_id(f, s)
                if fld is not None and fld in keyed:
                    ctx.violation('identity-keyed-iteration:%s' % (fld if isinstance(fld, str) else '%s:%s' % (short(fld[1]), f.local_name(fld[2]))),
                                  'the hashed collection `%s` is keyed by a value drawn from a never-reset identity counter and is iterated here: the iteration order then depends on how many ids earlier simulations in this process consumed' % fld,
                                  s.where(), {'key_inserted_at': keyed[fld].where()})
    ctx.ok('no hashed collection keyed by an identity-counter value is iterated (%d tainted fields, %d hashed insertions with tainted keys, %d iterations of hashed collections examined)'
           % (len(t_fields), len(keyed), n_iter), None, sorted('%s.%s' % (a.split('::')[-1], b) for a, b in t_fields)[:12])


def r6_builder_keeps_seed(ctx, rule='C04.R6', B='des::runtime::builder::Builder', floor_n=4):
    """the seed given to `Builder::seeded` survives every other option: a by-value setter of the runtime builder returns the builder it
    was given, or a builder whose every field is that builder's field or computed from the setter's own arguments — never a default"""
    ctx.set_rule(rule)
    P = ctx.P
    n = 0
    for k, f in sorted(P.fns.items()):
        if not k.startswith(B + '::') or f.kind not in ('fn', 'assocfn') or f.argc < 1:
            continue
        if strip_generics(str(f.local_ty(1))) != B or strip_generics(str(f.local_ty(0))) != B:
            continue
        ctx.touch(f)
        n += 1
        for b, t in ret_trees(f):
            t = peel(t)
            # `self.limit(..)`: delegation to another by-value setter of the builder (examined on its own), self handed on
            while t[0] == 'call' and strip_generics(str(t[1])).startswith(B + '::') and t[2] and strip_generics(str(P.fns[strip_generics(str(t[1]))].local_ty(1)) if strip_generics(str(t[1])) in P.fns else '') == B:
                t = peel(t[2][0])
            if t[0] == 'arg' and t[1] == 1:
                continue
            bad = None
            if t[0] == 'agg' and str(t[1]).replace('adt:', '').startswith(B + '::') and len(t) > 3:
                for name, comp in zip(t[3], t[2]):
                    from_self = any(x[0] == 'field' and x[2] == name and peel(x[1])[0] == 'arg' and peel(x[1])[1] == 1 for x in walk(comp))
                    from_args = any(x[0] == 'arg' and x[1] != 1 for x in walk(comp))
                    literal = peel(comp)[0] in ('int', 'const', 'bool', 'str', 'float')     # `quiet: true` — the option itself, set to a constant
                    if not (from_self or from_args or literal):
                        bad = (name, show(comp)[:80])
                        break
            else:
                bad = ('?', show(t)[:120])
            ctx.check(bad is None, 'setter-keeps-other-options:%s' % k.split('::')[-1], 'a builder option leaves every other option (the RNG seed among them) as it was',
                      f.where(b), bad)
    ctx.floor('by-value setters of %s' % B.split('::')[-1], n, floor_n)


def run(ctx):
    r6_builder_keeps_seed(ctx)
    r5_identity_counters(ctx)
    r1_one_rng(ctx)
    r2_seeded_executors(ctx)
    r2b_callbacks_in_seeded_context(ctx)
    r3_forbidden_sources(ctx)
    r4_static_inventory(ctx)

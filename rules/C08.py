"""C08 — gate chains deliver to the far end (structural clauses, DESIGN §4 C08)."""
from .engine.helpers import *
import re
from .C07 import _implicit_message_drops, _consumers, SINK_ADD

EXPLANATION = (
    "Static analysis of des::net::gate and the gate walk: (R1) Gate::connect cross-wires the two slot tables: the connection "
    "stored in X's table points to the other gate E with endpoint_id = number of occupied slots of E's table, and the two "
    "directions get distinct channel instances (one is a dup); (R2) next_hop reads the complementary slot (literal permutation "
    "[1,0] indexed by endpoint_id); (R3) the virtual entry connection uses slot 1 while put fills slot 0 first; (R4) self-connection "
    "assert, already-connected early return before any mutation, both puts dominated by len < 2 on both tables; (R5) the walk "
    "consumes the message exactly once on every path (inactive-owner drop / channel hand-over / final HandleMessageEvent for the "
    "owner of the last gate at now); (R6) sender id stamped on every send path, receiver id stamped before the handler; (R7) a "
    "send is delayed iff send_time > now. "
    '(R5 also: the gate whose owner receives the message is the gate the walk last entered; R7 also: sending on a gate handle (GateRef / GateRefWeak) sends on exactly that gate.) '
    '(R8) Gate::path_iter hands out the unbounded hop-by-hop walker (no take/filter, no hop counter). '
    "(R4 also: the already-connected return writes nothing; R9, shared with C07.R4: the idle path of a hop's channel.) "
    "(R10) the channel a hop is charged on is the channel of the connection the walk takes. "
    '(R11, shared with C09.R2) a message in transit is dropped only for the module whose gate it is at; R12, shared with C09.R3: a message sent by the handler that requests a shutdown still leaves. '
    "Decides these necessary conditions only; not arrival-time sums over all chain shapes.")
ASSUMPTIONS = ["gates are only wired through Gate::connect (slot table private)"]

G = 'des::net::gate::'
MSG = 'des::net::message::Message'


def _root_arg(t):
    """name of the argument a tree is rooted in (through clones, derefs, locks, fields)"""
    for x in walk(t):
        if x[0] == 'arg':
            return x[-1]
    return None


def r1_cross_wiring(ctx, rule='C08.R1'):
    ctx.set_rule(rule)
    f = ctx.anchor(G + 'Gate::connect')
    if not f:
        return
    puts = f.calls_to(G + 'Connections::put')
    if not ctx.floor('Connections::put in Gate::connect', len(puts), 2):
        return
    chans = []
    for s in puts:
        table_of = _root_arg(f.expr_operand(s.args[0], s.b, 'T'))
        conn = peel(f.expr_operand(s.args[1], s.b, 'T'))
        ok = conn[0] == 'agg' and conn[1].endswith('Connection::Connection')
        if not ctx.check(ok, 'put-arg', 'Connections::put receives a freshly built Connection', s.where(), show(conn)[:200]):
            continue
        fields = dict(zip(conn[3], conn[2]))
        ep = _root_arg(fields['endpoint'])
        pid = peel(fields['endpoint_id'])
        pid_ok = pid[0] == 'call' and pid[1] == G + 'Connections::len' and _root_arg(pid) == ep
        ctx.check(ep is not None and table_of is not None and ep != table_of and pid_ok, 'cross-wiring',
                  "the connection stored in %s's table points to the other gate (%s) and records the slot it occupies in THAT gate's table "
                  '(swapping the two indices misroutes on chains built in mixed order)' % (table_of, ep), s.where(),
                  {'table': table_of, 'endpoint': ep, 'endpoint_id': show(pid)})
        # len() taken before either put
        if pid_ok:
            ctx.check(all(pid[3] != p.b and f.dominates(pid[3], p.b) for p in puts), 'len-before-put', 'slot positions are read before either table is modified', s.where())
        chans.append(fields['channel'])
    if len(chans) == 2:
        c0, c1 = canon(chans[0]), canon(chans[1])
        def has_dup(c):
            if any(x[0] in ('call', 'fnitem') and x[1] == 'des::net::channel::Channel::dup' for x in walk(c)):
                return True
            for x in walk(c):
                if x[0] == 'agg' and x[1].startswith('closure:'):
                    g = ctx.P.fns.get(x[1][len('closure:'):])
                    if g and g.calls_to('des::net::channel::Channel::dup'):
                        return True
            return False
        dup = [has_dup(c) for c in chans]
        ctx.check(c0 != c1 and (dup[0] != dup[1]), 'distinct-direction-channels',
                  'the two directions of a hop get distinct channel instances (one direction is a fresh dup): a shared instance would make traffic in one direction delay or drop the other',
                  puts[0].where(), {'ch_a': show(chans[0])[:160], 'ch_b': show(chans[1])[:160]})


def r2_next_hop(ctx):
    ctx.set_rule('C08.R2')
    f = ctx.anchor(G + 'Connection::next_hop')
    if not f:
        return
    # the value returned: clone(lock.connections[idx]) with idx = [1,0][self.endpoint_id]
    ok = False
    detail = None
    for b, t in ret_trees(f):
        for x in walk(t):
            if x[0] == 'index':
                idx = peel(x[2])
                if idx[0] == 'index':
                    arr, sel = peel(idx[1]), peel(idx[2])
                    detail = {'table': show(arr), 'selector': show(sel)}
                    if arr[0] == 'agg' and arr[1] == 'array' and [a for a in arr[2]] == [('int', 1), ('int', 0)] and sel[0] == 'field' and sel[2] == 'endpoint_id':
                        base = x[1]
                        if any(y[0] == 'field' and y[2] == 'connections' for y in walk(base)):
                            ok = True
    ctx.check(ok, 'complement-table', 'next_hop reads the slot complementary to the one the connection came in through ([1,0][endpoint_id])', f.where(), detail)
    g = ctx.anchor(G + 'Connection::prev_hop')
    if g:
        ok2 = False
        for b, t in ret_trees(g):
            for x in walk(t):
                if x[0] == 'index' and peel(x[2])[0] == 'field' and peel(x[2])[2] == 'endpoint_id':
                    ok2 = True
        ctx.check(ok2, 'prev-hop-slot', 'prev_hop reads the slot the connection came in through', g.where())


def r3_entry_slot(ctx):
    ctx.set_rule('C08.R3')
    f = ctx.anchor(G + 'Connection::new_unchecked')
    p = ctx.anchor(G + 'Connections::put')
    if not (f and p):
        return
    entry = None
    for b, t in ret_trees(f):
        t = peel(t)
        if t[0] == 'agg' and 'endpoint_id' in t[3]:
            v = t[2][t[3].index('endpoint_id')]
            if v[0] == 'int':
                entry = v[1]
    # put: first slot tried
    first = None
    for s in p.calls():
        if s.name.endswith('::into_iter') or 'Range' in s.name:
            for a in s.args:
                t = peel(p.expr_operand(a, s.b, 'T'))
                if t[0] == 'agg' and 'Range' in t[1] and t[2] and t[2][0][0] == 'int':
                    first = t[2][0][1]
    stores = [(b, i) for (b, i, st) in [(b, i, st) for b in sorted(p.reachable()) for i, st in enumerate(p.stmts(b))]
              if st['k'] == 'assign' and any(e['k'] == 'index' for e in st['p']['pr'])]
    guarded = all(any(a[0] == 'bool' and a[1][0] == 'call' and a[1][1].endswith('::is_none') and a[2] is True for _, a in p.guard_atoms(b)) for b, i in stores)
    if first is None:
        # equivalent form: `i = connections.iter().position(Option::is_none)` (first free index, front to back) and a store at [i]
        for s in p.calls():
            if s.callee != 'std::iter::Iterator::position' or len(s.args) != 2:
                continue
            it = peel(p.expr_operand(s.args[0], s.b, 'T'))
            pr = peel(p.expr_operand(s.args[1], s.b, 'T'))
            fwd = it[0] == 'call' and it[1].endswith(('slice::iter', 'slice::iter_mut')) and receiver_field(it[2][0]) == 'connections'
            pred = pr[0] == 'fnitem' and pr[1].endswith('Option::is_none')
            if pr[0] == 'agg' and str(pr[1]).startswith('closure:'):
                g = ctx.P.fns.get(pr[1][len('closure:'):])
                rts = [peel(t) for _, t in ret_trees(g)] if g else []
                pred = bool(rts) and all(t[0] == 'call' and t[1].endswith('Option::is_none') for t in rts)
            if fwd and pred:
                idx_stores = []
                for b in sorted(p.reachable()):
                    for i, st in enumerate(p.stmts(b)):
                        if st['k'] == 'assign' and any(e['k'] == 'index' for e in st['p']['pr']):
                            ixl = [e['l'] for e in st['p']['pr'] if e['k'] == 'index'][0]
                            if any(x[0] == 'call' and x[1].endswith('::position') for x in walk(p.expr_local(ixl, b, i))):
                                idx_stores.append((b, i))
                if idx_stores:
                    first = 0
                    stores = idx_stores
                    guarded = True
    if first is None:
        # equivalent form: `connections.iter_mut().find(|slot| slot.is_none())` and a store through the found slot
        for s in p.calls():
            if s.callee != 'std::iter::Iterator::find' or len(s.args) != 2:
                continue
            it = peel(p.expr_operand(s.args[0], s.b, 'T'))
            cl = peel(p.expr_operand(s.args[1], s.b, 'T'))
            fwd = it[0] == 'call' and it[1].endswith('slice::iter_mut') and receiver_field(it[2][0]) == 'connections'
            pred = False
            if cl[0] == 'agg' and str(cl[1]).startswith('closure:'):
                g = ctx.P.fns.get(cl[1][len('closure:'):])
                rts = [peel(t) for _, t in ret_trees(g)] if g else []
                pred = bool(rts) and all(t[0] == 'call' and t[1].endswith('Option::is_none') and any(x[0] == 'arg' and x[1] == 2 for x in walk(t)) for t in rts)
            if fwd and pred:
                first = 0
                stores = []
                for b in sorted(p.reachable()):
                    for i, st in enumerate(p.stmts(b)):
                        if st['k'] == 'assign' and st['p']['pr'] and st['p']['pr'][0]['k'] == 'deref' and len(st['p']['pr']) == 1:
                            base = p.expr_local(st['p']['l'], b, i)
                            if any(x[0] == 'call' and x[1].endswith('::find') and 'Iterator' in x[1] for x in walk(base)):
                                stores.append((b, i))
                guarded = bool(stores)
    ctx.check(entry == 1 and first == 0 and stores and guarded, 'entry-vs-first-slot',
              'the virtual entry connection uses slot 1 while put fills the first free slot starting at 0 (so next_hop of an endpoint finds its only peer)',
              f.where(), {'entry_slot': entry, 'first_filled': first, 'stores_guarded_by_is_none': guarded})


def _peer_test(P, t):
    """is the (canonical) boolean tree a test "this table already holds a connection to that gate"?  Either
    Arc::ptr_eq(<con>.endpoint, g) or a search (`any`) over the table with a closure returning such a ptr_eq"""
    if t[0] != 'call':
        return False
    if t[1].endswith('Arc::ptr_eq'):
        return any(x[0] == 'field' and x[2] == 'endpoint' for x in walk(t))
    is_search = t[1].endswith('::any') and 'Iterator' in t[1]
    # per-slot form: `slot.as_ref().is_some_and(|con| Arc::ptr_eq(&con.endpoint, &other))` / `.map_or(false, |con| ..)`
    is_slot = t[1] in ('std::option::Option::is_some_and',) or (t[1] == 'std::option::Option::map_or' and len(t[2]) == 3 and peel(t[2][1]) == ('int', 0))
    if is_search or is_slot:
        for a in t[2][1:]:
            a = peel(a)
            if a[0] == 'agg' and str(a[1]).startswith('closure:'):
                g = P.fns.get(a[1][len('closure:'):])
                rts = [peel(x) for _, x in ret_trees(g)] if g else []
                if rts and all(x[0] == 'call' and x[1].endswith('Arc::ptr_eq') and any(y[0] == 'field' and y[2] == 'endpoint' for y in walk(x)) for x in rts):
                    return True
    return False


def r4_peers(ctx, rule='C08.R4'):
    ctx.set_rule(rule)
    f = ctx.anchor(G + 'Gate::connect')
    if not f:
        return
    puts = f.calls_to(G + 'Connections::put')
    # self connection assert
    selfchk = False
    for path, outcome, decs in fn_paths(ctx, f):
        if outcome == 'panic':
            for _, a in path_atoms(f, path, decs):
                if a[0] == 'bool' and a[1][0] == 'call' and a[1][1].endswith('Arc::ptr_eq') and a[2] is True:
                    args = a[1][2]
                    if {_root_arg(args[0]), _root_arg(args[1])} == {'self', 'other'}:
                        selfchk = True
    ctx.check(selfchk, 'self-connection-rejected', 'connecting a gate to itself panics', f.where())
    # idempotence: an early return guarded by ptr_eq(con.endpoint, other) precedes every mutation
    early = False
    for path, outcome, decs in fn_paths(ctx, f):
        if outcome != 'return':
            continue
        effs = path_effects(f, path)
        nput = sum(1 for e in effs if e[0] == 'c' and e[1].name == G + 'Connections::put')
        atoms = [a for _, a in path_atoms(f, path, decs)]
        same = any(a[0] == 'bool' and a[2] is True and _peer_test(ctx.P, a[1]) for a in atoms)
        if same:
            early = True
            stores = sorted({e[2] for e in effs if e[0] == 'w'} | {e[1].name.split('::')[-1] for e in effs if e[0] == 'c' and e[1].name.split('::')[-1] in ('replace', 'insert', 'get_or_insert', 'get_or_insert_with', 'take', 'swap') and ('option::Option' in e[1].name or e[1].name.startswith('std::mem::'))})
            ctx.check(nput == 0 and not stores, 'idempotent', 'connecting an already connected pair changes nothing (no slot, peer or channel is written)', f.where_path(path), {'puts': nput, 'stores': stores})
        else:
            ctx.check(nput == 2, 'symmetric', 'a new connection is entered into both tables (symmetry)', f.where_path(path), nput)
    ctx.check(early, 'already-connected-check', 'connect detects an existing connection to the same peer', f.where())
    # idempotence comes first: the capacity assertion is only reached after the already-connected scan found nothing
    scans = [s for s in f.calls() if _peer_test(ctx.P, ('call', s.name, tuple(canon(f.expr_operand(a, s.b, 'T')) for a in s.args)))]
    cap_panics = []
    for s in f.calls():
        if s.is_diverging():
            atoms = [a for _, a in f.guard_atoms(s.b)]
            self_check = any(a[0] == 'bool' and a[2] is True and a[1][0] == 'call' and a[1][1].endswith('Arc::ptr_eq') and
                             not any(x[0] == 'field' and x[2] == 'endpoint' for x in walk(a[1])) for a in atoms)
            if not self_check and s.name.startswith(('std::rt::panic', 'core::panicking', 'std::panicking')):
                cap_panics.append(s)
    if ctx.floor('already-connected scan in Gate::connect', len(scans), 1) and ctx.floor('capacity assertion in Gate::connect', len(cap_panics), 1):
        hdrs = [h for h in f.loops_containing(scans[0].b)]
        for cp in cap_panics:
            if hdrs:
                ok = any(f.dominates(h, cp.b) and cp.b not in f.loops()[h] for h in hdrs)
            else:   # a single search call (`.any(..)`): it must have been evaluated, with a negative result, before the assertion
                ok = f.dominates(scans[0].b, cp.b) and scans[0].b != cp.b
            ctx.check(ok, 'idempotence-before-capacity',
                      'the "at most two peers" assertion is evaluated only after the already-connected scan: re-connecting an existing pair is a no-op even when both gates are full',
                      cp.where())
    for s in puts:
        atoms = [a for _, a in f.guard_atoms(s.b)]
        lens = [a for a in atoms if a[0] == 'cmp' and a[1] == 'lt' and a[2][0] == 'call' and a[2][1] == G + 'Connections::len' and a[3] == ('int', 2)]
        roots = {_root_arg(a[2]) for a in lens}
        ctx.check(roots == {'self', 'other'}, 'two-peer-limit', 'a connection is only added while both gates have fewer than two peers', s.where(), [show_atom(a) for a in lens])


def r5_walk(ctx):
    ctx.set_rule('C08.R5')
    f = ctx.anchor('des::net::runtime::events::MessageExitingConnection::handle_with_sink')
    if not f:
        return
    n = 0
    for path, outcome, decs in fn_paths(ctx, f):
        if outcome != 'return':
            continue
        n += 1
        effs = path_effects(f, path)
        sched, enq, drops, fwd = _consumers(f, effs)
        final = [e for e in effs if e[0] == 'c' and e[1].callee == SINK_ADD and any(x[0] == 'agg' and 'HandleMessageEvent' in x[1] for x in walk(e[2][1]))]
        imp = _implicit_message_drops(ctx, f, path, decs)
        total = drops + fwd + len(final)
        ctx.check(total == 1 and not imp, 'walk-conservation', 'the gate walk consumes the message exactly once on every path (inactive-owner drop, channel hand-over or final delivery event)',
                  f.where_path(path), {'drops': drops, 'channel': fwd, 'delivered': len(final), 'implicit': imp})
        if drops:
            atoms = [a for _, a in path_atoms(f, path, decs)]
            inactive = any(a[0] == 'bool' and a[1][0] == 'call' and a[1][1].endswith('ModuleRef::is_active') and a[2] is False for a in atoms)
            ctx.check(inactive, 'drop-only-if-inactive', 'a message in transit is dropped only when the owner of the current gate is inactive', f.where_path(path))
        for e in final:
            ev = e[2][1]
            tm = peel(e[2][2])
            owner = [x for x in walk(ev) if x[0] == 'call' and x[1].endswith('Gate::owner')]
            ok = bool(owner) and tm[0] == 'call' and tm[1] == 'des::time::SimTime::now'
            ctx.check(ok, 'final-delivery', 'the final event targets the owner of the last gate of the chain at the current time', e[1].where(), show(tm))
    ctx.floor('returning paths of the gate walk', n, 3)
    # last_gate updated for every hop
    w = f.writes_to_field('last_gate')
    ctx.floor('last_gate stamps in the walk', len(w), 2)
    loop_w = [(b, i, st) for (b, i, st) in w if f.loops_containing(b)]
    ctx.check(bool(loop_w), 'last-gate-per-hop', 'the header records the gate reached at every hop', f.where())
    for (b, i, st) in loop_w:
        v = f.expr_rvalue(st['r'], b, i)
        def is_next_payload(t):
            # `(cur.next_hop() as Some).0` of THIS iteration — not the loop-carried `cur` (a merge that merely contains an earlier next_hop)
            t = peel(t)
            return t[0] == 'field' and t[2] == '0' and peel(t[1])[0] == 'as' and peel(peel(t[1])[1])[0] == 'call' and peel(peel(t[1])[1])[1] == G + 'Connection::next_hop'
        entered = any(x[0] == 'field' and x[2] == 'endpoint' and is_next_payload(x[1]) for x in walk(v))
        ctx.check(entered, 'last-gate-is-entered-gate', "per hop the header records the gate being ENTERED (the next hop's endpoint): after the last hop it names the final gate of the chain",
                  f.where(b), show(v)[:160])
    # channel hand-over passes the next connection
    for s in f.calls_to('des::net::channel::Channel::send_message'):
        via = peel(f.expr_operand(s.args[2], s.b, 'T'))
        ch = peel(f.expr_operand(s.args[0], s.b, 'T'))
        nh = lambda t: any(x[0] == 'call' and x[1] == G + 'Connection::next_hop' for x in walk(t))
        ctx.check(nh(via) and nh(ch), 'channel-of-next-hop', "the message is handed to the next hop's channel together with the next hop", s.where(), show(via)[:120])


def r10_hop_channel(ctx):
    """every hop is delayed by its own channel: the channel a message is handed to is the channel of the connection it is about to
    traverse (`next.channel()`), and that very connection is what the channel gets as `via`"""
    ctx.set_rule('C08.R10')
    P = ctx.P
    fs = [g for g in P.scope_of('des::net::runtime::events::MessageExitingConnection::handle_with_sink')]
    sites = [(g, s) for g in fs for s in g.calls() if s.name == 'des::net::channel::Channel::send_message' and len(s.args) >= 3]
    if not ctx.floor('channel hand-over in the gate walk', len(sites), 1):
        return
    for g, s in sites:
        ch = g.expr_operand(s.args[0], s.b, 'T')
        via = canon(strip_refs(peel(g.expr_operand(s.args[2], s.b, 'T'))))
        src = [x for x in walk(ch) if x[0] == 'call' and x[1].endswith('Connection::channel') and x[2]]
        ok = bool(src) and canon(strip_refs(peel(src[0][2][0]))) == via and any(x[0] == 'call' and x[1].endswith('Connection::next_hop') for x in walk(via))
        ctx.check(ok, 'channel-of-the-hop-taken', 'the message is handed to the channel of the connection it traverses next, with that connection as `via`', s.where(),
                  {'channel_from': show(ch)[:140], 'via': show(g.expr_operand(s.args[2], s.b, 'T'))[:100]})


def r6_stamps(ctx):
    ctx.set_rule('C08.R6')
    f = ctx.anchor('des::net::runtime::ctx::buf_send_at')
    if f:
        w = f.writes_to_field('sender_module_id')
        if ctx.floor('sender stamp in buf_send_at', len(w), 1):
            b, i, st = w[0]
            v = f.expr_rvalue(st['r'], b, i)
            uncond = all(f.dominates(b, r) for r in f.return_blocks()) and not [a for _, a in f.guard_atoms(b) if a[0] in ('cmp', 'bool', 'is')]
            src = any(x[0] == 'call' and x[1].endswith('module::current') or (x[0] == 'call' and 'current' in x[1]) for x in walk(v))
            ctx.check(uncond and src, 'sender-stamp', 'every send stamps the sending module (the current module) into the header, unconditionally', f.where(b),
                      {'value': show(v), 'guards': [show_atom(a) for _, a in f.guard_atoms(b)]})
    P = ctx.P
    hs = [g for g in P.fn_list if g.key == 'des::net::runtime::events::HandleMessageEvent::handle']
    if ctx.floor('HandleMessageEvent::handle', len(hs), 1):
        g = hs[0]
        ctx.touch(g)
        w = g.writes_to_field('receiver_module_id')
        hm = [s for s in g.calls() if s.name.endswith('::handle_message')]
        if ctx.floor('receiver stamp', len(w), 1) and ctx.floor('handle_message call', len(hm), 1):
            b, i, st = w[0]
            v = g.expr_rvalue(st['r'], b, i)
            ok = g.dominates(b, hm[0].b) and any(x[0] == 'field' and x[2] == 'id' for x in walk(v)) and any(x[0] == 'field' and x[2] == 'module' for x in walk(v))
            msg_arg = g.expr_operand(hm[0].args[1], hm[0].b, 'T')
            ctx.check(ok, 'receiver-stamp', "the receiving module's id is stamped into the header before the handler runs", g.where(b), show(v))


def r7_delayed_send(ctx, rule='C08.R7'):
    ctx.set_rule(rule)
    # a send on a gate HANDLE uses that very gate (a module may send on a gate it was handed, e.g. one of another module): the handle
    # forms of IntoModuleGate are the identity / the upgrade — never a lookup by name in the calling module's table
    for key, want in (('<std::sync::Arc as des::net::gate::IntoModuleGate>::as_gate', 'clone'), ('<std::sync::Weak as des::net::gate::IntoModuleGate>::as_gate', 'upgrade')):
        g0 = ctx.P.fns.get(key)
        if g0 is None:
            continue
        ctx.touch(g0)
        rts = [t for _, t in ret_trees(g0)]
        def direct(t):
            t0 = t
            if t0[0] == 'agg' and str(t0[1]).endswith('Option::Some') and t0[2]:
                t0 = t0[2][0]
            t0 = peel(t0)
            if want == 'clone' and t0[0] == 'call' and t0[1].endswith('::clone') and len(t0[2]) == 1:
                t0 = peel(t0[2][0])
            if want == 'upgrade':
                if not (t0[0] == 'call' and t0[1].endswith('Weak::upgrade') and t0[2]):
                    return False
                t0 = peel(t0[2][0])
            return t0[0] == 'arg' and t0[1] == 1
        ctx.check(bool(rts) and all(direct(t) for t in rts), 'handle-resolves-to-itself:%s' % ('GateRef' if want == 'clone' else 'GateRefWeak'),
                  'sending on a gate handle sends on exactly that gate', g0.where(), [show(t)[:120] for t in rts])
    f = ctx.anchor('des::net::runtime::ctx::buf_send_at')
    if not f:
        return
    # buffering the event: Vec::push on the event buffer, or the buffer's EventSink::add (which pushes: checked by C03.R3)
    from .C03 import _buffer_container_types
    conts = _buffer_container_types(ctx.P)
    def on_buffer(s):
        t = re.sub(r"^&\s*('[a-z_]+\s+)?(mut\s+)?", '', s.argtys[0]) if s.argtys else ''
        return any(t == c for c in conts)
    pushes = [s for s in f.calls() if s.name == 'std::vec::Vec::push' or (s.callee == 'des::runtime::event::EventSink::add' and s.argtys and 'std::vec::Vec<' in s.argtys[0])
              or (s.name.split('::')[-1] in ('push', 'push_back') and on_buffer(s))]
    walks = f.calls_to('des::net::runtime::events::MessageExitingConnection::handle_with_sink')
    if not (ctx.floor('delayed push in buf_send_at', len(pushes), 1) and ctx.floor('inline walk in buf_send_at', len(walks), 1)):
        return
    def cmpnow(b):
        for _, a in f.guard_atoms(b):
            if a[0] == 'cmp' and a[2] == ('arg', 'send_time') and any(x[0] == 'call' and x[1] == 'des::time::SimTime::now' for x in walk(a[3])):
                return a[1]
        return None
    ctx.check(cmpnow(pushes[0].b) == 'gt', 'delayed-iff-future', 'a send is buffered as a delayed event iff send_time > now', pushes[0].where(), cmpnow(pushes[0].b))
    ctx.check(cmpnow(walks[0].b) == 'le', 'immediate-iff-now', 'otherwise the gate walk happens immediately', walks[0].where(), cmpnow(walks[0].b))
    tm = peel(f.expr_operand(pushes[0].args[-1] if pushes[0].name.split('::')[-1] not in ('push', 'push_back') else pushes[0].args[1], pushes[0].b, 'T'))
    ctx.check(any(x == ('arg', 2 + 1, 'send_time') or (x[0] == 'arg' and x[2] == 'send_time') for x in walk(tm)), 'delayed-at-send-time', 'the delayed event is scheduled at send_time', pushes[0].where())


BOUNDING = ('take', 'take_while', 'step_by', 'skip', 'skip_while', 'filter', 'map_while', 'nth', 'scan')


def r8_whole_chain(ctx):
    """a gate's path enumerates the whole chain, whatever its length: the iterator handed out by Gate::path_iter is the hop-by-hop walker
    itself, with no bounding adaptor, and the walker's next() ends only where next_hop() ends"""
    ctx.set_rule('C08.R8')
    P = ctx.P
    f = ctx.anchor('des::net::gate::Gate::path_iter')
    if not f:
        return
    ctx.touch(f)
    rty = f.local_ty(0)
    bounded_ty = [a for a in ('Take<', 'TakeWhile<', 'StepBy<', 'Skip<', 'SkipWhile<', 'Filter<', 'MapWhile<', 'Scan<') if a in rty]
    bounded_calls = [s.name for g in [f] + P.closures_of(f) for s in g.calls() if 'Iterator' in s.name and s.name.split('::')[-1] in BOUNDING]
    ctx.check(not bounded_ty and not bounded_calls, 'path-unbounded', 'Gate::path_iter hands out the complete walk of the chain (no hop limit, no filtering)', f.where(),
              {'type': rty, 'adaptors': bounded_calls})
    nx = [g for g in P.fn_list if g.key.startswith('<des::net::gate::') and g.key.endswith('as std::iter::Iterator>::next') and g.self_ty and any(x in rty for x in [strip_generics(g.self_ty)])]
    if not nx and ('FromFn<' in rty or 'Successors<' in rty):
        nx = [g for g in P.closures_of(f) if any(s.name.endswith('Connection::next_hop') for s in g.calls())][:1]   # `iter::from_fn(move || ..)`
    if ctx.floor('walker behind Gate::path_iter', len(nx), 1):
        g = nx[0]
        ctx.touch(g)
        hops = [s for s in g.calls() if s.name.endswith('Connection::next_hop')] + [k for k in g.fn_items_passed() if k.endswith('Connection::next_hop')]
        counters = [(b, i) for b in sorted(g.reachable()) for i, st in enumerate(g.stmts(b))
                    if st['k'] == 'assign' and st['p']['pr'] and (classify_write(g, b, i, st) or ('',))[0] in ('inc', 'dec')]
        ctx.check(bool(hops) and not counters, 'walker-follows-next-hop', "the walker advances by Connection::next_hop and keeps no hop counter", g.where(), {'next_hop_calls': len(hops), 'counters': len(counters)})


def run(ctx):
    r10_hop_channel(ctx)
    r8_whole_chain(ctx)
    # (R9) every hop delays by its channel and hands the message on: the idle path of Channel::send_message (busy period announced before
    # the exit event, exit at now + duration; shared with C07.R4)
    from .C07 import r4_idle_path
    r4_idle_path(ctx, rule='C08.R9')
    # (R11) a message in transit is dropped only for the module whose gate it is AT, tested when it is there (shared with C09.R2): testing
    # the owner of the gate it is about to enter drops messages for a module that is up again by the time they arrive
    from .C09 import r2_transit_guard, flush_before_shutdown
    r2_transit_guard(ctx, rule='C08.R11')
    # (R12) a message sent in the handler that requests the shutdown still leaves (shared with C09.R3)
    flush_before_shutdown(ctx, 'C08.R12')
    r1_cross_wiring(ctx)
    r2_next_hop(ctx)
    r3_entry_slot(ctx)
    r4_peers(ctx)
    r5_walk(ctx)
    r6_stamps(ctx)
    r7_delayed_send(ctx)

"""C09 — shut-down modules are inert; restart is clean (structural clauses, DESIGN §4 C09)."""
from .engine.helpers import *

EXPLANATION = (
    "Static analysis of the shutdown/restart machinery: (R1) every handler invocation in ModuleRef::handle_message and "
    "async_wakeup is dominated by active == true; (R2) in the gate walk every forward step (channel hand-over, next hop) is "
    "dominated by is_active() == true of the owner of the gate the message currently sits on; (R3) buf_process runs the shutdown "
    "protocol on every path that took a shutdown request: active := false, async runtime shut down, activate, reset exactly once, "
    "deactivate, and a restart event iff a time was given, at that time; (R4) module_restart sets active := true before the "
    "start-up stages and runs at_sim_start for every stage of 0..num_sim_start_stages; (R5) ModuleRef::reset rebuilds the async "
    "runtime before running the user's reset; (R6) the active flag is written only by the shutdown protocol (false), module_restart "
    "(true) and the panic harness (false). (R7) the timer bookkeeping of ModuleRef::activate (bump, clearing a reached next_wakeup, installing the driver) does not depend on the module's active flag — a stale wake-up or the restart event must still clear the recorded wake-up time. (R8) the pending shutdown request is set only by the ModuleContext::shutdown* API and taken only by buf_process. "
    '(R9, shared with C05.R3) a wake-up is recorded iff its event is scheduled, also in the event that requests the shutdown. '
    "(R6 also: ModuleRef::is_active is the module's own active flag and nothing else.) "
    "Decides these necessary conditions only; not timelines of arrivals, deadlines and restarts.")
ASSUMPTIONS = ["dropping the tokio runtime cancels its tasks and their timers (Rt::shutdown replaces the runtime)"]

EV = 'des::net::runtime::events::'
STORE = 'std::sync::atomic::Atomic::store'
LOAD = 'std::sync::atomic::Atomic::load'


def _reads_active(P, t, depth=2):
    """tree = a load of the module's `active` flag, directly or through a getter whose body is exactly such a load (ModuleRef::is_active)"""
    if t[0] != 'call':
        return False
    if t[1] == LOAD:
        return any(x[0] == 'field' and x[2] == 'active' for x in walk(t))
    g = P.fns.get(t[1]) if depth > 0 else None
    if g is not None and g.argc == 1 and len(g.blocks) <= 6:
        rts = [peel(x) for _, x in ret_trees(g)]
        return bool(rts) and all(_reads_active(P, canon(x), depth - 1) for x in rts)
    return False


def _active_atom(a, want, P=None):
    return a[0] == 'bool' and a[2] is want and _reads_active(P, a[1]) if P is not None else \
        (a[0] == 'bool' and a[1][0] == 'call' and a[1][1] == LOAD and any(x[0] == 'field' and x[2] == 'active' for x in walk(a[1])) and a[2] is want)


def r1_inert_handlers(ctx, rule='C09.R1'):
    ctx.set_rule(rule)
    for key, floor in ((EV + 'handle_message', 1), (EV + 'async_wakeup', 1)):
        f = ctx.anchor(key)
        if not f:
            continue
        execs = f.calls_to('des::net::runtime::unwind::Harness::exec')
        ups = [s for s in f.calls() if s.name.endswith('Processor::incoming_upstream')]
        ctx.floor('harness executions in %s' % short(key), len(execs), floor)
        by_callers = None
        for s in execs + ups:
            atoms = [a for _, a in f.guard_atoms(s.b)]
            ok = any(_active_atom(a, True, ctx.P) for a in atoms)
            if not ok:
                # the test hoisted into the callers: every call of this (non-public) entry point is made under `active == true` of the
                # very module it is called on, and the function is not used as a value anywhere
                if by_callers is None:
                    sites = ctx.P.call_sites_of(key)
                    users = ctx.P.callers_of(key)
                    by_callers = bool(sites) and users <= {c.fn.key for c in sites} and f.vis != 'public'
                    for c in sites:
                        recv = canon(strip_refs(peel(c.fn.expr_operand(c.args[0], c.b, 'T')))) if c.args else None
                        cat = [a for _, a in c.fn.guard_atoms(c.b) if _active_atom(a, True, ctx.P)]
                        same = any(any(canon(strip_refs(peel(x))) == recv for x in walk(a[1])) for a in cat)
                        by_callers = by_callers and bool(cat) and same
                ok = by_callers
            ctx.check(ok, 'guard:%s' % key.split('::')[-1],
                      '%s: no user code / processing element runs unless the module is active' % short(key), s.where(), [show_atom(a) for a in atoms][:4])


def r2_transit_guard(ctx, rule='C09.R2'):
    ctx.set_rule(rule)
    f = ctx.anchor(EV + 'MessageExitingConnection::handle_with_sink')
    if not f:
        return
    fwd = f.calls_to('des::net::channel::Channel::send_message')
    # "continue with next hop": assignments of the loop variable inside the loop from the next_hop result
    steps = []
    for h, body in f.loops().items():
        for b in sorted(body):
            for i, st in enumerate(f.stmts(b)):
                if st['k'] == 'assign' and not st['p']['pr']:
                    dv = [d for d in f._defs() if d[0] == st['p']['l'] and not d[3]]
                    if any(d[1] in body for d in dv) and any(d[1] not in body for d in dv) and 'Connection' in f.local_ty(st['p']['l']):
                        steps.append((b, 'advance to the next hop'))
    sites = [(s.b, 'channel hand-over') for s in fwd] + steps
    if not ctx.floor('forward steps in the gate walk', len(sites), 2):
        return

    def guarded(atoms):
        act = [a for a in atoms if a and a[0] == 'bool' and a[1][0] == 'call' and a[1][1].endswith('ModuleRef::is_active')]
        for a in act:
            if a[2] is not True:
                continue
            owner = [x for x in walk(a[1]) if x[0] == 'call' and x[1].endswith('Gate::owner')]
            if not owner:
                continue
            gate = peel_c(owner[0][2][0])
            # the gate must be `<current connection>.endpoint`, not the endpoint of this iteration's next_hop() result
            if gate[0] == 'field' and gate[2] == 'endpoint':
                base = gate[1]
                direct_next = base[0] == 'field' and base[1][0] == 'as' and base[1][1][0] == 'call' and base[1][1][1].endswith('Connection::next_hop')
                if not direct_next:
                    return True, [show_atom(x) for x in act]
        return False, [show_atom(x) for x in act]
    # per turn of the walk loop: a turn that moves the message on (to the next hop, or into a channel) has seen the owner active
    hdrs = sorted({innermost_loop(f, b) for b, _ in steps if innermost_loop(f, b) is not None})
    n_adv = n_fwd = 0
    for h in hdrs:
        for path, outcome, decs in f.enum_paths(start=h, stop_at={h}):
            if not consistent(f, path, decs):
                continue
            moved_on = outcome == 'stop'
            handed = any(s.b in path for s in fwd)
            if not (moved_on or handed):
                continue
            ctx.paths += 1
            atoms = [a for _, a in path_atoms(f, path, decs)]
            ok, detail = guarded(atoms)
            what = 'channel hand-over' if handed else 'advance to the next hop'
            n_adv += 0 if handed else 1
            n_fwd += 1 if handed else 0
            ctx.check(ok, 'transit-guard',
                      'gate walk (%s): a message only moves on while the owner of the gate it currently sits on is active (messages passing through a shut-down module are dropped)' % what,
                      f.where_path(path), detail)
    ctx.floor('turns of the gate walk that advance to the next hop', n_adv, 1)
    ctx.floor('turns of the gate walk that hand the message to a channel', n_fwd, 1)


def peel_c(t):
    """peel on canonical trees: strip clone/deref wrappers"""
    while t[0] == 'call' and t[1] in ('std::clone::Clone::clone', '<std::sync::Arc as std::clone::Clone>::clone', '<std::sync::Arc as std::ops::Deref>::deref',
                                    'std::ops::Deref::deref', '<des::net::gate::GateRef as std::ops::Deref>::deref') and len(t[2]) == 1:
        t = t[2][0]
    return t


def r3_shutdown_protocol(ctx):
    ctx.set_rule('C09.R3')
    f = ctx.anchor('des::net::runtime::ctx::buf_process')
    if not f:
        return
    n = 0
    for path, outcome, decs in fn_paths(ctx, f):
        if outcome != 'return':
            continue
        effs = path_effects(f, path)
        outs = call_outcomes(f, path, decs, 'std::option::Option::take')
        took = [r for s, r in outs if any(x[0] == 'field' and x[2] == 'shutdown_task' for x in walk(f.expr_operand(s.args[0], s.b, 'T')))]
        # (the runtime is shut down by Rt::shutdown, or — that one-liner merged into its caller — by storing Rt::Shutdown in the slot)
        names = [(e[1].name, e) if e[0] == 'c' else ('<store>rt::Rt::shutdown', e) for e in effs
                 if e[0] == 'c' or (e[0] == 'w' and e[1] == 'set' and e[2] == 'rt' and e[4] is not None and str(peel(e[4])[1] if peel(e[4])[0] == 'agg' else '').endswith('Rt::Shutdown'))]
        def idx(pred):
            return [i for i, (nm, e) in enumerate(names) if pred(nm, e)]
        st_false = idx(lambda nm, e: nm == STORE and any(x[0] == 'field' and x[2] == 'active' for x in walk(e[2][0])) and e[2][1] in (('int', 0),))
        shut = idx(lambda nm, e: nm.endswith('rt::Rt::shutdown'))
        act = idx(lambda nm, e: nm.endswith('ModuleRef::activate'))
        rst = idx(lambda nm, e: nm == EV + 'reset')
        dea = idx(lambda nm, e: nm.endswith('ModuleRef::deactivate'))
        restart = idx(lambda nm, e: nm == 'des::runtime::Runtime::add_event' and any(x[0] == 'agg' and 'ModuleRestartEvent' in x[1] for x in walk(e[2][1])))
        if took != ['Some']:
            ctx.check(not (st_false or shut or rst or restart), 'no-request-no-shutdown', 'without a shutdown request buf_process leaves the module alone', f.where_path(path))
            continue
        n += 1
        order_ok = len(st_false) == 1 and len(shut) == 1 and len(act) == 1 and len(rst) == 1 and len(dea) == 1 and \
            st_false[0] < shut[0] < act[0] < rst[0] < dea[0]
        ctx.check(order_ok, 'protocol-order',
                  'shutdown protocol: active := false, async runtime shut down, activate, reset exactly once, deactivate — in this order',
                  f.where_path(path), {'active=false': st_false, 'rt.shutdown': shut, 'activate': act, 'reset': rst, 'deactivate': dea})
        # restart event iff a time was given
        atoms = [a for _, a in path_atoms(f, path, decs)]
        inner = [a for a in atoms if a[0] == 'is' and a[1][0] == 'field' and a[1][1][0] == 'as' and a[1][1][2] == 'Some']
        def carries_time(variant):
            # pinned representation Option<Option<SimTime>>: inner Some; or a private request enum whose variant holds the restart time
            if variant == 'Some':
                return True
            for k, adt in ctx.P.adts.items():
                if adt.get('kind') == 'enum' and k.startswith('des::net::'):
                    for v in adt.get('variants', []):
                        if v.get('n') == variant and any('SimTime' in fd['ty'] for fd in v['fields']):
                            return True
            return False
        given = any(isinstance(a[2], str) and carries_time(a[2]) for a in inner)
        ok = (len(restart) == 1) if given else (len(restart) == 0)
        detail = {'restart_time_given': given, 'restart_events': len(restart)}
        if ok and given:
            e = names[restart[0]][1]
            tm = peel(e[2][2])
            ok = any(x[0] == 'call' and x[1] == 'std::option::Option::take' for x in walk(tm)) and dea and restart[0] > dea[0]
            detail['time'] = show(tm)[:160]
        ctx.check(ok, 'restart-event', 'a restart event is scheduled iff a restart time was given, at exactly that time, after the reset', f.where_path(path), detail)
    ctx.floor('shutdown paths of buf_process', n, 2)
    flush_before_shutdown(ctx, None)


def flush_before_shutdown(ctx, rule):
    """the flush of buffered events precedes the shutdown handling: events sent in the same handler still go out, and they are scheduled
    ahead of the restart event of the same instant (shared: C03.R7 emission order, C08.R11 a sent message reaches the chain)"""
    if rule:
        ctx.set_rule(rule)
    f = ctx.anchor('des::net::runtime::ctx::buf_process')
    if not f:
        return
    adds = [s for s in f.calls() if s.name == 'des::runtime::Runtime::add_event' and f.loops_containing(s.b)]
    takes = [s for s in f.calls() if s.name == 'std::option::Option::take']
    if adds and takes:
        ctx.check(all(t.b in f.reach_from(adds[0].b) and adds[0].b not in f.reach_from(t.b) for t in takes), 'flush-before-shutdown',
                  'events buffered by the handler are flushed before the shutdown request is processed', takes[0].where())


def r4_restart(ctx, rule='C09.R4'):
    ctx.set_rule(rule)
    f = ctx.anchor(EV + 'module_restart')
    if not f:
        return
    stores = [s for s in f.calls() if s.name == STORE and any(x[0] == 'field' and x[2] == 'active' for x in walk(f.expr_operand(s.args[0], s.b, 'T')))]
    starts = per_item_calls(ctx.P, f, EV + 'at_sim_start')
    if not (ctx.floor('active store in module_restart', len(stores), 1) and ctx.floor('at_sim_start in module_restart', len(starts), 1)):
        return
    s0, w = stores[0], starts[0]
    val = f.expr_operand(s0.args[1], s0.b, 'T')
    ctx.check(val == ('int', 1) and f.dominates(s0.b, w.anchor) and s0.b != w.anchor and not f.loops_containing(s0.b), 'active-before-startup',
              'the module is marked active before its start-up stages run (so that start-up code can send and is_active() is true)', s0.where(), show(val))
    # the iteration: stage in 0..num_sim_start_stages()  (for loop, or try_for_each over the range)
    it = w.it
    rng = [y for y in walk(it)] if it else []
    rng = [y for y in rng if y[0] == 'agg' and 'Range' in str(y[1])]
    ok = bool(rng) and rng[0][2][0] == ('int', 0) and any(z[0] == 'call' and z[1] == EV + 'num_sim_start_stages' for z in walk(rng[0][2][1])) \
        and w.trees is not None and len(w.trees) > 1 and from_item(w.fn, w.trees[1])
    ctx.check(ok, 'all-stages', 'restart runs at_sim_start for every stage 0..num_sim_start_stages()', w.site.where(), {'form': w.form, 'iterator': show(it)[:160] if it else None})
    # error propagation: a failing stage aborts the restart with the error (not silently ignored)
    if w.form == 'loop':
        prop = any(s.name.endswith('::branch') or 'Try' in s.name for s in f.calls())
    else:
        prop = any(any(x[0] == 'call' and x[1].endswith('try_for_each') for x in walk(t)) for _, t in ret_trees(f)) and \
            all(any(x[0] == 'call' and x[1] == EV + 'at_sim_start' for x in walk(t)) for _, t in ret_trees(w.fn))
    ctx.check(prop, 'stage-error-propagated', 'a panicking start-up stage is reported', f.where())


def r7_activate_unconditional(ctx):
    """the timer bookkeeping of activate (bump, clearing a reached next_wakeup, installing the driver) does not depend on the
    module's active flag: a stale wake-up of a shut-down module and the restart event (which activates before the flag is set)
    must still clear `next_wakeup`, otherwise the restarted module's timers are never scheduled"""
    ctx.set_rule('C09.R7')
    f = ctx.anchor('des::net::module::refs::ModuleRef::activate')
    if not f:
        return
    D = 'des::time::driver::'
    sites = [(s.b, short(s.name)) for s in f.calls() if s.name in (D + 'Driver::bump', D + 'TimerQueue::bump', D + 'Driver::set')] + [(b, 'next_wakeup clear') for (b, i, st) in f.writes_to_field('next_wakeup')]
    if not ctx.floor('timer bookkeeping sites in activate', len(sites), 3):
        return
    for b, what in sites:
        atoms = [a for _, a in f.guard_atoms(b)]
        dep = [a for a in atoms if a[0] == 'bool' and _reads_active(ctx.P, a[1])]
        ctx.check(not dep, 'activate-bookkeeping-unconditional', 'activate performs its timer bookkeeping (%s) whether or not the module is currently active' % what, f.where(b), [show_atom(a) for a in dep])


def r5_reset_order(ctx):
    ctx.set_rule('C09.R5')
    f = ctx.anchor(EV + 'reset')
    if not f:
        return
    rb = [s for s in f.calls() if s.name.endswith('AsyncCoreExt::reset')]
    ex = f.calls_to('des::net::runtime::unwind::Harness::exec')
    if ctx.floor('runtime rebuild in ModuleRef::reset', len(rb), 1) and ctx.floor('harness exec in ModuleRef::reset', len(ex), 1):
        ctx.check(f.dominates(rb[0].b, ex[0].b) and rb[0].b != ex[0].b, 'rebuild-before-user-reset', "the async runtime is rebuilt before the user's reset code runs", ex[0].where())
    # AsyncCoreExt::reset replaces the runtime and keeps no joins of the old incarnation... (runtime replaced)
    g = ctx.anchor('des::net::module::ctx::rt::AsyncCoreExt::reset')
    if g:
        ctx.check(bool(g.writes_to_field('rt')), 'runtime-replaced', 'AsyncCoreExt::reset installs a fresh runtime', g.where())
    hs = ctx.P.scope_of('des::net::module::ctx::rt::Rt::shutdown')
    ctx.floor('function shutting the async runtime down', len(hs), 1)
    h = hs[0] if hs else None
    if h:
        cur = ctx.anchor('des::net::module::ctx::rt::Rt::current')
        none = False
        if cur:
            for b, t in ret_trees(cur):
                if any(x[0] == 'agg' and x[1].endswith('Option::None') for x in walk(t)):
                    none = True
        ctx.check(none, 'shutdown-runtime-unavailable', 'after Rt::shutdown no runtime is handed out until reset', h.where())


def _root_is_self(x):
    while True:
        x = peel(x)
        if x[0] in ('field', 'as', 'deref', 'ref') and len(x) > 1 and isinstance(x[1], tuple):
            x = x[1]
            continue
        if x[0] == 'call' and x[2] and str(x[1]).split('::')[-1] in ('deref', 'as_ref', 'borrow'):
            x = x[2][0]
            continue
        return x[0] == 'arg' and (x[1] in (1, 'self') or (len(x) > 2 and x[2] == 'self'))


def r6_writers_of_active(ctx):
    ctx.set_rule('C09.R6')
    P = ctx.P
    table = {
        'des::net::runtime::ctx::buf_process': 0,
        EV + 'module_restart': 1,
        'des::net::runtime::unwind::Harness::catch': 0,
    }
    n = 0
    for f in P.fn_list:
        for s in f.calls():
            if s.name.split('::')[-1] in ('store', 'swap', 'fetch_or', 'fetch_and', 'fetch_xor', 'compare_exchange', 'fetch_not', 'get_mut') and 'atomic' in s.name and s.args:
                recv = f.expr_operand(s.args[0], s.b, 'T')
                fl = [x for x in walk(recv) if x[0] == 'field' and x[2] == 'active' and x[3].endswith('ModuleContext')]
                if not fl:
                    continue
                n += 1
                val = f.expr_operand(s.args[1], s.b, 'T') if len(s.args) > 1 else None
                want = table.get(f.key)
                ctx.touch(f)
                ctx.check(want is not None and val == ('int', want), 'active-writer:%s' % f.key,
                          'the active flag is written only by the shutdown protocol (false), module_restart (true) and the panic harness (false)', s.where(), show(val) if val else None)
    ctx.floor('writers of the active flag', n, 3)
    # ... and what every guard reads is that flag of the module itself, nothing else: a module is down exactly from its own shutdown to
    # its own restart (deriving it from the parent's state as well silences a child that was never shut down)
    g = ctx.anchor('des::net::module::refs::ModuleRef::is_active')
    if g:
        rts = [peel(t) for _, t in ret_trees(g)]
        def own_flag(t):
            if t[0] != 'call' or str(t[1]).split('::')[-1] != 'load' or 'atomic' not in str(t[1]).lower() or not t[2]:
                return False
            flds = [x for x in walk(t[2][0]) if x[0] == 'field' and x[2] == 'active']
            return bool(flds) and _root_is_self(flds[0])
        ctx.check(bool(rts) and all(own_flag(t) for t in rts), 'is-active-reads-own-flag', "ModuleRef::is_active is the module's own active flag", g.where(),
                  [show(t)[:120] for t in rts][:2])


def r8_request_consumers(ctx):
    """the pending shutdown request is produced by the shutdown* API of ModuleContext and consumed by buf_process only: nobody else may
    take or overwrite it (a request issued during the restart event itself must survive until the end of that event)"""
    ctx.set_rule('C09.R8')
    P = ctx.P
    consumer = {g.key for g in P.scope_of('des::net::runtime::ctx::buf_process')}
    producers_prefix = 'des::net::module::ctx::ModuleContext::'
    n = 0
    for f in P.fn_list:
        if f.kind == 'promoted' or not f.key.startswith(('des::net', '<des::net')):
            continue
        owner = f.key if f.kind != 'closure' else (f.root or f.parent or f.key)
        for s in f.calls():
            if not s.args:
                continue
            last = s.name.split('::')[-1]
            if last not in ('take', 'replace', 'insert', 'get_or_insert', 'get_or_insert_with', 'clear', 'take_if'):
                continue
            t = f.expr_operand(s.args[0], s.b, 'T')
            if not any(x[0] == 'field' and x[2] == 'shutdown_task' for x in walk(t)):
                continue
            n += 1
            ok = owner in consumer if last in ('take', 'take_if', 'clear') else owner.startswith(producers_prefix)
            ctx.check(ok, 'request-access:%s:%s' % (owner.split('::')[-1], last),
                      'the shutdown request is taken only by buf_process (end of the event) and set only by the ModuleContext::shutdown* API', s.where(), s.name)
        for (b, i, st) in [(b, i, st) for b in sorted(f.reachable()) for i, st in enumerate(f.stmts(b)) if st['k'] == 'assign' and st['p']['pr'] and st['p']['pr'][-1]['k'] == 'deref']:
            dst = f.expr_place({'l': st['p']['l'], 'pr': st['p']['pr'][:-1]}, b, i)
            if any(x[0] == 'field' and x[2] == 'shutdown_task' for x in walk(dst)):
                n += 1
                ctx.check(owner.startswith(producers_prefix) or owner in consumer, 'request-access:%s:store' % owner.split('::')[-1],
                          'the shutdown request is written only by the ModuleContext::shutdown* API (and consumed by buf_process)', f.where(b))
    ctx.floor('accesses to the shutdown request', n, 3)


def run(ctx):
    # (R9) a restarted module's timers fire: a wake-up is recorded iff its event is scheduled, also in the event that requests the
    # shutdown (shared with C05.R3)
    from .C05 import r3_wakeup_scheduling
    r3_wakeup_scheduling(ctx, rule='C09.R9')
    r8_request_consumers(ctx)
    r1_inert_handlers(ctx)
    r2_transit_guard(ctx)
    r3_shutdown_protocol(ctx)
    r4_restart(ctx)
    r5_reset_order(ctx)
    r6_writers_of_active(ctx)
    r7_activate_unconditional(ctx)

"""C17 — configuration reaches exactly the addressed modules (structural clauses, DESIGN §4 C17)."""
from .engine.helpers import *

EXPLANATION = (
    "Static analysis of des-net-utils props and the three capture sites in des: (R1) wherever Props::update_from accepts a key by a "
    "*textual* prefix test against the module path, acceptance additionally requires the path delimiter '.' right after the prefix on "
    "every accepting path (segment-aligned match), and the property name is the text after that delimiter; (R2) SimBuilder::include_cfg, "
    "SimBuilder::raw and raw_ndl all hand configurations to the same routine (Cfg::capture_for -> Props::update_from) with the module "
    "path split on '.'; (R3) RawProp::typed tests the type before converting, converts a YAML value with T::from_value, and reports "
    "InvalidInput on mismatch; Props::set never replaces an existing slot (first value/type wins); no unsafe code in the props module; "
    "(R4) the wildcard branch of update_from recurses with exactly one path segment removed and literal keys recurse with exactly the "
    "matched number of segments removed. "
    '(R2 also: an included configuration reaches every module created before and after the include; R5) compartmentalize_map rewrites nested wildcard keys inside the compartment obtained with entry(..).or_insert(..) - an existing compartment is extended, never rebuilt or shallow-merged - and stores the leaf under the key remainder. '
    '(R4 also: with the path exhausted every entry without a wildcard in its key becomes a property, whatever its value.) '
    "(R2 also: the kept configurations are applied before the node's software is built.) "
    "(R4 also: every prefix level of a key path is visited - no level is skipped on a loop exit; R6) lengths used as text offsets are byte lengths, never character counts. "
    '(R2 also: configurations are added to the kept list by include_cfg alone, which also applies them to the modules that exist.) '
    '(R7, shared with C04.R6) a by-value method of SimBuilder returns the builder it was given, so the included configurations survive; R8) a failed downcast of a stored property value is forced (panic), never handed on as an absent value. '
    "Decides these necessary conditions only; not the iff over all configurations.")
ASSUMPTIONS = ["serde_yml::Mapping::get / keys behave as documented"]

PR = 'des_net_utils::props::'
UF = PR + 'yaml::update_from'  # Props::update_from (impl block in yaml.rs)


def _closures_rec(P, f):
    return P.closures_of(f, transitive=True)


def _char_pat(s, f):
    """is this a str::starts_with / ends_with call with the char pattern '.'"""
    if not s.name.endswith(('::starts_with', '::ends_with')) or 'str' not in s.name:
        return False
    if not (s.targs and s.targs[-1] == 'char'):
        return False
    p = f.expr_operand(s.args[1], s.b, 'T')
    return p == ('int', 46) or '.' in show(p)


def r1_segment_aligned(ctx):
    ctx.set_rule('C17.R1')
    P = ctx.P
    f = ctx.anchor(UF)
    if not f:
        return
    scope = [f] + _closures_rec(P, f)
    prefix_calls = []
    for g in scope:
        for s in g.calls():
            if 'str' in s.name and s.name.endswith(('::starts_with', '::strip_prefix')) and s.targs and s.targs[-1] != 'char':
                prefix_calls.append(s)
    if not prefix_calls:
        ctx.ok('update_from does not accept keys by textual prefix (segment-wise matching only)', f.where())
        ctx.note('risk idiom (textual prefix acceptance) not found')
        return
    for s in prefix_calls:
        g = s.fn
        ctx.touch(g)
        # closures at or below g
        below = [g] + [h for h in scope if h.key.startswith(g.key + '::')]
        ok = False
        detail = {}
        for h in below:
            delim = [c for c in h.calls() if _char_pat(c, h) and c.name.endswith('::starts_with')]
            if not delim:
                continue
            d = delim[0]
            # every path of h that returns true has the delimiter test == true
            all_true_guarded = True
            n_true = 0
            for path, outcome, decs in fn_paths(ctx, h):
                if outcome != 'return':
                    continue
                r = path_ret(h, path)
                outs = dict((site.b, res) for site, res in call_outcomes(h, path, decs, d.name))
                tested_true = outs.get(d.b) is True
                if r == ('int', 0):
                    continue
                # an Option-valued verdict (filter_map): None, `?` on a failed strip_prefix, or `cond.then(..)` with cond false on this
                # very path reject the key
                rp = peel(r) if r is not None else None
                if rp is not None and ((rp[0] == 'agg' and str(rp[1]).endswith('Option::None')) or (rp[0] == 'call' and rp[1].endswith('FromResidual>::from_residual'))):
                    continue
                if rp is not None and rp[0] == 'call' and rp[1].endswith(('bool::then', 'bool::then_some')) and rp[2]:
                    ts = [c for c in h.calls() if c.name == rp[1] and c.b in path]
                    cv = rp[2][0]
                    if ts:
                        pidx = max(k_ for k_, bb in enumerate(path) if bb == ts[-1].b)
                        cv = h.expr_operand_on_path(ts[-1].args[0], path, pidx, 'T')
                    if path_truth(h, path, decs, cv) is False:
                        continue
                if r == ('int', 1) or r is None or r[0] != 'int':
                    n_true += 1
                    # a non-constant return after the test (e.g. `&& rem.len() > 1`) is fine as long as the test was true on the way
                    if not tested_true:
                        all_true_guarded = False
            # the tested string is the remainder after the prefix (strip_prefix result / slice at prefix length)
            subj = h.expr_operand(d.args[0], d.b, 'T')
            rem_ok = peel(subj)[0] == 'arg' or any(x[0] == 'call' and (x[1].endswith('::strip_prefix') or 'index' in x[1]) for x in walk(subj))
            # h's verdict feeds g's verdict
            linked = h is g or any(c.name.endswith(('::is_some_and', '::is_ok_and', '::map_or', '::filter', '::and_then', '::map')) for c in g.calls())
            detail = {'delimiter_test_in': h.key.split('::')[-1], 'accepting_paths': n_true, 'remainder': show(subj)[:80]}
            if all_true_guarded and n_true >= 1 and rem_ok and linked:
                ok = True
        if not ok:
            # control-flow form: the prefix test's result is used by branches of g itself (`strip_prefix(p)?` ... then `set`):
            # every Props::set reached after the test must be guarded by the delimiter test on the remainder
            def delim_true(a):
                node = a[1] if a[0] in ('bool', 'is', 'isnot') else None
                if node is None:
                    return False
                for x in walk(node):
                    if x[0] == 'call' and 'str' in x[1] and x[1].endswith(('::starts_with', '::strip_prefix')) and len(x[2]) == 2 and (x[2][1] == ('int', 46) or "'.'" in show_c(x[2][1])):
                        # subject = remainder after the textual prefix
                        rem = any(y[0] == 'call' and y[1].endswith('::strip_prefix') and y is not x for y in walk(x[2][0]))
                        pos = (a[0] == 'bool' and a[2] is True) or (a[0] == 'is' and a[2] in ('Some', 'Continue'))
                        if rem and pos:
                            return True
                return False
            acc = [c for c in g.calls() if c.name == PR + 'store::Props::set' and g.dominates(s.b, c.b) and c.b != s.b]
            if acc:
                ok = all(any(delim_true(a) for _, a in g.guard_atoms(c.b, derived=True)) for c in acc)
                detail = {'form': 'control flow', 'guarded_assignments': len(acc)}
        ctx.check(ok, 'prefix-without-delimiter:%s' % g.key.replace(UF, 'update_from'),
                  "a key accepted because it textually starts with the module's path must continue with the path delimiter '.' on every accepting path "
                  "(otherwise module `alice` receives the entries of `alicent`)", s.where(), detail)
    # the property name is what follows prefix + delimiter: slice start = key.len() + 1
    sets = f.calls_to(PR + 'store::Props::set')
    sliced = []
    for s in sets:
        k = f.expr_operand(s.args[1], s.b, 'T')
        rngs = [x for x in walk(k) if x[0] == 'agg' and 'RangeFrom' in x[1]]
        for r in rngs:
            sliced.append((s, simp_add(r[2][0])))
    for s, start in sliced:
        ok = start is not None and start[0] == 'bin' and start[1] == 'Add' and start[3] == ('int', 1) and any(x[0] == 'call' and x[1].endswith(('String::len', 'str::len')) for x in walk(start[2]))
        if not ok and start == ('int', 1):
            # `rem[1..]` where rem is what strip_prefix(module path) left over: the text after the path and one delimiter character
            k = f.expr_operand(s.args[1], s.b, 'T')
            ok = any(x[0] == 'index' or (x[0] == 'call' and x[1].endswith(('Index>::index', 'Index::index', 'traits::index'))) for x in walk(k)) and \
                any(x[0] == 'call' and x[1].endswith('::strip_prefix') for x in walk(k))
        ctx.check(ok, 'name-after-delimiter', "the property name is the key text after the module path and its delimiter (slice from path.len() + 1)", s.where(), show(start) if start else None)


def simp_add(t):
    t = peel(t)
    if t[0] == 'field' and t[1][0] == 'bin' and t[1][1].endswith('WithOverflow'):
        return ('bin', t[1][1][:-len('WithOverflow')], t[1][2], t[1][3])
    return t


def _dyn_type_test(c):
    """a call that asks for the dynamic type of an `Any`: `is::<T>()`, `downcast_ref::<T>()` / `downcast_mut` (then `.is_some()`), `type_id()`"""
    n = c.name or ''
    last = n.split('::')[-1]
    return ('TypeId' in n) or (('Any' in n or 'any::' in n) and last in ('is', 'downcast_ref', 'downcast_mut', 'type_id'))


def r2_include_order(ctx):
    ctx.set_rule('C17.R2')
    P = ctx.P
    CAP = PR + 'yaml::Cfg::capture_for'
    sites = P.call_sites_of(CAP)
    roots = {}
    for s in sites:
        r = s.fn.root or s.fn.key
        roots.setdefault(r, []).append(s)
    want = {'des::net::runtime::SimBuilder::include_cfg', 'des::net::runtime::SimBuilder::raw', 'des::net::ndl::raw_ndl'}
    for w in sorted(want):
        ctx.check(w in roots, 'capture-site:%s' % w.split('::')[-1], '%s applies configurations through Cfg::capture_for' % short(w), None, sorted(roots))
    for r, ss in roots.items():
        if r not in want and not r.startswith(PR):
            ctx.note('additional capture site %s' % r)
        for s in ss:
            f = s.fn
            ctx.touch(f)
            path = f.expr_operand(s.args[1], s.b, 'T')
            if f.kind == 'closure':
                par, caps = capture_trees(P, f)
                path = subst_captures(path, caps) if caps else path
            if r.startswith(PR):
                continue
            split = [x for x in walk(path) if x[0] == 'call' and x[1].endswith('::split')]
            ok = bool(split) and (split[0][2][1] == ('int', 46) or '.' in show(split[0][2][1])) and any(x[0] == 'call' and x[1].endswith('ObjectPath::as_str') for x in walk(split[0]))
            ctx.check(ok, 'path-split:%s' % r.split('::')[-1], "the module path is split into segments on '.' before matching", s.where(), show(path)[:160])
    g = ctx.anchor(CAP)
    if g:
        ctx.check(bool(g.calls_to(UF)), 'capture-routine', 'Cfg::capture_for delegates to Props::update_from (one matching routine for both include orders)', g.where())
    # include_cfg keeps the configuration for modules created later, raw applies all kept configurations
    inc = P.fns.get('des::net::runtime::SimBuilder::include_cfg')
    if inc:
        n = 0
        for path, outcome, decs in fn_paths(ctx, inc):
            if outcome != 'return':
                continue
            atoms = [a for _, a in path_atoms(inc, path, decs)]
            parsed = any(a[0] == 'is' and a[2] == 'Ok' for a in atoms)
            if not parsed:
                continue
            n += 1
            effs = path_effects(inc, path)
            pushes = [e for e in effs if e[0] == 'c' and e[1].name == 'std::vec::Vec::push' and any(x[0] == 'field' and x[2] == 'cfgs' for x in walk(e[2][0]))]
            ok = len(pushes) == 1 and any(x[0] == 'call' and x[1] == PR + 'yaml::Cfg::new' for x in walk(pushes[0][2][1]))
            ctx.check(ok, 'cfg-kept', 'every successfully parsed configuration is kept as its own entry for nodes created later (configurations are never folded into each other)',
                      inc.where_path(path), len(pushes))
        ctx.floor('successful paths of include_cfg', n, 1)
        # ... and is applied to EVERY module that already exists (no pruning of subtrees: a wildcard below a parent gives the parent
        # nothing and its children something)
        scope_i = [inc] + P.closures_of(inc)
        ws = [w for g_ in scope_i for w in per_item_calls(P, g_, CAP)]
        if ctx.floor('capture_for over the existing modules in include_cfg', len(ws), 1):
            for w in ws:
                g_ = w.fn
                conds = [a for s_, a in g_.guard_atoms(w.site.b) if a and a[0] in ('bool', 'cmp') and (w.form != 'loop' or s_ in g_.loops().get(w.anchor, ()))]
                ctx.check(w.exhaustive and not conds, 'include-reaches-every-module',
                          'include_cfg offers the new configuration to every existing module, unconditionally', w.site.where(), [show_atom(a) for a in conds][:4])
    # a configuration is registered through include_cfg alone (with_cfg and friends delegate): a second writer of the kept list that
    # only stores would leave the modules that already exist without it
    if inc:
        scope_keys = {g_.key for g_ in [inc] + P.closures_of(inc)}
        grow = []
        for g_ in P.fn_list:
            if not g_.key.startswith(('des::net::', '<des::net::')) or g_.kind == 'promoted':
                continue
            for c in g_.calls():
                if c.name.split('::')[-1] in ('push', 'extend', 'insert', 'append', 'extend_from_slice') and 'Vec' in c.name and c.args and \
                        any(x[0] == 'field' and x[2] == 'cfgs' and str(x[3] if len(x) > 3 else '').endswith('SimBuilder') for x in walk(g_.expr_operand(c.args[0], c.b, 'T'))):
                    grow.append(c)
        ctx.floor('sites that grow the kept configurations', len(grow), 1)
        for c in grow:
            ctx.check(c.fn.key in scope_keys or (c.fn.root or '') in scope_keys, 'cfg-registered-by-include-only:%s' % c.fn.key.split('::')[-1],
                      'configurations are added to the kept list by include_cfg alone (which also applies them to the existing modules)', c.where())
    for k in ('des::net::runtime::SimBuilder::raw', 'des::net::ndl::raw_ndl'):
        h = P.fns.get(k)
        if h:
            cs = h.calls_to(CAP)
            ok = bool(cs) and bool(h.loops_containing(cs[0].b)) and any(x[0] == 'field' and x[2] == 'cfgs' for x in walk(h.expr_operand(cs[0].args[0], cs[0].b, 'T')))
            if not ok:
                # `self.cfgs.iter().for_each(|cfg| cfg.capture_for(..))`
                for w in per_item_calls(P, h, CAP):
                    if w.exhaustive and w.it is not None and any(x[0] == 'field' and x[2] == 'cfgs' for x in walk(w.it)) and (w.trees is None or from_item(w.fn, w.trees[0])):
                        ok = True
            ctx.check(ok, 'all-cfgs-applied:%s' % k.split('::')[-1], '%s applies every kept configuration to the new node' % short(k), h.where())
            # ... before any of the node's software is built: a constructor or stack factory that reads a property with a default would
            # otherwise pin the default, and the keep-first Props::set would then discard the configured value
            build = [c for c in h.calls() if c.name.endswith(('::to_processing_chain', 'ModuleContext::upgrade_dummy', 'ModuleRef::upgrade_dummy')) or (c.callee or '').endswith('Module::to_processing_chain')]
            anchors = [(innermost_loop(h, c.b) if innermost_loop(h, c.b) is not None else c.b) for c in cs] + [w.anchor for w in per_item_calls(P, h, CAP) if w.form == 'consumer']
            if build and anchors:
                ctx.check(all(any(h.dominates(a, c.b) and a != c.b for a in anchors) for c in build), 'cfg-before-software:%s' % k.split('::')[-1],
                          "%s applies the kept configurations before the node's software (processing chain, module state) is built" % short(k), build[0].where())


def r3_typed_access(ctx):
    ctx.set_rule('C17.R3')
    P = ctx.P
    f = ctx.anchor(PR + 'RawProp::typed')
    if f:
        is_calls = [s for s in f.calls() if s.name == PR + 'RawProp::is']
        conv = [s for s in f.calls() if s.callee and s.callee.endswith('PropType::from_value')]
        hand_over = None
        if not conv:
            # the conversion sits in a callback (closure or function item) that typed() hands to an accessor of the slot: the test must
            # then dominate the hand-over, and the callback must be instantiated at typed()'s own T
            for g in P.closures_of(f):
                cs = [s for s in g.calls() if s.callee and s.callee.endswith('PropType::from_value')]
                if not cs:
                    continue
                for s in f.calls():
                    ts = [peel(f.expr_operand(a, s.b, 'T')) for a in s.args]
                    for t in ts:
                        if (t[0] == 'fnitem' and t[1] == g.key and list(t[2]) == ['T']) or (t[0] == 'agg' and t[1] == 'closure:' + g.key):
                            conv, hand_over = cs, s
        if ctx.floor('type test in typed()', len(is_calls), 1) and ctx.floor('conversion in typed()', len(conv), 1):
            ctx.check(is_calls[0].targs == ['T'] and conv[0].targs[:1] == ['T'], 'typed-same-T', 'typed::<T>() tests and converts with the same T', f.where())
            atoms = [a for _, a in f.guard_atoms((hand_over or conv[0]).b)]
            ctx.check(any(a[0] == 'bool' and a[1][0] == 'call' and a[1][1] == PR + 'RawProp::is' and a[2] is True for a in atoms), 'test-before-convert',
                      'the YAML value is only converted after the type test passed', conv[0].where())
        for path, outcome, decs in fn_paths(ctx, f):
            if outcome != 'return':
                continue
            atoms = [a for _, a in path_atoms(f, path, decs)]
            t = next((a[2] for a in atoms if a[0] == 'bool' and a[1][0] == 'call' and a[1][1] == PR + 'RawProp::is'), None)
            r = path_ret(f, path)
            if t is False:
                def _txt(t):
                    out = show(t) if t else ''
                    for x in (walk(t) if t else []):
                        if x[0] == 'agg' and str(x[1]).startswith('closure:'):
                            g2 = P.fns.get(x[1][len('closure:'):])
                            for _, t2 in (ret_trees(g2) if g2 else []):
                                out += ' ' + show(t2)
                    return out
                is_err = r and ((r[0] == 'agg' and r[1].endswith('Result::Err')) or (r[0] == 'call' and r[1].endswith('FromResidual>::from_residual')))
                ok = is_err and 'InvalidInput' in _txt(r)
                ctx.check(bool(ok), 'mismatch-is-error', 'reading a property as a different type is an InvalidInput error', f.where_path(path))
                writes = [e for e in path_effects(f, path) if e[0] == 'w']
                ctx.check(not writes, 'mismatch-leaves-slot', 'a failed typed access leaves the property untouched', f.where_path(path))
    g = ctx.anchor(PR + 'RawProp::is')
    if g:
        ok = any(s.name.endswith('::is') and 'Any' in s.name for s in g.calls()) or any(_dyn_type_test(s) or s.name.endswith('::is') for h in [g] + P.closures_of(g) for s in h.calls())
        ctx.check(ok, 'is-uses-any', 'RawProp::is compares dynamic types', g.where())
    s = ctx.anchor(PR + 'store::Props::set')
    if s:
        ins = [c for c in s.calls() if c.name.split('::')[-1] in ('insert', 'insert_unique_unchecked') and 'VacantEntry' not in c.name]
        # entry(..).or_insert*(..) and VacantEntry::insert only ever fill an empty slot
        ent = [c for c in s.calls() if c.name.endswith('::or_insert') or c.name.endswith('::or_insert_with') or c.name.endswith('VacantEntry::insert')]
        guarded = all(any(a[0] == 'bool' and a[1][0] == 'call' and a[1][1].endswith('::contains_key') and a[2] is False for _, a in s.guard_atoms(c.b)) for c in ins)
        ctx.check((bool(ent) and not ins) or (bool(ins) and guarded), 'set-keeps-first',
                  'Props::set never replaces an existing slot: the first value (and later its type) of a property is kept when a configuration is included afterwards', s.where(),
                  {'insert_calls': [c.name for c in ins], 'entry_or_insert': [c.name for c in ent]})
    unsafe_fns = [g2.key for g2 in P.fn_list if g2.key.startswith((PR, '<' + PR)) and g2.unsafe]
    ctx.check(not unsafe_fns, 'no-unsafe-fn', 'no unsafe functions in the props module', None, unsafe_fns)
    # Prop::set asserts the type
    ps = [g2 for g2 in P.fn_list if g2.key == PR + 'Prop::set']
    if ps:
        clo = P.closures_of(ps[0])
        # the assertion's condition tests the dynamic type of the stored value (is_none_or(.. is::<T>()) or an equivalent match)
        ok = any(any(is_panic_site(c) for c in h.calls()) and (any(c.name.endswith('::is_none_or') for c in h.calls()) or
                                                                any(_dyn_type_test(c) for h2 in [h] + P.closures_of(h) for c in h2.calls()))
                 for h in clo)
        ctx.check(ok, 'prop-set-type-assert', 'Prop::set refuses (panics) to change the type of a property', ps[0].where())


def r4_wildcard(ctx):
    ctx.set_rule('C17.R4')
    f = ctx.anchor(UF)
    if not f:
        return
    rec = f.calls_to(UF)
    if not ctx.floor('recursive descents in update_from', len(rec), 2):
        return
    for s in rec:
        base = f.expr_operand(s.args[1], s.b, 'T')
        path = f.expr_operand(s.args[2], s.b, 'T')
        rng = [x for x in walk(path) if x[0] == 'agg' and 'RangeFrom' in x[1]]
        via_any = any(x[0] == 'constdef' and x[1].endswith('yaml::ANY') or (x[0] == 'const' and '<any>' in str(x[1])) for x in walk(base))
        if not rng:
            # lockstep form: `while let Some((segment, tail)) = remaining.split_first() { key.push_str(segment); remaining = tail; .. update_from(entry, tail) }`
            pt = peel(path)
            sf = [x for x in walk(pt) if x[0] == 'call' and x[1].endswith('::split_first')]
            is_tail = pt[0] == 'field' and pt[2] == '1' and bool(sf)
            if via_any and is_tail and sf and sf[0][2] and peel(sf[0][2][0])[0] == 'arg' and not f.loops_containing(s.b):
                # `let Some((_, tail)) = path.split_first()` .. update_from(wildcard, tail): the tail of the *whole* path = one segment less
                ctx.ok("the '<any>' branch consumes exactly one path segment (recursion with the tail of split_first)", s.where())
                continue
            pushes = [c for c in f.calls() if c.name.endswith('String::push_str') and f.dominates(c.b, s.b) and set(f.loops_containing(c.b)) == set(f.loops_containing(s.b)) and f.loops_containing(s.b)]
            seg_ok = False
            for c in pushes:
                a1 = peel(f.expr_operand(c.args[1], c.b, 'T'))
                if a1[0] == 'field' and a1[2] == '0' and any(x[0] == 'call' and x[1].endswith('::split_first') and sf and x[3] == sf[0][3] for x in walk(a1)):
                    seg_ok = True
            # split form: `let (leading, rest) = path.split_at(depth); map.get(leading.join("."))` → update_from(entry, rest)
            sa = [x for x in walk(pt) if x[0] == 'call' and x[1].endswith('::split_at')]
            if pt[0] == 'field' and pt[2] == '1' and sa and not via_any:
                joined = [x for x in walk(base) if x[0] == 'call' and x[1].endswith('::join') and x[2] and
                          any(y[0] == 'call' and y[1].endswith('::split_at') and y[3] == sa[0][3] for y in walk(x[2][0])) and peel(x[2][0])[0] == 'field' and peel(x[2][0])[2] == '0']
                dot = joined and ('"."' in show(joined[0][2][1]) or "'.'" in show(joined[0][2][1]))
                if joined and dot:
                    ctx.ok('a literal key consumes exactly the segments joined into it (key = join of the leading part of split_at, recursion with the rest)', s.where())
                    key = [x for x in walk(base) if x[0] == 'call' and x[1].endswith('Mapping::get')]
                    ctx.check(bool(key), 'literal-lookup', 'literal keys are looked up exactly (map.get), not by prefix', s.where())
                    continue
            if is_tail and seg_ok and not via_any:
                ctx.ok('a literal key consumes exactly the segments joined into it (each turn appends the segment split off the remaining path and recurses with the tail)', s.where())
                key = [x for x in walk(base) if x[0] == 'call' and x[1].endswith('Mapping::get')]
                ctx.check(bool(key), 'literal-lookup', 'literal keys are looked up exactly (map.get), not by prefix', s.where())
                continue
            ctx.violation('recursion-shape', 'a recursive descent of update_from does not shorten the path', s.where()); continue
        start = simp_add(rng[0][2][0])
        if via_any:
            ctx.check(start == ('int', 1), 'wildcard-one-segment', "the '<any>' branch consumes exactly one path segment", s.where(), show(start))
        else:
            ok = start[0] == 'bin' and start[1] == 'Add' and start[3] == ('int', 1)
            ctx.check(ok, 'literal-segments', 'a literal key of i+1 joined segments consumes exactly i+1 path segments', s.where(), show(start))
            # every prefix length is tried, and every named compartment found on the way applies (not only the first / longest one)
            hdr = innermost_loop(f, s.b)
            if hdr is not None:
                ctx.check(loop_exits_only_on_exhaustion(f, hdr), 'all-prefixes-visited', 'the scan over the path prefixes runs to the end: every matching named compartment is applied', s.where())
            elif any(is_next(x) for x in walk(path)):
                # the descent uses a loop item but is not part of the loop body proper: it sits on a way out of the loop (`.. ; break`)
                ctx.violation('all-prefixes-visited', 'the scan over the path prefixes stops at the first named compartment it finds', s.where())
            # the looked-up key is the join of path[0..=i] with '.'
            key = [x for x in walk(base) if x[0] == 'call' and x[1].endswith('Mapping::get')]
            ctx.check(bool(key), 'literal-lookup', 'literal keys are looked up exactly (map.get), not by prefix', s.where())
    # the wildcard compartment is always consulted (not a fallback): its recursion depends on nothing but the path being non-empty,
    # the value being a mapping and the '<any>' entry existing
    for s in rec:
        base = f.expr_operand(s.args[1], s.b, 'T')
        via_any = any(x[0] == 'constdef' and x[1].endswith('yaml::ANY') or (x[0] == 'const' and '<any>' in str(x[1])) for x in walk(base))
        if not via_any:
            continue
        atoms = [a for _, a in f.guard_atoms(s.b)]
        extra = []
        for a in atoms:
            if a[0] == 'bool' and a[1][0] == 'call' and a[1][1].endswith('::is_empty'):
                continue
            if a[0] in ('is', 'isnot'):
                continue
            extra.append(a)
        ctx.check(not extra, 'wildcard-unconditional', "the '<any>' compartment applies to every module, whether or not a more specific key exists at the same level", s.where(), [show_atom(a) for a in extra])
    # leaf: with an empty remaining path every non-wildcard entry becomes a property
    sets = f.calls_to(PR + 'store::Props::set')

    def path_exhausted(a):
        # `path.is_empty()`, or `path.split_first()` / `path.first()` yielding None
        if a[0] == 'bool' and a[1][0] == 'call' and a[1][1].endswith('::is_empty') and a[2] is True:
            return True
        st_ = option_state(a)
        if st_ and st_[0] == 'none':
            c = peel_c(st_[1])
            return c[0] == 'call' and c[1].endswith(('::split_first', '::first')) and bool(c[2]) and peel_c(c[2][0])[0] == 'arg'
        return False
    leaf = [s for s in sets if any(path_exhausted(a) for _, a in f.guard_atoms(s.b))]
    if not leaf:
        P = ctx.P
        for w in per_item_calls(P, f, PR + 'store::Props::set'):
            if w.form != 'consumer':
                continue
            ga = [a for _, a in f.guard_atoms(w.anchor)]
            if not any(path_exhausted(a) for a in ga):
                continue
            # the chain filters out keys that still contain the wildcard
            filt = False
            for x in walk(f.expr_operand(f.term(w.anchor)['args'][0], w.anchor, 'T')):
                if x[0] == 'call' and x[1].endswith('Iterator::filter') and len(x[2]) == 2:
                    cl = peel(x[2][1])
                    g = P.fns.get(cl[1][len('closure:'):]) if cl[0] == 'agg' and str(cl[1]).startswith('closure:') else None
                    for _, t in (ret_trees(g) if g else []):
                        a = atom_of(t, ('eq', 1))
                        if a and a[0] == 'bool' and a[2] is False and a[1][0] == 'call' and a[1][1].endswith('::contains'):
                            filt = True
            ctx.check(filt, 'leaf-skips-wildcards', "entries that still contain '<any>' are not turned into properties (filtered out of the chain feeding Props::set)", w.site.where())
            leaf = [w]
        ctx.floor('leaf assignment in update_from', len(leaf), 1)
    elif ctx.floor('leaf assignment in update_from', len(leaf), 1):
        atoms = [a for _, a in f.guard_atoms(leaf[0].b)]
        # (the test may sit in a `.filter(..)` / `.filter_map(..)` on the traversal feeding the loop)
        for arg in leaf[0].args[1:]:
            atoms += iter_filter_facts(f, f.expr_operand(arg, leaf[0].b, 'T'))
        ok = any(a[0] == 'bool' and a[1][0] == 'call' and a[1][1].endswith('::contains') and a[2] is False for a in atoms)
        ctx.check(ok, 'leaf-skips-wildcards', "entries that still contain '<any>' are not turned into properties", leaf[0].where(), [show_atom(a) for a in atoms][:5])
        # ... and nothing else is withheld: the only tests on the way to the assignment are "path exhausted", the shape tests of the
        # document (value is a mapping, key is a string), the loop's own "another entry?" and the wildcard test
        extra = []
        for a in atoms:
            if path_exhausted(a) or a[0] in ('is', 'isnot'):
                continue
            if a[0] == 'bool' and a[1][0] == 'call' and a[1][1].endswith('::contains') and a[2] is False:
                continue
            extra.append(a)
        ctx.check(not extra, 'leaf-takes-every-entry', 'with the path exhausted, every entry without a wildcard in its key becomes a property of the module, whatever its value',
                  leaf[0].where(), [show_atom(a) for a in extra][:4])


def r5_compartments_merged(ctx):
    ctx.set_rule('C17.R5')
    P = ctx.P
    f = ctx.anchor(PR + 'yaml::compartmentalize_map')
    if not f:
        return
    rec = f.calls_to(PR + 'yaml::compartmentalize_map')
    if not ctx.floor('recursive rewrite in compartmentalize_map', len(rec), 1):
        return
    for s in rec:
        t = f.expr_operand(s.args[0], s.b, 'T')
        in_place = any(x[0] == 'call' and x[1].endswith(('::or_insert', '::or_insert_with', '::or_default')) for x in walk(t)) and any(x[0] == 'call' and x[1].endswith('::entry') for x in walk(t))
        ctx.check(in_place, 'rewrite-in-place', "nested wildcard keys are rewritten inside the compartment obtained with entry(..).or_insert(..): an existing compartment is extended, never rebuilt on the side", s.where(), show(t)[:160])
    repl = [s for s in f.calls() if s.name.split('::')[-1] in ('extend', 'append') and 'Mapping' in s.name]
    ctx.check(not repl, 'no-shallow-merge', 'compartments are not combined with a shallow extend (which would replace an existing nested compartment)', repl[0].where() if repl else f.where(), [s.name for s in repl])
    # the leaf is stored under the remainder behind the wildcard
    ins = [s for s in f.calls() if s.name.endswith('Mapping::insert')]
    ctx.check(len(ins) >= 1, 'leaf-inserted', 'the entry is stored under the key remainder behind the wildcard', f.where())


def r6_units(ctx):
    """key text is cut at byte offsets: a byte length (`key.len()`) is never used as a number of characters (`chars().skip(n)` / `nth` /
    `take`), nor a character count as a byte offset - module names with multi-byte characters would get truncated property names"""
    ctx.set_rule('C17.R6')
    P = ctx.P
    fs = [f for f in P.fn_list if f.key.startswith(('des_net_utils::props::', '<des_net_utils::props::')) and f.kind != 'promoted']
    ctx.floor('functions of the props module', len(fs), 10)
    n = 0
    for f in fs:
        for s in f.calls():
            last = s.name.split('::')[-1]
            if last in ('skip', 'nth', 'take', 'step_by') and 'Iterator' in s.name and len(s.args) == 2:
                src = f.expr_operand(s.args[0], s.b, 'T')
                if any(x[0] == 'call' and x[1].endswith(('::chars', '::char_indices')) for x in walk(src)):
                    n += 1
                    amt = f.expr_operand(s.args[1], s.b, 'T')
                    ctx.check(not any(x[0] == 'call' and x[1].endswith(('str::len', 'String::len')) for x in walk(amt)), 'byte-length-as-char-count:%s' % f.key.split('::')[-1],
                              'a byte length is not used to count characters', s.where(), show(amt)[:100])
            if last in ('index', 'split_at', 'get', 'truncate', 'split_off') and ('str' in s.name or 'String' in s.name) and len(s.args) > 1:
                t = f.expr_operand(s.args[1], s.b, 'T')
                n += 1
                ctx.check(not any(x[0] == 'call' and x[1].split('::')[-1] == 'count' and any(y[0] == 'call' and y[1].endswith(('::chars', '::char_indices')) for y in walk(x)) for x in walk(t)),
                          'char-count-as-byte-offset:%s' % f.key.split('::')[-1], 'a character count is not used as a byte offset', s.where())
    ctx.ok('text offsets in the props module inspected: %d' % n, None)


def r8_stale_handle_is_loud(ctx):
    """a typed handle whose property meanwhile holds a value of another type fails loudly: in the props module the result of every
    `downcast_ref` / `downcast_mut` on a stored value is forced (`expect` / `unwrap`) or only asked for its presence (`is_some` /
    `is_none`) — never handed on as an Option (`and_then(downcast_ref)` reads a value of the wrong type as "not set")"""
    ctx.set_rule('C17.R8')
    P = ctx.P
    n = 0
    for g in P.fn_list:
        if g.kind == 'promoted' or not g.key.startswith((PR, '<' + PR)):
            continue
        for s_ in g.calls():
            if s_.name.split('::')[-1] not in ('downcast_ref', 'downcast_mut') or 'Any' not in s_.name and 'any::' not in s_.name:
                continue
            n += 1
            d = s_.dest
            forced = False
            if not d['pr']:
                for c in g.calls():
                    if any(a.get('k') in ('move', 'copy') and a['p']['l'] == d['l'] and not a['p']['pr'] for a in c.args) and \
                            c.name.split('::')[-1] in ('expect', 'unwrap', 'is_some', 'is_none', 'unwrap_unchecked'):
                        forced = True
                    # `let x = v.downcast_ref(); &x ...`: presence asked through a reference
                for b in sorted(g.reachable()):
                    for st in g.stmts(b):
                        if st['k'] == 'assign' and st['r']['k'] == 'ref' and st['r']['p']['l'] == d['l'] and not st['r']['p']['pr']:
                            tmp = st['p']['l']
                            if any(any(a.get('k') in ('move', 'copy') and a['p']['l'] == tmp for a in c.args) and c.name.split('::')[-1] in ('is_some', 'is_none') for c in g.calls()):
                                forced = True
            ctx.check(forced, 'downcast-forced:%s' % (g.root or g.key).split('::')[-1], 'a failed downcast of a stored property value is an error (panic), not an absent value', s_.where(), s_.name)
    ctx.floor('downcasts of stored property values', n, 3)


def r7_builder_keeps_cfgs(ctx):
    """the configurations included so far survive every other builder call: a by-value method of SimBuilder returns the builder it was
    given (or delegates to one that does), never a builder put together anew from parts (shared with C04.R6)"""
    from .C04 import r6_builder_keeps_seed
    r6_builder_keeps_seed(ctx, rule='C17.R7', B='des::net::runtime::SimBuilder', floor_n=2)


def run(ctx):
    r7_builder_keeps_cfgs(ctx)
    r8_stale_handle_is_loud(ctx)
    r6_units(ctx)
    r5_compartments_merged(ctx)
    r1_segment_aligned(ctx)
    r2_include_order(ctx)
    r3_typed_access(ctx)
    r4_wildcard(ctx)

"""C01 — future event set: ordered, exactly-once, cancellable (structural clauses, DESIGN §4 C01)."""
from .engine.helpers import *

EXPLANATION = (
    "Static analysis of the MIR of des-cqueue's CQueue/DualLinkedList and des's FutureEventSet: "
    "(R1) on every returning path of add/fetch_next/cancel (and the list's add/cancel/pop_min) the length counter is "
    "updated exactly as often as an element is inserted/extracted/removed; (R2) add and cancel compute the bucket index "
    "with the same expression, and every narrowing integer cast inside it is applied to a value bounded by the narrower type (a remainder by a value of that width, or the quotient (x % n*t)/t < n where new stores n*t); (R3) for every weak ordering of (event time, bound at add, bound at cancel) cancel searches "
    "the container add placed the event in; (R4) add panics iff time < bound; (R5) fetch_next's skeleton (zero container "
    "first; bound := front time of the bucket popped, before the pop); (R6) handles are linear (no Clone/Copy, cancel by value; compile-fail witnesses in the thorough tier); "
    "(R7) the timestamp given to add is stored and returned unconverted (same type in the node, no casts). "
    "(R5 also: the window fields are not advanced again after the pop, and the bound written is the popped node's own time.) "
    '(R5 also: the scan window is stepped, never repositioned - a new window value is computed from the window and the queue parameters only; R8) no timestamp or bucket width is read in a unit coarser than its resolution (index grid and window grid agree); (R9) list nodes are linked / unlinked on both sides (shared with C15.R4). '
    '(R10) the event id counter is only ever incremented (handles stay unique). '
    "(R5 also: the scan window is written by the scan and the resize only, and the front time of a bucket is read from its first node, not from a cached value.) "
    "Decides these necessary conditions only; not the time order / exactly-once behaviour over operation histories.")
ASSUMPTIONS = [
    "VecDeque/BinaryHeap/Vec behave as documented",
    "the queue's lower bound is non-decreasing (checked: its only non-constructor write stores a stored node's time)",
]
USES_B = True

Q = 'des_cqueue::stable::CQueue'
L = 'des_cqueue::stable::linked_list::DualLinkedList'
INSERT_Z = ('std::collections::VecDeque::push_back', 'std::collections::VecDeque::push_front')
EXTRACT_Z = ('std::collections::VecDeque::pop_front', 'std::collections::VecDeque::pop_back')
ZREMOVERS = {'std::collections::VecDeque::remove', 'std::collections::VecDeque::swap_remove_back', 'std::collections::VecDeque::swap_remove_front',
             'std::collections::VecDeque::retain', 'std::collections::VecDeque::retain_mut', 'std::collections::VecDeque::drain',
             'std::collections::VecDeque::pop_front', 'std::collections::VecDeque::pop_back'}
REMOVE_Z = ('std::collections::VecDeque::remove', 'std::collections::VecDeque::swap_remove_back',
            'std::collections::VecDeque::swap_remove_front')


def _count(effs, pred):
    return sum(1 for e in effs if pred(e))


def _is_call(e, *names):
    return e[0] == 'c' and (e[1].names() & set(names))


def _atoms_say(atoms, call_name, variant=None, truth=None):
    """does the path's decision list say the result of `call_name` is Some/true?"""
    for (_, a) in atoms:
        a = untry(a)
        if a[0] == 'is' and a[1][0] == 'call' and a[1][1] == call_name:
            return a[2] == variant
        if a[0] == 'bool' and a[1][0] == 'call' and a[1][1] == call_name:
            return a[2] == truth
    return None


def r1_len_accounting(ctx):
    ctx.set_rule('C01.R1')
    P = ctx.P
    qlen = ctx.anchor(Q + '::len')
    if not qlen:
        return
    lenf = returned_field(qlen)
    # sum form: len() = <length of the zero-delay container> + <stored counter (possibly through a getter)>
    for _, t_ in ret_trees(qlen):
        t_ = peel(t_)
        if t_[0] == 'field' and peel(t_[1])[0] == 'bin':
            t_ = peel(t_[1])
        if t_[0] == 'bin' and t_[1].startswith('Add'):
            for opnd in (peel(t_[2]), peel(t_[3])):
                if opnd[0] == 'field' and not str(opnd[2]).isdigit():
                    lenf = opnd[2]
                elif opnd[0] == 'call' and opnd[1].startswith(Q + '::') and P.fns.get(opnd[1]) is not None:
                    rf_ = returned_field(P.fns[opnd[1]])
                    if rf_ is not None and not str(rf_).isdigit():
                        lenf = rf_
    if not ctx.check(lenf is not None and not str(lenf).isdigit(), 'len-getter', 'CQueue::len returns a stored counter field', qlen.where(),
                     'field: %s' % lenf):
        return
    # what the stored counter counts: everything (len() returns it), or the bucket entries only (len() = the zero-delay container's
    # own length + the counter; the container then counts for itself)
    def _mentions_zero_len(t, depth=2):
        for x in walk(t):
            if x[0] == 'call' and x[1].endswith(('VecDeque::len', 'Vec::len')):
                return True
            if x[0] == 'call' and depth > 0 and x[1].startswith(Q + '::') and P.fns.get(x[1]) is not None and x[1] != Q + '::len':
                if any(_mentions_zero_len(t2, depth - 1) for _, t2 in ret_trees(P.fns[x[1]])):
                    return True
        return False
    buckets_only = any(_mentions_zero_len(t) and (peel(t)[0] == 'bin' or (peel(t)[0] == 'field' and peel(peel(t)[1])[0] == 'bin')) for _, t in ret_trees(qlen))
    INS_Z = () if buckets_only else INSERT_Z
    EXT_Z = () if buckets_only else EXTRACT_Z
    REM_Z = () if buckets_only else REMOVE_Z
    if buckets_only:
        ctx.ok('CQueue::len = length of the zero-delay container + stored counter: the counter is paired with bucket operations only', qlen.where())
    # --- CQueue::add
    f = ctx.anchor(Q + '::add')
    n = 0
    for path, outcome, decs in fn_paths(ctx, f):
        if outcome != 'return':
            continue
        n += 1
        effs = path_effects(f, path)
        inc = _count(effs, lambda e: e[0] == 'w' and e[1] == 'inc' and e[2] == lenf)
        dec = _count(effs, lambda e: e[0] == 'w' and e[1] in ('dec', 'set') and e[2] == lenf)
        ins = _count(effs, lambda e: _is_call(e, L + '::add', *INS_Z))
        if buckets_only:
            ctx.check(inc == ins and dec == 0 and _count(effs, lambda e: _is_call(e, L + '::add', *INSERT_Z)) == 1, 'add:path-imbalance',
                      'CQueue::add: a returning path performs %d bucket insertion(s) but %d increment(s) of %s' % (ins, inc, lenf), f.where_path(path))
            continue
        ctx.check(inc == 1 and dec == 0 and ins == 1, 'add:path-imbalance',
                  'CQueue::add: a returning path performs %d insertion(s) but %d increment(s) of %s' % (ins, inc, lenf),
                  f.where_path(path), 'path blocks %s' % (list(path),))
    ctx.floor('returning paths of CQueue::add', n, 2)
    # --- CQueue::fetch_next
    f = ctx.anchor(Q + '::fetch_next')
    n = 0
    for path, outcome, decs in fn_paths(ctx, f):
        if outcome != 'return':
            continue
        n += 1
        effs = path_effects(f, path)
        atoms = path_atoms(f, path, decs)
        dec = _count(effs, lambda e: e[0] == 'w' and e[1] == 'dec' and e[2] == lenf)
        other = _count(effs, lambda e: e[0] == 'w' and e[1] in ('inc', 'set') and e[2] == lenf)
        # (a pop_min whose result this path found to be None extracted nothing: `if let Some(..) = list.pop_min_until(t1)` retried later)
        ext = sum(1 for _, r in call_outcomes(f, path, decs, L + '::pop_min') if r != 'None')
        zext = 0
        for zn in EXTRACT_Z:
            if any(_is_call(e, zn) for e in effs) and _atoms_say(atoms, zn, variant='Some'):
                zext += 1
        if buckets_only:
            ctx.check(dec == ext and other == 0 and ext + zext == 1, 'fetch_next:path-imbalance',
                      'CQueue::fetch_next: a returning path extracts %d bucket element(s) but decrements %s %d time(s)' % (ext, lenf, dec), f.where_path(path))
            continue
        ext += zext
        ctx.check(dec == 1 and other == 0 and ext == 1, 'fetch_next:path-imbalance',
                  'CQueue::fetch_next: a returning path extracts %d element(s) but decrements %s %d time(s)' % (ext, lenf, dec),
                  f.where_path(path), 'path blocks %s' % (list(path),))
    ctx.floor('returning paths of CQueue::fetch_next', n, 2)
    # --- CQueue::cancel
    f = ctx.anchor(Q + '::cancel')
    n = 0
    for path, outcome, decs in fn_paths(ctx, f):
        if outcome != 'return':
            continue
        n += 1
        effs = path_effects(f, path)
        atoms = path_atoms(f, path, decs)
        dec = _count(effs, lambda e: e[0] == 'w' and e[1] == 'dec' and e[2] == lenf)
        other = _count(effs, lambda e: e[0] == 'w' and e[1] in ('inc', 'set') and e[2] == lenf)
        rem = _count(effs, lambda e: _is_call(e, *REM_Z)) if REM_Z else 0
        if any(_is_call(e, L + '::cancel') for e in effs) and _atoms_say(atoms, L + '::cancel', truth=True):
            rem += 1
        ctx.check(dec == rem and other == 0, 'cancel:path-imbalance',
                  'CQueue::cancel: a returning path removes %d element(s) but decrements %s %d time(s)' % (rem, lenf, dec),
                  f.where_path(path), 'path blocks %s' % (list(path),))
    ctx.floor('returning paths of CQueue::cancel', n, 4)
    # --- the list's own counter
    # role: the list's element counter = the field DualLinkedList::len returns (or, if that getter was inlined away, the integer
    # field of the list that DualLinkedList::add increments)
    llen = P.fns.get(L + '::len')
    lf = returned_field(llen) if llen else None
    if lf is None:
        fadd = P.fns.get(L + '::add')
        incs = set()
        for b, i, st in ([(b, i, st) for b in sorted(fadd.reachable()) for i, st in enumerate(fadd.stmts(b)) if st['k'] == 'assign'] if fadd else []):
            c = classify_write(fadd, b, i, st)
            if c and c[0] == 'inc' and (c[2] or '').endswith('DualLinkedList'):
                incs.add(c[1])
        lf = incs.pop() if len(incs) == 1 else None
    la = P.adts.get(L) or {}
    int_fields = [fd['n'] for v in la.get('variants', []) for fd in v['fields'] if fd['ty'] in ('usize', 'u64', 'u32', 'isize')]
    if lf is None and not int_fields:
        # the list keeps no counter at all (emptiness is read off the links): nothing to pair, as for the heap back end
        ctx.ok('DualLinkedList stores no element counter (emptiness derived from the links): nothing to pair', None)
    elif ctx.check(lf is not None, 'list-len-getter', 'DualLinkedList keeps a stored element counter (returned by len / incremented by add)',
                   llen.where() if llen else None, 'field: %s' % lf):
        f = ctx.anchor(L + '::add')
        for path, outcome, decs in fn_paths(ctx, f):
            if outcome != 'return':
                continue
            effs = path_effects(f, path)
            inc = _count(effs, lambda e: e[0] == 'w' and e[1] == 'inc' and e[2] == lf)
            oth = _count(effs, lambda e: e[0] == 'w' and e[1] in ('dec', 'set') and e[2] == lf)
            fg = _count(effs, lambda e: _is_call(e, 'std::mem::forget', 'std::mem::ManuallyDrop::new'))
            ctx.check(inc == 1 and oth == 0 and fg == 1, 'list-add:path-imbalance',
                      'DualLinkedList::add: a returning path leaks (links) %d node(s) but increments %s %d time(s)' % (fg, lf, inc),
                      f.where_path(path))
        for name, okval in ((L + '::cancel', None), (L + '::pop_min', None)):
            f = ctx.anchor(name)
            for path, outcome, decs in fn_paths(ctx, f):
                if outcome != 'return':
                    continue
                effs = path_effects(f, path)
                dec = _count(effs, lambda e: e[0] == 'w' and e[1] == 'dec' and e[2] == lf)
                oth = _count(effs, lambda e: e[0] == 'w' and e[1] in ('inc', 'set') and e[2] == lf)
                rets = [e for e in effs if e[0] == 'ret']
                rv = rets[-1][1] if rets else None
                if name.endswith('::cancel'):
                    success = rv == ('int', 1)
                else:
                    success = rv is not None and rv[0] == 'agg' and rv[1].endswith('::Some')
                ctx.check(dec == (1 if success else 0) and oth == 0, '%s:path-imbalance' % name.split('::')[-1],
                          '%s: a path that %s decrements %s %d time(s)' % (short(name), 'removes a node' if success else 'removes nothing', lf, dec),
                          f.where_path(path))


def _bucket_index_trees(ctx, f, consumer):
    """canonical index expressions of `self.buckets[IDX]` receivers passed to `consumer` in f"""
    out = []
    for s in f.calls_to(consumer):
        recv = f.expr_operand(s.args[0], s.b, 'T')
        t = peel(recv)
        idx = None
        if t[0] == 'call' and t[1].endswith(('::index_mut', '::index')) and len(t[2]) == 2:
            idx = t[2][1]
            base = receiver_field(t[2][0])
        elif t[0] == 'index':
            idx = t[2]; base = receiver_field(t[1])
        else:
            base = None
        out.append((s, base, idx))
    return out


_INT_BITS = {'u8': 8, 'u16': 16, 'u32': 32, 'u64': 64, 'u128': 128, 'usize': 64, 'i8': 8, 'i16': 16, 'i32': 32, 'i64': 64, 'i128': 128, 'isize': 64}


def _divrem(t):
    """('Div'|'Rem', a, b) for the operator and the method forms, else None"""
    t = peel(t)
    if t[0] == 'bin' and t[1] in ('Div', 'Rem'):
        return t[1], t[2], t[3]
    if t[0] == 'call' and len(t[2]) == 2:
        last = str(t[1]).split('::')[-1]
        if last in ('rem', 'rem_euclid', 'wrapping_rem'):
            return 'Rem', t[2][0], t[2][1]
        if last in ('div', 'div_euclid', 'wrapping_div'):
            return 'Div', t[2][0], t[2][1]
    return None


def _calendar_identity(ctx):
    """(F_all, F_width, bits of the count) when `CQueue::new` stores F_all = F_width's value * the bucket count: then
    (x % F_all) / F_width < count"""
    fn = ctx.P.fns.get(Q + '::new')
    qa = ctx.P.adts.get(Q) or {}
    ftys = {fd['n']: fd['ty'] for v in qa.get('variants', []) for fd in v['fields']}
    out = []
    if fn is None:
        return out, ftys
    for b, t in ret_trees(fn):
        t = peel(t)
        if not (t[0] == 'agg' and len(t) > 3):
            continue
        vals = {nm: canon(v) for nm, v in zip(t[3], t[2])}
        for nm, v in vals.items():
            m = peel(v)
            fac = None
            if m[0] == 'field' and len(m) > 2 and str(m[2]) == '0' and peel(m[1])[0] == 'bin' and peel(m[1])[1] == 'MulWithOverflow':
                m = peel(m[1])      # debug builds: the checked product's value component
            if m[0] == 'bin' and m[1] in ('Mul', 'MulWithOverflow'):
                fac = (m[2], m[3])
            elif m[0] == 'call' and str(m[1]).split('::')[-1] in ('mul',) and len(m[2]) == 2:
                fac = (m[2][0], m[2][1])
            if not fac:
                continue
            for w, v2 in vals.items():
                for i in (0, 1):
                    if w != nm and fac[i] == v2:
                        o = peel(fac[1 - i])
                        while o[0] == 'cast':
                            o = peel(o[1])
                        cnt = [c for c, v3 in vals.items() if peel(v3) == o and o[0] == 'arg']
                        if cnt:
                            out.append((nm, w, _INT_BITS.get(ftys.get(cnt[0], ''), 128)))
    return out, ftys


def _index_width(ctx, f, trees):
    """no truncation inside the bucket index: every narrowing integer cast in it is applied to a value that fits the narrower type by
    construction — a remainder by a value of at most that width, or the quotient (x % t_all) / t where `new` stored t_all = t * n
    (the quotient is below the bucket count).  A narrowed timestamp, year offset or width wraps beyond 2^W ns: the event is then filed
    under (and fetched from) a bucket of an earlier calendar day and comes out after later events."""
    ident, ftys = _calendar_identity(ctx)

    def _mentions_time(t):
        return any(isinstance(x, tuple) and x and x[0] == 'arg' and len(x) > 2 and x[2] != 'self' for x in walk(t))

    def width(t):
        t = peel(t)
        if t[0] == 'field' and len(t) > 2:
            return _INT_BITS.get(ftys.get(t[2], ''), 128)
        if t[0] == 'cast' and t[1] == 'IntToInt':
            return min(_INT_BITS.get(t[3], 128), width(t[2]))
        if t[0] == 'int':
            return max(1, int(t[1]).bit_length()) if isinstance(t[1], int) else 128
        dr = _divrem(t)
        if dr and dr[0] == 'Rem':
            return min(width(dr[1]), width(dr[2]))
        if dr and dr[0] == 'Div':
            a = _divrem(dr[1])
            # the quotient of the year offset by the bucket width: (x % YEAR) / WIDTH with YEAR and WIDTH queue parameters (no timestamp in
            # them, wherever the refactored queue keeps them); below the bucket count since `new` makes YEAR = count * WIDTH
            if a and a[0] == 'Rem' and not _mentions_time(a[2]) and not _mentions_time(dr[2]) and width(dr[2]) >= width(a[2]):
                return min(64, width(dr[1]))
            return width(dr[1])
        return 128

    for s, idx in trees:
        for x in walk(idx):
            if isinstance(x, tuple) and x and x[0] == 'cast' and x[1] == 'IntToInt' and len(x) >= 5:
                to, fr = _INT_BITS.get(x[3]), _INT_BITS.get(x[4])
                if to and fr and to < fr:
                    w = width(x[2])
                    ctx.check(w <= to, 'index-width',
                              'the bucket index narrows a %s to %s where the value is not bounded by the narrower type (only a remainder by a value of that '
                              'width, or the quotient (x %% n*t) / t < n, may be narrowed): timestamps beyond 2^%d ns are filed under the wrong bucket and '
                              'come out late' % (x[4], x[3], to), s.where(), {'operand': show(x[2])[:160], 'bound_bits': w})


def r2_bucket_index(ctx, rule='C01.R2'):
    ctx.set_rule(rule)
    fa = ctx.anchor(Q + '::add')
    fc = ctx.anchor(Q + '::cancel')
    if not (fa and fc):
        return
    A = _bucket_index_trees(ctx, fa, L + '::add')
    C = _bucket_index_trees(ctx, fc, L + '::cancel')
    ctx.floor('bucket insertions in CQueue::add', len(A), 1)
    ctx.floor('bucket removals in CQueue::cancel', len(C), 1)
    TIME = ('TIME',)
    def norm(f, idx):
        c = canon(idx)
        m = {('arg', 'time'): TIME, ('field', ('arg', 'handle'), 'time'): TIME}
        # role: in add the time is the Duration argument; in cancel it is the handle's Duration field
        return subst(c, m)
    ca = {}
    for (s, base, idx) in A:
        if idx is None:
            ctx.violation('add:index-unresolved', 'cannot determine the bucket index expression of an insertion', s.where())
            continue
        ca[norm(fa, idx)] = s
    cc = {}
    for (s, base, idx) in C:
        if idx is None:
            ctx.violation('cancel:index-unresolved', 'cannot determine the bucket index expression of a removal', s.where())
            continue
        cc[norm(fc, idx)] = s
    for t, s in ca.items():
        uses_time = any(x == TIME for x in walk(t))
        ctx.check(t in cc and uses_time, 'add-vs-cancel:index-mismatch',
                  'CQueue::add files an event under bucket index %s, CQueue::cancel looks under %s — a handle would be searched in a bucket its event was not put in'
                  % (show_c(t), ' / '.join(show_c(x) for x in cc)), s.where(),
                  {'add_index': show_c(t), 'cancel_index': [show_c(x) for x in cc]})
    _index_width(ctx, fa, [(s, idx) for (s, base, idx) in A if idx is not None] )
    _index_width(ctx, fc, [(s, idx) for (s, base, idx) in C if idx is not None])
    for t, s in cc.items():
        if t not in ca:
            ctx.violation('cancel-vs-add:index-mismatch',
                          'CQueue::cancel searches bucket index %s which CQueue::add never uses (%s)' % (
                              show_c(t), ' / '.join(show_c(x) for x in ca)), s.where())


def r3_container_agreement(ctx, rule='C01.R3'):
    ctx.set_rule(rule)
    fa = ctx.anchor(Q + '::add')
    fc = ctx.anchor(Q + '::cancel')
    if not (fa and fc):
        return
    # role: the bound = the self field compared with the time argument on add's panic path
    bound = None
    for path, outcome, decs in fn_paths(ctx, fa):
        if outcome == 'panic':
            for (_, a) in path_atoms(fa, path, decs):
                if a[0] == 'cmp' and a[2] == ('arg', 'time') and a[3][0] == 'field':
                    bound = a[3]
    if not ctx.check(bound is not None, 'bound-role', "CQueue::add's panic guard compares the time argument with a field of self (the lower bound)",
                     fa.where(), 'bound = %s' % (show_c(bound) if bound else None)):
        return
    T_ADD, T_CAN = ('arg', 'time'), ('field', ('arg', 'handle'), 'time')
    # placement table of add
    def placement(path):
        effs = path_effects(fa, path)
        if any(_is_call(e, *INSERT_Z) for e in effs):
            return 'zero'
        if any(_is_call(e, L + '::add') for e in effs):
            return 'bucket'
        return None
    add_paths = [(p, path_atoms(fa, p, d)) for p, o, d in fn_paths(ctx, fa) if o == 'return']
    # role: the zero container = the field add's same-instant insertion goes to
    zfield = None
    for p, _ in add_paths:
        for e in path_effects(fa, p):
            if _is_call(e, *INSERT_Z) and e[2]:
                zfield = receiver_field(e[2][0]) or zfield
    if not ctx.check(zfield is not None, 'zero-role', "CQueue::add's same-instant insertion goes to a field of self (the zero container)", fa.where(), zfield):
        return
    can_paths = []
    for p, o, d in fn_paths(ctx, fc):
        if o != 'return':
            continue
        effs = path_effects(fc, p)
        atoms = path_atoms(fc, p, d)
        searched = []
        # a search of the zero container = any use of that field on the path; it found the event iff the path removes from it
        ztouch = [e for e in effs if e[0] == 'c' and e[2] and receiver_field(e[2][0]) == zfield]
        SEARCH = {'std::iter::Iterator::position', 'std::iter::Iterator::find', 'std::iter::Iterator::any', 'std::iter::Iterator::rposition',
                  'std::iter::Iterator::find_map', 'std::collections::VecDeque::retain', 'std::collections::VecDeque::retain_mut',
                  'std::iter::Iterator::next'}
        # (peeking at the front or indexing by a computed position is not a search: ids in the container are ascending, not consecutive)
        if ztouch and any(e[1].names() & SEARCH for e in ztouch):
            zremoved = any(e[1].names() & ZREMOVERS for e in ztouch)
            said = None
            for e in ztouch:
                if e[1].names() & {'std::iter::Iterator::position', 'std::iter::Iterator::find', 'std::iter::Iterator::any'}:
                    said = _atoms_say(atoms, e[1].name, variant='Some')
            searched.append(('zero', True if zremoved else (said if said is not None else False)))
        for e in effs:
            if _is_call(e, L + '::cancel'):
                searched.append(('bucket', _atoms_say(atoms, L + '::cancel', truth=True)))
        can_paths.append((p, atoms, searched))
    TCA, TCC = ('tc_add',), ('tc_cancel',)
    bad = []
    n_ord = 0
    for ranks in weak_orderings(['time', 'tc_add', 'tc_cancel']):
        # constraints: bound non-decreasing; add accepted the event; the event is still pending
        if not (ranks['tc_add'] <= ranks['tc_cancel'] and ranks['time'] >= ranks['tc_add'] and ranks['time'] >= ranks['tc_cancel']):
            continue
        n_ord += 1
        ra = {T_ADD: ranks['time'], bound: ranks['tc_add']}
        rc = {T_CAN: ranks['time'], bound: ranks['tc_cancel']}
        places = set()
        for p, atoms in add_paths:
            if all(atom_truth(a, ra) in (True, None) for _, a in atoms):
                places.add(placement(p))
        for place in places:
            ok_any = False
            for p, atoms, searched in can_paths:
                if not all(atom_truth(a, rc) in (True, None) for _, a in atoms):
                    continue
                # the event lives in `place` only: searches elsewhere fail, a search in `place` succeeds
                consistent = all((found is not True) if c != place else (found is not False) for c, found in searched)
                if not consistent:
                    continue
                if any(c == place for c, _ in searched):
                    ok_any = True
                else:
                    bad.append((dict(ranks), place, [c for c, _ in searched], p))
            if not ok_any and not any(b[0] == dict(ranks) and b[1] == place for b in bad):
                bad.append((dict(ranks), place, [], None))
    ctx.orderings += n_ord
    names = {'time': 'time', 'tc_add': 'bound@add', 'tc_cancel': 'bound@cancel'}
    if bad:
        for ranks, place, searched, p in bad:
            od = describe_order({k: v for k, v in ranks.items()}, names)
            ctx.violation('cancel:%s-not-searched:%s' % (place, od.replace(' ', '')),
                          'CQueue::cancel does not search the %s container for an event that CQueue::add placed there when %s (searched: %s): the cancelled event would still be returned'
                          % (place, od, searched or 'nothing'), fc.where_path(p) if p else fc.where(),
                          {'ordering': od, 'placement': place, 'searched': searched})
    else:
        ctx.ok('for all %d admissible orderings of (time, bound at add, bound at cancel) cancel searches the container add used' % n_ord,
               fc.where(), {'orderings': n_ord, 'add_paths': len(add_paths), 'cancel_paths': len(can_paths)})
    # assumption check: the bound's only writes are constructor + "front time of a stored node"
    bf = bound[2]
    writers = [(f, w) for (f, w, m) in ctx.P.writers_of_field(bf, Q) if w]
    for f, w in writers:
        for (b, i, st) in w:
            t = peel(f.expr_rvalue(st['r'], b, i))
            alts = [peel(x) for x in t[1]] if t[0] == 'phi' else [t]
            fine = all(_node_time(x) is not None for x in alts) or f.key == Q + '::new'
            ctx.check(fine, 'bound-writer:%s' % f.key, 'the lower bound %s is only written with a stored node\'s time (or in the constructor)' % bf,
                      f.where(b), show(t))


def _front_call(x):
    """the `list.front_time()` call behind x: x itself, or the payload of its result when the accessor returns Option<Duration> (None for
    an empty list instead of the MAX sentinel)"""
    x = peel(x)
    if x[0] == 'call' and x[1] == L + '::front_time':
        return x
    if x[0] == 'field' and x[2] == '0':
        y = peel(x[1])
        if y[0] == 'as' and y[2] == 'Some':
            z = peel(y[1])
            if z[0] == 'call' and z[1] == L + '::front_time':
                return z
    return None


def _node_time(x):
    """x is the timestamp of a stored node: `list.front_time()`, or the time component of what `list.pop_min()` returned (R7 decides
    that pop_min hands back the node's own time).  Returns the list receiver tree, else None."""
    x = _front_call(x) or peel(x)
    if x[0] == 'call' and x[1] == L + '::front_time' and x[2]:
        return x[2][0]
    if x[0] == 'field' and x[2] == '1' and peel(x[1])[0] == 'field' and peel(x[1])[2] == '0':
        src = peel(peel(x[1])[1])
        if src[0] == 'as' and src[2] == 'Some' and peel(src[1])[0] == 'call' and peel(src[1])[1] == L + '::pop_min' and peel(src[1])[2]:
            return peel(src[1])[2][0]
    return None


def r4_past_guard(ctx, cfg='A'):
    ctx.set_rule('C01.R4', cfg)
    P = ctx.progs[cfg]
    key = Q + '::add' if cfg == 'A' else 'des::runtime::event::event_set::default_impl::FutureEventSet::add'
    f = P.fns.get(key)
    if f is None:
        ctx.violation('anchor:%s' % key, 'unresolved-anchor: %s' % key)
        return
    ctx.touch(f)
    paths = fn_paths(ctx, f)
    table = {}
    terms = None
    for path, outcome, decs in paths:
        atoms = [a for _, a in path_atoms(f, path, decs) if a[0] == 'cmp' and ('arg', 'time') in (a[2], a[3])]
        for a in atoms:
            other = a[3] if a[2] == ('arg', 'time') else a[2]
            if other[0] == 'field':
                terms = (('arg', 'time'), other)
    if not ctx.check(terms is not None, 'guard-missing:%s' % cfg,
                     '%s compares its time argument with a stored lower bound' % short(key), f.where()):
        return
    bad = []
    for ranks in weak_orderings(list(terms)):
        ctx.orderings += 1
        outs = set()
        for path, outcome, decs in paths:
            if outcome == 'unreachable':
                continue   # the `unreachable` arm rustc emits for an exhaustive match is not an execution
            atoms = [a for _, a in path_atoms(f, path, decs)]
            if all(atom_truth(a, ranks) in (True, None) for a in atoms):
                outs.add('panic' if outcome == 'panic' else 'accept')
        want = 'panic' if ranks[terms[0]] < ranks[terms[1]] else 'accept'
        if outs != {want}:
            bad.append((describe_order(ranks), sorted(outs), want))
    ctx.check(not bad, 'past-guard-table:%s' % cfg,
              '%s rejects (panics) exactly the events with time < %s' % (short(key), show_c(terms[1])), f.where(),
              {'mismatches': bad} if bad else {'table': 'time<bound: panic; time==bound: accept; time>bound: accept'})


def _param_fields(ctx):
    """fields of CQueue that are set in `new` from its two parameters (and constants) and never written again: bucket count, bucket width
    and what is derived from them"""
    P = ctx.P
    qa = P.adts.get(Q) or {}
    names = [fd['n'] for v in qa.get('variants', []) for fd in v['fields']]
    written = set()
    for g in P.fn_list:
        if g.key.startswith(Q + '::') and g.kind != 'promoted' and not g.key.startswith(Q + '::new') and not g.key.startswith(Q + '::default'):
            for nm in names:
                if g.writes_to_field(nm):
                    written.add(nm)
            for c in g.calls():
                # mutation through a borrowed field: `self.t1 += ..`, `self.buckets[i].add(..)`, `mem::replace(&mut self.x, ..)`
                if c.args and (c.name.split('::')[-1] in ('add_assign', 'sub_assign', 'replace', 'swap', 'take') or (c.argtys and c.argtys[0].startswith('&mut'))):
                    tgt = peel(g.expr_operand(c.args[0], c.b, 'T'))
                    rf = receiver_field(g.expr_operand(c.args[0], c.b, 'T'))
                    if rf in names:
                        written.add(rf)
    out = set()
    fn = P.fns.get(Q + '::new')
    if fn is not None:
        for b, t in ret_trees(fn):
            t = peel(t)
            if t[0] == 'agg' and len(t) > 3:
                for nm, v in zip(t[3], t[2]):
                    if nm in written:
                        continue
                    deps = [x for x in walk(v) if x[0] == 'arg']
                    if deps and all(x[1] in (1, 2) for x in deps):
                        out.add(nm)
    return out


def _NON_WINDOW(ctx):
    """fields of CQueue that fetch_next writes but that are not part of the scan window: the element counter and the lower bound"""
    P = ctx.P
    out = set()
    q = P.fns.get(Q + '::len')
    if q is not None and returned_field(q):
        out.add(returned_field(q))
    fa = P.fns.get(Q + '::add')
    if fa is not None:
        for s_ in fa.calls():
            pass
        for b in sorted(fa.reachable()):
            for _, a in fa.guard_atoms(b):
                if a[0] == 'cmp' and ('arg', 'time') in (a[2], a[3]):
                    o = a[3] if a[2] == ('arg', 'time') else a[2]
                    if o[0] == 'field':
                        out.add(o[2])
    return out


def r5_fetch_skeleton(ctx, rule='C01.R5'):
    ctx.set_rule(rule)
    f = ctx.anchor(Q + '::fetch_next')
    if not f:
        return
    zs = [s for s in f.calls() if s.names() & set(EXTRACT_Z)]
    pops = f.calls_to(L + '::pop_min')
    fronts = f.calls_to(L + '::front_time')
    if not (ctx.floor('zero-container extraction in fetch_next', len(zs), 1) and ctx.floor('pop_min in fetch_next', len(pops), 1)):
        return
    for p in pops:
        ctx.check(any(f.dominates(z.b, p.b) for z in zs), 'zero-first',
                  'the zero-delay container is consulted before any bucket is popped', p.where())
    # bound written with the front time of the bucket that is popped, before the pop, head not changed in between
    n = 0
    _seen_steps = set()
    for path, outcome, decs in fn_paths(ctx, f):
        if outcome != 'return':
            continue
        effs = path_effects(f, path)
        idx_pop = [i for i, e in enumerate(effs) if _is_call(e, L + '::pop_min')]
        if not idx_pop:
            continue
        n += 1
        ip = idx_pop[-1]
        pop_recv = canon(peel(effs[ip][2][0]))
        # the scan window (the fields selecting / bounding the current bucket) does not move once the element to return was popped:
        # what remains of the current window must still accept insertions that are due inside it
        outs_ = call_outcomes(f, path, decs, L + '::pop_min')
        if not outs_ or outs_[-1][1] != 'None':
            idxf = {x[2] for x in walk(peel(effs[ip][2][0])) if x[0] == 'field' and len(x) > 3 and str(x[3]).split('<')[0].endswith('CQueue') and not str(x[2]).isdigit()}
            qa = ctx.P.adts.get(Q) or {}
            idxf -= {fd['n'] for v in qa.get('variants', []) for fd in v['fields'] if 'DualLinkedList' in fd['ty']} | _NON_WINDOW(ctx)
            # window = what indexes the bucket vector + the fields stepped together with it in the advance
            adv_sets = []
            for path2, o2, d2 in fn_paths(ctx, f):
                w2 = [e[2] for e in path_effects(f, path2) if e[0] == 'w' and len(e) > 3 and str(e[3]).endswith('CQueue')]
                if any(x in idxf for x in w2):
                    adv_sets.append(set(w2))
            window = set(idxf)
            for st_ in adv_sets:
                window |= {x for x in st_ if x not in _NON_WINDOW(ctx)}
            late = [e for e in effs[ip + 1:] if e[0] == 'w' and e[2] in window]
            ctx.check(not late, 'no-advance-after-pop', 'fetch_next does not advance the scan window after popping the element it returns', f.where_path(path),
                      sorted({e[2] for e in late}))
            # the window is stepped, never repositioned: the new value of a window field is computed from the window itself and the queue's
            # two parameters (bucket count, bucket width) alone - not from a stored timestamp, a front time or a count of empty turns.
            # (Whether a jump over several buckets lands on the right window is arithmetic this analysis cannot check: a correct
            # skip-ahead optimisation would be reported here as well; DESIGN section 4 C01.)
            params = _param_fields(ctx)
            steps_ = []
            for e in effs[:ip]:
                if e[0] == 'w' and e[2] in window and e[4] is not None:
                    steps_.append(e)
                elif e[0] == 'c' and e[1].name.split('::')[-1] in ('add_assign', 'sub_assign') and len(e[2]) == 2:
                    # `self.t0 += self.t` on a Duration is a call of AddAssign: a step of the field it borrows
                    tgt = peel(e[2][0])
                    if tgt[0] == 'field' and len(tgt) > 3 and str(tgt[3]).split('<')[0].endswith('CQueue') and tgt[2] not in _NON_WINDOW(ctx) and tgt[2] not in params:
                        steps_.append(('w', 'inc', tgt[2], tgt[3], e[2][1], e[1].b, 'T'))
            for e in steps_:
                def chain(x):
                    # names on the projection chain of a field read (`self.layout.n` -> {n, layout})
                    out_ = set()
                    while isinstance(x, tuple) and x and x[0] in ('field', 'deref', 'ref'):
                        if x[0] == 'field' and not str(x[2]).isdigit():
                            out_.add(x[2])
                        x = x[1]
                    return out_
                reads = set()
                for x in walk(e[4]):
                    if x[0] == 'field' and not str(x[2]).isdigit():
                        ch = chain(x)
                        if not (ch & (window | params)):
                            reads.add(x[2])
                calls_ = {x[1] for x in walk(e[4]) if x[0] == 'call' and not x[1].startswith(('std::ops::', 'core::ops::', 'std::time::Duration::add', 'core::time::Duration::add')) and
                          x[1].split('::')[-1] not in ('add', 'add_assign', 'rem', 'clone', 'deref', 'deref_mut', 'from', 'into')}
                alien = sorted(reads)
                k_ = (e[2], tuple(alien), tuple(sorted(calls_)))
                if k_ in _seen_steps:
                    continue
                _seen_steps.add(k_)
                ctx.check(not alien and not calls_, 'window-stepped-not-repositioned:%s' % e[2],
                          'the scan window moves by a step computed from the window and the queue parameters only', f.where_path(path),
                          {'field': e[2], 'reads': alien, 'calls': sorted(calls_), 'value': show(e[4])[:140]})
        wr = [i for i, e in enumerate(effs[:ip]) if e[0] == 'w' and e[1] == 'set' and e[4] is not None and _front_call(e[4]) is not None]
        ok = False
        detail = None
        if wr:
            iw = wr[-1]
            src_call = _front_call(effs[iw][4])
            src_recv = canon(peel(src_call[2][0]))
            # from the evaluation of front_time (not merely the store of its result) up to the pop
            ic = [i for i, e in enumerate(effs[:ip]) if e[0] == 'c' and len(src_call) > 3 and e[1].b == src_call[3] and _is_call(e, L + '::front_time')]
            between = effs[(ic[-1] if ic else iw):ip]
            # no write to any field used in the index expression between the bound write and the pop
            idx_fields = {x[2] for x in walk(pop_recv) if x[0] == 'field'}
            dirty = [e for e in between if e[0] == 'w' and e[2] in idx_fields]
            # the front_time call itself must be evaluated with the same index fields unchanged since
            ok = (src_recv == pop_recv) and not dirty
            detail = {'bound_from': show_c(src_recv), 'popped': show_c(pop_recv), 'bound_field': effs[iw][2]}
        if not ok:
            # equivalent: the bound is set AFTER the pop to the timestamp that very pop returned (same node by construction)
            post = [e for e in effs[ip + 1:] if e[0] == 'w' and e[1] == 'set' and e[4] is not None and peel(e[4])[0] == 'field']
            for e in post:
                v = peel(e[4])
                src = peel(peel(peel(v[1])[1])[1]) if (v[2] == '1' and peel(v[1])[0] == 'field' and peel(peel(v[1])[1])[0] == 'as') else None
                if src is not None and src[0] == 'call' and src[1] == L + '::pop_min' and len(src) > 3 and src[3] == effs[ip][1].b:
                    ok = True
                    detail = {'bound_from': 'time returned by the pop', 'bound_field': e[2]}
        ctx.check(ok, 'bound-is-popped-time',
                  'on the bucket path the lower bound is set to the front time of the very bucket that is popped, before the pop',
                  f.where_path(path), detail)
    ctx.floor('bucket-pop paths of fetch_next', n, 1)
    # what R5 compares and records is the time of the node the pop removes: front_time reads the first node of the list (or MAX for an
    # empty list), not a separately maintained copy of it
    ft = ctx.P.fns.get(L + '::front_time')
    if ft is not None:
        ctx.touch(ft)
        alts = []
        for _, t_ in ret_trees(ft):
            t_ = peel(t_)
            alts += [peel(y) for y in (t_[1] if t_[0] == 'phi' else [t_])]
        def first_node_time(x):
            x = ptr_norm(x)
            return x[0] == 'field' and x[2] == 'time' and any(y[0] == 'field' and y[2] in ('next', 'head') for y in walk(x[1]))
        def is_max(x):
            return x[0] in ('constdef', 'const') and 'MAX' in str(x[1])
        la_ = ctx.P.adts.get(L) or {}
        time_fields = {fd['n'] for v in la_.get('variants', []) for fd in v['fields'] if fd['ty'] in ('std::time::Duration', 'core::time::Duration')}
        cached = [x for x in alts if x[0] == 'field' and x[2] in time_fields and peel(x[1])[0] == 'arg']
        okf = bool(alts) and not cached
        ctx.check(okf, 'front-time-reads-first-node', "DualLinkedList::front_time reads the first node's time from the list itself", ft.where(), [show(x)[:80] for x in alts][:3])
    # the scan window belongs to fetch_next: nothing else moves it (an advance while events may still be added into the rest of the
    # current window - e.g. from cancel, when it empties the head bucket - puts a later add behind the scan)
    qa_ = ctx.P.adts.get(Q) or {}
    names_ = {fd['n'] for v in qa_.get('variants', []) for fd in v['fields']}
    wf_ = set()
    for path2, o2, d2 in fn_paths(ctx, f):
        effs2 = path_effects(f, path2)
        pops2 = [e for e in effs2 if _is_call(e, L + '::pop_min')]
        for e in pops2:
            wf_ |= {x[2] for x in walk(peel(e[2][0])) if x[0] == 'field' and len(x) > 3 and str(x[3]).split('<')[0].endswith('CQueue') and not str(x[2]).isdigit()}
    wf_ -= {fd['n'] for v in qa_.get('variants', []) for fd in v['fields'] if 'DualLinkedList' in fd['ty']} | _NON_WINDOW(ctx) | _param_fields(ctx)
    if not wf_:
        ctx.note('scan position is not a direct field of CQueue (kept in a private record): writer rule not applied')
    else:
        scope_f = {g.key for g in ctx.P.scope_of(f.key)} | {f.key}
        for g in ctx.P.fn_list:
            if not g.key.startswith(Q + '::') or g.kind == 'promoted' or g.key in scope_f or (g.root or g.key) in scope_f or g.key.startswith((Q + '::new', Q + '::default')):
                continue
            for b in sorted(g.reachable()):
                for i, st in enumerate(g.stmts(b)):
                    if st['k'] == 'assign' and st['p']['pr']:
                        c = classify_write(g, b, i, st)
                        if c and c[1] in wf_ and (c[2] or '').split('<')[0].endswith('CQueue'):
                            ctx.violation('window-writer:%s' % g.key.split('::')[-1], 'the scan position of the calendar is written outside fetch_next', g.where(b), c[1])


def r6_handle_linearity(ctx):
    ctx.set_rule('C01.R6')
    P = ctx.P
    H = 'des_cqueue::stable::EventHandle'
    ctx.check(H in P.adts, 'handle-adt', 'EventHandle type present')
    for tr in ('std::clone::Clone', 'std::marker::Copy'):
        ctx.check(not P.has_impl(tr, H), 'handle-%s' % tr.split('::')[-1],
                  'EventHandle does not implement %s (a handle can be cancelled at most once)' % tr.split('::')[-1])
    fc = ctx.anchor(Q + '::cancel')
    if fc:
        ty = fc.local_ty(2)
        ctx.check(ty.startswith(H) and not ty.startswith('&'), 'cancel-by-value', 'CQueue::cancel consumes the handle (by value)', fc.where(), ty)
    # all fields private or construction impossible outside: _phantom private
    a = P.adts.get(H)
    if a:
        priv = [fl['n'] for v in a['variants'] for fl in v['fields'] if fl['vis'] != 'pub']
        ctx.check(bool(priv), 'handle-unforgeable', 'EventHandle has a private field, so user code cannot forge or duplicate handles', None, priv)


def rB_heap_backend(ctx):
    """configuration B: BinaryHeap event set — len is derived; guard + placement"""
    if 'B' not in ctx.progs:
        return
    ctx.set_rule('C01.R1', 'B')
    P = ctx.progs['B']
    k = 'des::runtime::event::event_set::default_impl::FutureEventSet::len'
    f = P.fns.get(k)
    if f is None:
        ctx.violation('anchor:%s' % k, 'unresolved-anchor %s (cfg B)' % k)
    else:
        calls = {s.name for s in f.calls()}
        ctx.check(not f.writes_to_field('len'), 'heap-len-derived', 'heap back end: len is derived from its containers, nothing to pair', f.where(), sorted(calls))
    r4_past_guard(ctx, 'B')
    ctx.cfg = 'A'


def r7_timestamp_roundtrip(ctx):
    """an event is returned together with the timestamp it was scheduled with: the stored time is the parameter itself"""
    ctx.set_rule('C01.R7')
    P = ctx.P
    N = 'des_cqueue::stable::linked_list::EventNode'
    a = P.adts.get(N)
    fa = ctx.anchor(Q + '::add')
    if a is None or fa is None:
        ctx.violation('anchor:EventNode', 'unresolved-anchor EventNode / CQueue::add'); return
    tparam = fa.local_ty(2)
    fty = next((fl['ty'] for fl in a['variants'][0]['fields'] if fl['n'] == 'time'), None)
    ctx.check(fty == tparam, 'node-time-type', "a list node stores the timestamp with the type add() receives it in (no narrower representation)", None, {'node.time': fty, 'add(time)': tparam})
    fn = ctx.anchor(N + '::new')
    if fn:
        ok = False
        for b, t in ret_trees(fn):
            for x in walk(t):
                if x[0] == 'agg' and x[1].endswith('EventNode::EventNode') and 'time' in x[3]:
                    v = x[2][x[3].index('time')]
                    ok = peel(v)[0] == 'arg' and peel(v)[2] == 'time'
        ctx.check(ok, 'node-time-stored', 'EventNode::new stores the time parameter unchanged', fn.where())
    fl = ctx.anchor(L + '::add')
    if fl:
        s = fl.calls_to(N + '::new')
        ok = len(s) == 1 and peel(fl.expr_operand(s[0].args[1], s[0].b, 'T')) == ('arg', 3, 'time')
        ctx.check(ok, 'list-add-passes-time', 'DualLinkedList::add passes its time parameter to the node unchanged', fl.where())
    # the (event, time) pair handed out for a node: built in EventNode::into_inner, or in its caller(s) if that helper was inlined
    scope = P.scope_of(N + '::into_inner')
    if ctx.floor('functions unpacking a list node', len(scope), 1):
        ok = False
        for fi in scope:
            ctx.touch(fi)
            for b, t0 in ret_trees(fi):
                for t in walk(t0):
                    if t[0] == 'agg' and t[1] == 'tuple' and len(t[2]) == 2:
                        v = peel(t[2][1])
                        # (the value handed out IS the field projection: a conversion would sit above it; how the node itself is reached —
                        # through the box, or moved out of it with ptr::read — does not matter)
                        if v[0] == 'field' and v[2] == 'time' and (len(v) < 4 or str(v[3]).endswith('EventNode')):
                            ok = True
        ctx.check(ok, 'node-time-returned', 'the node\'s stored time is returned with the event, unconverted', scope[0].where())
    # bucket path of CQueue::add hands `time` on unchanged; zero path stores it in the tuple
    for s in fa.calls_to(L + '::add'):
        ctx.check(peel(fa.expr_operand(s.args[2], s.b, 'T')) == ('arg', 2, 'time'), 'queue-add-passes-time', 'CQueue::add files the event under the time it was given', s.where())
    for s in [c for c in fa.calls() if c.name in INSERT_Z]:
        t = peel(fa.expr_operand(s.args[1], s.b, 'T'))
        # the stored entry (a tuple, or a private struct) carries the time parameter itself
        ok = t[0] == 'agg' and any(peel(x)[0] == 'arg' and peel(x)[1] == 2 for x in t[2])
        if not ok:
            # the entry carries no time of its own: it is only filed when time == B (B a field of the queue), fetch_next hands B out with
            # every zero-delay entry, and B is written only on paths that found the zero-delay container empty — so B is still that time
            eqs = [a for _, a in fa.guard_atoms(s.b) if a[0] == 'cmp' and a[1] == 'eq' and ('arg', 'time') in (a[2], a[3])]
            bfs = {(a[3] if a[2] == ('arg', 'time') else a[2])[2] for a in eqs if (a[3] if a[2] == ('arg', 'time') else a[2])[0] == 'field'}
            ffz = P.fns.get(Q + '::fetch_next')
            if len(bfs) == 1 and ffz is not None:
                bfz = next(iter(bfs))
                good = True
                nz = 0
                for path, outcome, decs in fn_paths(ctx, ffz):
                    if outcome != 'return':
                        continue
                    outs = [r for zn in EXTRACT_Z for _, r in call_outcomes(ffz, path, decs, zn)]
                    effs = path_effects(ffz, path)
                    wrote = any(e[0] == 'w' and e[2] == bfz for e in effs)
                    if 'Some' in outs:
                        nz += 1
                        r = path_ret_resolved(ffz, path)
                        r = peel(r) if r is not None else None
                        tm = peel(r[2][1]) if r is not None and r[0] == 'agg' and r[1] == 'tuple' and len(r[2]) == 2 else None
                        good = good and tm is not None and tm[0] == 'field' and tm[2] == bfz and not wrote
                    elif wrote:
                        good = good and 'None' in outs
                ok = good and nz >= 1
        ctx.check(ok, 'zero-keeps-time', 'the zero-delay container keeps the given time with the event', s.where())
    ff = ctx.anchor(Q + '::fetch_next')
    if ff:
        for path, outcome, decs in fn_paths(ctx, ff):
            if outcome != 'return':
                continue
            r = path_ret(ff, path)
            lossy = [x for x in walk(r) if x[0] == 'cast' and str(x[1]) in ('IntToInt', 'FloatToInt', 'IntToFloat', 'FloatToFloat')] if r else ['?']   # (numeric conversions; pointer/unsizing casts of the container do not touch the time)
            ctx.check(not lossy, 'fetch-returns-stored-time', 'fetch_next returns the stored (event, time) pair without converting the time', ff.where_path(path))


LOSSY_TIME = ('as_micros', 'as_millis', 'as_secs', 'as_secs_f32', 'as_secs_f64', 'subsec_micros', 'subsec_millis', 'mul_f32', 'mul_f64',
              'div_f32', 'div_f64', 'div_duration_f32', 'div_duration_f64')


def r8_time_grid(ctx, rule='C01.R8'):
    """the calendar is laid out in the resolution timestamps have: bucket index (add, cancel) and scan window (fetch_next) are both computed
    from full-resolution values (Duration arithmetic, as_nanos) - a coarser read-out of a timestamp or of the bucket width on one side
    makes the index grid and the window grid drift apart for widths that are not a multiple of the coarser unit"""
    ctx.set_rule(rule)
    P = ctx.P
    fs = [f for f in P.fn_list if f.key.startswith(('des_cqueue::stable::CQueue::', 'des_cqueue::stable::linked_list::DualLinkedList::')) and f.kind != 'promoted']
    fine = [s for f in fs for s in f.calls() if s.name.endswith('Duration::as_nanos')]
    ctx.floor('full-resolution read-outs (as_nanos) in the calendar queue', len(fine), 2)
    n = 0
    for f in fs:
        for s in f.calls():
            if 'time::Duration::' in s.name or s.name.startswith('std::time::Duration'):
                n += 1
                ctx.check(s.name.split('::')[-1] not in LOSSY_TIME, 'coarse-time-readout:%s' % f.key.split('::')[-1],
                          'the calendar queue never reads a timestamp or the bucket width in a unit coarser than its resolution', s.where(), s.name)
    ctx.ok('Duration operations in the calendar queue inspected: %d' % n, None)


def r10_id_sequence(ctx):
    """handles stay unique for the life of the queue: the id counter only ever counts up (a reset would let a stale handle of a fetched
    event name a newly added one - cancelling it would then remove a pending event)"""
    ctx.set_rule('C01.R10')
    P = ctx.P
    fa = ctx.anchor(Q + '::add')
    if not fa:
        return
    # role: the field whose value becomes the `id` of the handle add returns
    idf = set()
    for b, t in ret_trees(fa):
        for x in walk(t):
            if x[0] == 'agg' and str(x[1]).endswith('EventHandle') and len(x) > 3 and 'id' in x[3]:
                for y in walk(x[2][list(x[3]).index('id')]):
                    if y[0] == 'field' and len(y) > 3 and str(y[3]).split('<')[0].endswith('CQueue'):
                        idf.add(y[2])
    if not ctx.floor('id counter field of CQueue (source of EventHandle.id)', len(idf), 1):
        return
    n = 0
    for g in P.fn_list:
        if not g.key.startswith(Q + '::') or g.kind == 'promoted' or g.key.startswith((Q + '::new', Q + '::default')):
            continue
        for b in sorted(g.reachable()):
            for i, st in enumerate(g.stmts(b)):
                if st['k'] != 'assign' or not st['p']['pr']:
                    continue
                c = classify_write(g, b, i, st)
                if c and c[1] in idf:
                    n += 1
                    v = peel(c[3]) if len(c) > 3 and c[3] is not None else ('unknown',)
                    # `x += 1`, or `x = x.wrapping_add(1)` / `x + 1` of the counter itself
                    up = c[0] == 'inc' or ((v[0] == 'call' and v[1].split('::')[-1] in ('wrapping_add', 'checked_add', 'saturating_add', 'add') and len(v[2]) == 2 and
                                            peel(v[2][0])[0] == 'field' and peel(v[2][0])[2] == c[1] and v[2][1] == ('int', 1)) or
                                           (v[0] == 'bin' and v[1].startswith('Add') and peel(v[2])[0] == 'field' and peel(v[2])[2] == c[1] and v[3] == ('int', 1)) or
                                           (v[0] == 'field' and v[2] == '0' and peel(v[1])[0] == 'bin' and peel(v[1])[1].startswith('Add') and peel(peel(v[1])[2])[0] == 'field' and peel(peel(v[1])[2])[2] == c[1]))
                    ctx.check(up, 'id-counter-only-counts-up', 'the event id counter is only ever incremented', g.where(b), {'kind': c[0], 'field': c[1], 'value': show(v)[:80]})
    ctx.floor('writes of the id counter', n, 1)


def run(ctx):
    r10_id_sequence(ctx)
    # (R9) the per-bucket list stays a well-formed doubly linked list: a node handed to the list is linked on both sides, a node taken
    # out (pop, cancel) is unlinked on both sides before it is released (shared with C15.R4) - a half-unlinked neighbour loses the next
    # event inserted in front of it
    from .C15 import r4_node_typestate
    r4_node_typestate(ctx, rule='C01.R9')
    r8_time_grid(ctx)
    r7_timestamp_roundtrip(ctx)
    r1_len_accounting(ctx)
    r2_bucket_index(ctx)
    r3_container_agreement(ctx)
    r4_past_guard(ctx, 'A')
    r5_fetch_skeleton(ctx)
    r6_handle_linearity(ctx)
    rB_heap_backend(ctx)


def thorough(ctx):
    from .engine.witness import check_witnesses
    res = check_witnesses(ctx, 'C01.R6', ('W1',), ('W1CancelTwice','W1CancelTwiceTwin','W1bHandleClone','W1bHandleCloneTwin'))
    return {'witnesses': res}

"""C20 — dropping a simulation releases everything (structural clauses, DESIGN §4 C20)."""
from collections import defaultdict
from .engine.helpers import *

EXPLANATION = (
    "Static analysis of ownership: (R1) the strong-reference graph over all ADTs of the workspace (owning fields; Weak, references and "
    "raw pointers excluded) is computed and every strongly connected component that contains a *shared* edge (through Arc/Rc) must be "
    "tabled; inside such a component every container that lives in a shared node and (transitively, by unique ownership) holds shared "
    "edges back into the component must have a tabled breaker function that empties it and is reachable from ModuleContext's Drop — or a "
    "tabled tree argument that is re-checked; (R2) the breakers do their job: ModuleContext::drop calls dissolve_paths for every gate, "
    "dissolve_paths takes every connection slot of the gate (the whole slot array) and recurses, and releases the packets queued in the "
    "connection's channel; (R3) Sim/SimStaticsGuard drop clear the global module context and reset the whole global event buffer; "
    "(R4) the back edges (parent, me, gate owner, timer handle->slot, slot->queue, buffer->globals) are Weak. "
    "Opaque owners (dyn Module, dyn ProcessingElement, Waker, tokio runtime) end the search: cycles closed through user state are invisible. "
    '(R5, shared with C15.R5) events still queued when the simulation is dropped are released: every bucket list pops until empty and the buckets are emptied before the allocator goes. '
    '(R3 also: the statics guard releases on every path of its Drop, also while unwinding; R6, shared with C16.R2) the drop thunk releases the boxed value whenever the pointer is non-null. '
    '(R7) no task future or future-producing closure owns a strong handle to its own module. '
    '(R8) timer futures (Sleep, Timeout, Interval) store no Waker. '
    "Decides these necessary conditions only; not exactly-once destruction over generated simulations.")
ASSUMPTIONS = ["Arc/Rc free their content when the last strong reference is dropped", "cycles through dyn Module / user state are out of reach"]

SHARED = ('std::sync::Arc', 'std::rc::Rc', 'alloc::sync::Arc', 'alloc::rc::Rc')
WEAK = ('std::sync::Weak', 'std::rc::Weak', 'alloc::sync::Weak', 'alloc::rc::Weak')


def ownership_graph(P):
    """edges[(A, B)] = list of (field description, shared?)"""
    edges = defaultdict(list)

    def targets(tj, acc, shared):
        k = tj.get('k')
        if k == 'adt':
            p = strip_generics(tj['p'])
            if p in WEAK:
                return
            sh = shared or p in SHARED
            if p in P.adts:
                acc.append((p, sh))
            for a in tj.get('a', []):
                targets(a, acc, sh)
        elif k == 'tuple':
            for a in tj.get('a', []):
                targets(a, acc, shared)
        elif k == 'seq':
            targets(tj['t'], acc, shared)

    for p, a in P.adts.items():
        for v in a['variants']:
            for fl in v['fields']:
                acc = []
                targets(fl['tyj'], acc, False)
                for (tgt, sh) in acc:
                    edges[(p, tgt)].append(('%s.%s' % (p.split('::')[-1], fl['n']), sh, fl['ty']))
    return edges


# component (identified by a member) -> {container 'Type.field' -> ('breaker', fn key) | ('tree', reason)}
COMPONENTS = {
    'des::net::gate::Gate': {
        'Connections.connections': ('breaker', 'des::net::gate::Gate::dissolve_paths'),
        'Buffer.packets': ('breaker', 'des::net::channel::Channel::dissolve_queue'),
    },
    'des::net::module::ctx::ModuleContext': {
        'ModuleContext.children': ('tree', 'children are only ever inserted as freshly created contexts (ModuleContext::child_of); the up edges parent/me are Weak, so parent->child strong edges form a tree'),
    },
}
DROP_ROOT = '<des::net::module::ctx::ModuleContext as std::ops::Drop>::drop'


def r1_shared_cycles(ctx):
    ctx.set_rule('C20.R1')
    P = ctx.P
    edges = ownership_graph(P)
    g = defaultdict(set)
    for (a, b) in edges:
        g[a].add(b)
    comps = [c for c in sccs(g) if len(c) > 1 or (c[0] in g.get(c[0], ()))]
    shared_comps = []
    for c in comps:
        cs = set(c)
        sh = [(a, b, d) for (a, b), ds in edges.items() if a in cs and b in cs for d in ds if d[1]]
        if sh:
            shared_comps.append((cs, sh))
        else:
            ctx.ok('recursive type without shared ownership (a tree by construction): %s' % ', '.join(sorted(x.split('::')[-1] for x in cs)))
    ctx.floor('strongly connected components with shared (Arc/Rc) edges', len(shared_comps), 2)
    reach, _ = P.reachable_from([DROP_ROOT])
    for cs, sh in shared_comps:
        key = next((k for k in COMPONENTS if k in cs), None)
        names = sorted(x.split('::')[-1] for x in cs)
        if key is None:
            ctx.violation('untabled-cycle:%s' % '+'.join(names),
                          'types %s can form a reference cycle through shared ownership (%s) and no breaker is tabled: objects in such a cycle are never released' % (
                              ', '.join(names), '; '.join(sorted({d[0] for _, _, d in sh}))), None, {'shared_edges': sorted({d[0] + ': ' + d[2] for _, _, d in sh})})
            continue
        # shared nodes = targets of shared edges; containers = fields reachable by unique ownership from a shared node that hold a shared edge into the component
        shared_nodes = {b for _, b, _ in sh}
        containers = set()
        for n in shared_nodes:
            # walk unique (non-shared) ownership from n
            seen = {n}
            st = [n]
            while st:
                x = st.pop()
                for (a, b), ds in edges.items():
                    if a != x or b not in cs:
                        continue
                    for d in ds:
                        if d[1]:
                            # x holds a shared edge: the field of x's *owner chain* that is a collection is the container;
                            # record the outermost collection-typed field on the unique path
                            containers.add(_container_of(P, edges, cs, n, x, d[0]))
                        elif b not in seen:
                            seen.add(b); st.append(b)
        containers.discard(None)
        table = COMPONENTS[key]
        for cont in sorted(containers):
            ent = table.get(cont)
            if ent is None:
                # a private container field may have been renamed: the type's single tabled container stands for its single container
                ty = cont.split('.')[0]
                tabled = [k for k in table if k.split('.')[0] == ty]
                found = [c for c in containers if c.split('.')[0] == ty]
                if len(tabled) == 1 and len(found) == 1:
                    ent = table[tabled[0]]
            if ent is None:
                ctx.violation('unbroken-container:%s' % cont,
                              '%s lives in a shared object and holds strong references back into the cycle {%s}; nothing empties it when the simulation is dropped, so its contents (and what they reference) leak' % (cont, ', '.join(names)),
                              None, {'component': names})
                continue
            kind, what = ent
            if kind == 'breaker':
                f = P.fns.get(what)
                ok = f is not None and what in reach
                emptied = False
                if f is not None:
                    fld = cont.split('.')[1]
                    owner_fld = _owner_field(P, cont)
                    for s in f.calls():
                        nm = s.name.split('::')[-1]
                        if nm in ('take', 'clear', 'drain', 'replace') and s.args:
                            t = f.expr_operand(s.args[0], s.b, 'T')
                            if any(x[0] == 'field' and x[2] in (fld, owner_fld) for x in walk(t)) or any(x[0] == 'call' and x[1].endswith('::next') for x in walk(t)):
                                emptied = True
                        # `slots.iter_mut().filter_map(Option::take)` consumed by a loop: every element is taken as the loop reaches it
                        if nm in ('filter_map', 'for_each', 'map') and len(s.args) == 2:
                            cb = peel(f.expr_operand(s.args[1], s.b, 'T'))
                            src = f.expr_operand(s.args[0], s.b, 'T')
                            if cb[0] == 'fnitem' and cb[1] in ('std::option::Option::take', 'std::mem::take') and \
                                    any(x[0] == 'field' and x[2] in (fld, owner_fld) for x in walk(src)):
                                emptied = True
                ctx.check(ok and emptied, 'breaker:%s' % cont, '%s is emptied by %s, which is reachable from ModuleContext::drop' % (cont, short(what)),
                          f.where() if f else None, {'reachable_from_drop': what in reach, 'empties': emptied})
            else:
                ctx.ok('%s: %s' % (cont, what))
                _recheck_tree(ctx, P)


def _owner_field(P, cont):
    """the field that owns `Type` of cont inside its parent (e.g. Buffer.packets -> ChannelInner.buffer -> 'buffer')"""
    ty = cont.split('.')[0]
    for p, a in P.adts.items():
        for v in a['variants']:
            for fl in v['fields']:
                if fl['tyj'].get('k') == 'adt' and strip_generics(fl['tyj']['p']).endswith('::' + ty):
                    return fl['n']
    return None


def _container_of(P, edges, cs, shared_node, holder, field_desc):
    """name the collection-typed field on the unique-ownership path shared_node ->* holder that contains the shared edge"""
    # BFS from shared_node along unique edges, remembering the path of field descriptions
    from collections import deque
    q = deque([(shared_node, [])])
    seen = {shared_node}
    while q:
        x, path = q.popleft()
        if x == holder:
            full = path + [field_desc]
            # prefer the first field whose type is a collection / Option array
            for fd in full:
                ty = _field_type(P, fd)
                if ty and any(c in ty for c in ('Vec<', 'VecDeque<', 'HashMap<', 'BTreeMap<', '; ', 'LinkedList<', 'BinaryHeap<')):
                    return fd
            return full[-1]
        for (a, b), ds in edges.items():
            if a == x and b in cs:
                for d in ds:
                    if not d[1] and b not in seen:
                        seen.add(b); q.append((b, path + [d[0]]))
    return None


def _field_type(P, fd):
    ty, fld = fd.split('.')
    for p, a in P.adts.items():
        if p.endswith('::' + ty):
            for v in a['variants']:
                for fl in v['fields']:
                    if fl['n'] == fld:
                        return fl['ty']
    return None


def _strong_reach(P, tyj):
    """local ADTs reachable from a type through owning (strong) edges"""
    edges = ownership_graph(P)
    g = defaultdict(set)
    for (a, b) in edges:
        g[a].add(b)
    start = []

    def targets(tj):
        k = tj.get('k')
        if k == 'adt':
            p = strip_generics(tj['p'])
            if p in WEAK:
                return
            if p in P.adts:
                start.append(p)
            for a in tj.get('a', []):
                targets(a)
        elif k == 'tuple':
            for a in tj.get('a', []):
                targets(a)
        elif k == 'seq':
            targets(tj['t'])
    targets(tyj)
    seen = set()
    st = list(start)
    while st:
        x = st.pop()
        if x in seen:
            continue
        seen.add(x)
        st.extend(g.get(x, ()))
    return seen


def _is_weak_field(P, adt, fld, target):
    a = P.adts.get(adt)
    if a is None:
        return None, None
    for v in a['variants']:
        for fl in v['fields']:
            if fl['n'] == fld:
                return target not in _strong_reach(P, fl['tyj']), fl['ty']
    return None, None


def _recheck_tree(ctx, P):
    MC = 'des::net::module::ctx::ModuleContext'
    for up in ('parent', 'me'):
        w, ty = _is_weak_field(P, MC, up, MC)
        ctx.check(w is True, 'tree-up-edge-weak:%s' % up, 'ModuleContext.%s holds no strong reference to a ModuleContext' % up, None, ty)
    # every insertion into children passes a context created in the same function by child_of
    n = 0
    for f in P.fn_list:
        for s in f.calls():
            if s.name.endswith('HashMap::insert') and s.args and any(x[0] == 'field' and x[2] == 'children' for x in walk(f.expr_operand(s.args[0], s.b, 'T'))):
                n += 1
                v = f.expr_operand(s.args[2], s.b, 'T')
                fresh = any(x[0] == 'call' and x[1].endswith(('ModuleContext::child_of', 'ModuleContext::new', 'ModuleRef::dummy', 'ModuleRef::new')) for x in walk(v)) or \
                    f.key.endswith('ModuleContext::child_of')
                ctx.check(fresh, 'children-insert-fresh:%s' % f.key, 'only freshly created child contexts are linked below a parent (no cycles among modules)', s.where(), show(v)[:120])
    ctx.floor('insertions into ModuleContext.children', n, 1)


def r2_breakers(ctx):
    ctx.set_rule('C20.R2')
    P = ctx.P
    f = ctx.anchor(DROP_ROOT)
    if f:
        items = per_item_calls(P, f, 'des::net::gate::Gate::dissolve_paths')
        ok = len(items) == 1 and items[0].exhaustive
        if ok:
            w = items[0]
            src = w.it if w.it is not None else ('unknown',)
            # the iteration runs over all gates of the module: ModuleContext::gates() or a copy of the `gates` field
            ok = any((x[0] == 'call' and x[1].endswith('ModuleContext::gates')) or (x[0] == 'field' and x[2] == 'gates') for x in walk(src)) and \
                not any(x[0] == 'call' and x[1].split('::')[-1] in ('take', 'skip', 'step_by', 'filter', 'take_while', 'skip_while') for x in walk(src)) and \
                (w.trees is None or from_item(w.fn, w.trees[0]))
        if ok:
            w = items[0]
            conds = [a for s_, a in w.fn.guard_atoms(w.site.b) if a and a[0] in ('bool', 'cmp') and (w.form != 'loop' or s_ in w.fn.loops().get(w.anchor, ()))]
            ok = not conds     # every gate, whatever its kind: a closed ring of gates has no endpoint to start from
        ctx.check(ok, 'drop-dissolves-all-gates', 'ModuleContext::drop dissolves the paths of every gate of the module (unconditionally)', f.where())
    g = ctx.anchor('des::net::gate::Gate::dissolve_paths')
    if g:
        takes = [s for s in g.calls() if s.name == 'std::option::Option::take']
        ok = False
        detail = None
        for s in takes:
            t = g.expr_operand(s.args[0], s.b, 'T')
            nx = [x for x in walk(t) if x[0] == 'call' and x[1].endswith('::next')]
            if nx:
                site = [c for c in g.calls() if c.b == nx[0][3]]
                ty = site[0].argtys[0] if site and site[0].argtys else ''
                detail = ty
                whole = 'IterMut' in ty and any(x[0] == 'field' and x[2] == 'connections' for x in walk(nx[0])) and not any(a in ty for a in ('Take<', 'Skip<', 'StepBy<', 'Filter<'))
                if whole and g.loops_containing(s.b):
                    ok = True
            rng = [x for x in walk(t) if x[0] == 'agg' and 'ops::Range' in x[1]]
            if rng and rng[0][2][0] == ('int', 0) and rng[0][2][1] == ('int', 2):
                ok = True
        if not ok:
            # adaptor form: `for con in slots.iter_mut().filter_map(Option::take) { .. }` — the loop drives the take over the whole array
            for c in g.calls():
                if (c.callee or '') == 'std::iter::Iterator::filter_map' and len(c.args) == 2:
                    cb = peel(g.expr_operand(c.args[1], c.b, 'T'))
                    src = g.expr_operand(c.args[0], c.b, 'T')
                    ty = c.argtys[0] if c.argtys else ''
                    whole = 'IterMut' in ty and any(x[0] == 'field' and x[2] == 'connections' for x in walk(src)) and not any(a in ty for a in ('Take<', 'Skip<', 'StepBy<', 'Filter<'))
                    driven = [w for w in per_item_calls(P, g, 'des::net::gate::Gate::dissolve_paths') if w.exhaustive and w.it is not None and
                              any(x[0] == 'call' and x[1] == 'std::iter::Iterator::filter_map' for x in walk(w.it))]
                    if cb[0] == 'fnitem' and cb[1] == 'std::option::Option::take' and whole and driven:
                        ok = True
                        detail = ty
        ctx.check(ok, 'dissolve-takes-every-slot', 'dissolve_paths takes every connection slot of the gate (iterating the whole slot array), not a prefix', g.where(), detail)
        rec = g.calls_to('des::net::gate::Gate::dissolve_paths')
        ctx.check(len(rec) >= 1 and all(any(x[0] == 'field' and x[2] == 'endpoint' for x in walk(g.expr_operand(s.args[0], s.b, 'T'))) for s in rec), 'dissolve-recurses',
                  'dissolve_paths recurses into the peer gate of every taken connection', g.where())
        dq = g.calls_to('des::net::channel::Channel::dissolve_queue')
        if dq:
            ctx.check(all(any(x[0] == 'field' and x[2] == 'channel' for x in walk(g.expr_operand(s.args[0], s.b, 'T'))) for s in dq), 'dissolve-queue-of-connection-channel',
                      "dissolve_paths releases the packets queued in the taken connection's channel", dq[0].where())
            # ... of EVERY taken connection that has one: inside the per-slot loop the release depends on nothing but "the slot was
            # occupied" and "the connection has a channel" (queued packets hold the connection, the connection holds the channel: a
            # backlog that is skipped — because the peer's owner is gone, say — keeps that cycle and its message bodies alive)
            for s_ in dq:
                extra = []
                for (sb, cond, v) in g.guards(s_.b):
                    if not g.loops_containing(sb):
                        continue
                    def _outside_next(t):
                        # the iterator expression under a `next(..)` is the slot traversal ('dissolve-takes-every-slot' decides that it is
                        # exhaustive); only what is tested on the yielded item is looked at here
                        if isinstance(t, tuple):
                            if t and t[0] == 'call' and str(t[1]).endswith(('::next', '::next_back')):
                                yield ('call', t[1], ())
                                return
                            yield t
                            for c_ in t:
                                if isinstance(c_, tuple):
                                    yield from _outside_next(c_)
                    full = [x for x in walk(cond)]
                    txt = [x for x in _outside_next(cond) if isinstance(x, tuple) and x and isinstance(x[0], str)]
                    if any(x[0] == 'call' and str(x[1]).endswith(('Option::take', 'mem::take', 'mem::replace')) for x in full) and not any(x[0] == 'call' and str(x[1]).endswith(('Option::take', 'mem::take', 'mem::replace')) for x in txt):
                        txt.append(('call', 'std::option::Option::take', ()))
                    is_next = any(x[0] == 'call' and str(x[1]).endswith(('::next', '::next_back')) for x in txt) and not any(x[0] == 'call' and str(x[1]).endswith('::take') for x in txt) \
                        and not any(x[0] == 'field' and len(x) > 2 and x[2] == 'channel' for x in txt)
                    is_slot = any(x[0] == 'call' and str(x[1]).endswith(('Option::take', 'mem::take', 'mem::replace')) for x in txt)
                    is_chan = any(x[0] == 'field' and len(x) > 2 and x[2] == 'channel' for x in txt)
                    other = [str(x[1]) for x in txt if x[0] == 'call' and not str(x[1]).endswith(('::next', '::next_back', 'Option::take', 'mem::take', 'mem::replace', '::into_iter', '::iter_mut', '::iter',
                                                                                                   '::deref_mut', '::deref', '::try_lock', '::lock', '::as_mut', '::as_ref', '::is_some', '::is_none', '::unwrap', '::as_deref', '::as_deref_mut', '::enumerate', '::flatten', '::get_mut', '::index_mut', '::len'))]
                    if not (is_next or is_slot or is_chan) or other:
                        extra.append(show(cond)[:140])
                ctx.check(not extra, 'dissolve-queue-unconditional',
                          "dissolve_paths releases the queued packets of every taken connection that has a channel: inside the slot loop the release is "
                          "guarded by nothing but the slot being occupied and the channel being present", s_.where(), extra[:2])
        # early exit only when the lock is held by an outer frame of the same recursion
    h = P.fns.get('des::net::channel::Channel::dissolve_queue')
    if h:
        tk = [s for s in h.calls() if s.name in ('std::mem::take', 'std::mem::replace') and any(x[0] == 'field' and x[2] == 'buffer' for x in walk(h.expr_operand(s.args[0], s.b, 'T')))]
        ctx.check(len(tk) == 1, 'dissolve-queue-empties-buffer', 'dissolve_queue takes the whole buffer out of the channel', h.where())


def r3_globals_cleared(ctx):
    ctx.set_rule('C20.R3')
    P = ctx.P
    f = ctx.anchor('des::net::runtime::ctx::buf_drop')
    if f:
        ok = False
        for b in sorted(f.reachable()):
            for i, st in enumerate(f.stmts(b)):
                if st['k'] == 'assign' and st['p']['pr'] and st['p']['pr'][-1]['k'] == 'deref':
                    v = f.expr_rvalue(st['r'], b, i)
                    if v[0] == 'call' and v[1].endswith('BufferContext::new'):
                        ok = True
        # equivalent: mem::replace(&mut *ctx, BufferContext::new()) / mem::take
        for s2 in f.calls():
            if s2.name == 'std::mem::replace' and len(s2.args) == 2:
                v = peel(f.expr_operand(s2.args[1], s2.b, 'T'))
                d = f.expr_operand(s2.args[0], s2.b, 'T')
                if v[0] == 'call' and v[1].endswith('BufferContext::new') and any(x[0] == 'call' and x[1].endswith('::lock') for x in walk(d)):
                    ok = True
        cleared = any(s.name.endswith('Vec::clear') and any(x[0] == 'field' and x[2] == 'events' for x in walk(f.expr_operand(s.args[0], s.b, 'T'))) for s in f.calls())
        w_globals = bool(f.writes_to_field('globals'))
        ctx.check(ok or (cleared and w_globals), 'buf-drop-resets-buffer',
                  'buf_drop resets the whole global buffer context: buffered events (messages emitted in at_sim_end are never flushed) and the globals handle are released with the simulation',
                  f.where(), {'whole_reset': ok, 'events_cleared': cleared, 'globals_reset': w_globals})
    g = ctx.anchor('<des::net::runtime::guard::SimStaticsGuard as std::ops::Drop>::drop')
    if g:
        ctx.check(bool(g.calls_to('des::net::runtime::ctx::buf_drop')), 'guard-drop-buffers', 'dropping the simulation statics guard drops the global event buffer', g.where())
        mod_reset = bool(g.calls_to('des::net::module::ctx::module_ctx_drop')) or any('MOD_CTX' in show(g.expr_operand(s.args[0], s.b, 'T')) for s in g.calls() if s.args)
        md = P.fns.get('des::net::module::ctx::module_ctx_drop')
        if md is not None:
            def swaps_modctx(h, depth=2):
                for s in h.calls():
                    if s.args and 'MOD_CTX' in show(h.expr_operand(s.args[0], s.b, 'T')) and s.name.split('::')[-1] in ('swap', 'reset', 'replace', 'take', 'set'):
                        other = peel(h.expr_operand(s.args[1], s.b, 'T')) if len(s.args) > 1 else None
                        if other is None or any(x[0] == 'agg' and str(x[1]).endswith('Option::None') for x in walk(other)):
                            return True
                    callee = P.fns.get(s.name)
                    if depth > 0 and callee is not None and callee.key.startswith('des::net::module::ctx::') and swaps_modctx(callee, depth - 1):
                        return True
                return False
            mod_reset = mod_reset and swaps_modctx(md)
        ctx.check(mod_reset, 'guard-drop-modctx', 'dropping the simulation statics guard clears the global module context', g.where())
        # ... on every way out of a simulation, also while unwinding: both releases are unconditional
        rel = list(g.calls_to('des::net::runtime::ctx::buf_drop')) + list(g.calls_to('des::net::module::ctx::module_ctx_drop'))
        cond = [(c, [a for _, a in g.guard_atoms(c.b) if a and a[0] in ('bool', 'cmp')]) for c in rel]
        cond = [(c, ga) for c, ga in cond if ga or not g.postdominates_entry(c.b)]
        ctx.check(not cond, 'guard-drop-unconditional', 'the statics guard releases the global buffer and module context on every path of its Drop (also during a panic unwind)',
                  cond[0][0].where() if cond else g.where(), [show_atom(a) for _, ga in cond for a in ga][:3])
    # clearing the global module context drops the context that was stored there
    sw = P.fns.get('des_net_utils::sync::swaplock::SwapLock::reset')
    if sw is not None:
        ctx.touch(sw)
        drops = [b for b in sw.reachable() if sw.term(b)['k'] == 'drop' and not sw.is_cleanup(b) and any(e['k'] == 'deref' for e in sw.term(b)['p']['pr'])]
        raw_writes = [s2 for s2 in sw.calls() if s2.name.split('::')[-1] in ('write', 'write_volatile', 'write_unaligned', 'replace') and 'ptr' in s2.name]
        forgets = [s2 for s2 in sw.calls() if s2.name in ('std::mem::forget', 'std::mem::ManuallyDrop::new')]
        ctx.check(bool(drops) and not raw_writes and not forgets, 'swaplock-reset-drops-old',
                  'SwapLock::reset assigns through the cell (dropping the previous content): a module context still stored in MOD_CTX is released when the simulation is dropped',
                  sw.where(), {'drop_of_old_value': len(drops), 'raw_pointer_writes': [s2.name for s2 in raw_writes]})
    else:
        ctx.violation('anchor:SwapLock::reset', 'unresolved-anchor SwapLock::reset')
    # Sim holds the guard, so dropping a Sim runs it
    sim = P.adts.get('des::net::runtime::Sim')
    if sim:
        tys = [fl['ty'] for fl in sim['variants'][0]['fields']]
        ctx.check(any('SimStaticsGuard' in t for t in tys), 'sim-owns-guard', 'Sim owns a SimStaticsGuard (its Drop runs when the simulation is dropped)', None, [t for t in tys if 'Guard' in t])


WEAK_EDGES = [  # (holder, field, type that must not be strongly reachable through it)
    ('des::net::module::ctx::ModuleContext', 'parent', 'des::net::module::ctx::ModuleContext'),
    ('des::net::module::ctx::ModuleContext', 'me', 'des::net::module::ctx::ModuleContext'),
    ('des::net::gate::Gate', 'owner', 'des::net::module::ctx::ModuleContext'),
    ('des::time::driver::TimerSlotEntryHandle', 'handle', 'des::time::driver::TimerSlot'),
    ('des::time::driver::TimerSlot', 'queue', 'des::time::driver::TimerQueue'),
    ('des::net::runtime::ctx::BufferContext', 'globals', 'des::net::runtime::Globals'),
]


def r4_weak_back_edges(ctx):
    ctx.set_rule('C20.R4')
    P = ctx.P
    for adt, fld, tgt in WEAK_EDGES:
        w, ty = _is_weak_field(P, adt, fld, tgt)
        if w is None:
            ctx.violation('anchor:%s.%s' % (adt, fld), 'unresolved-anchor: field %s.%s' % (adt, fld)); continue
        ctx.check(w, 'weak:%s.%s' % (adt.split('::')[-1], fld), 'back edge %s.%s holds no strong reference to %s' % (adt.split('::')[-1], fld, tgt.split('::')[-1]), None, ty)


def r7_tasks_hold_no_module(ctx):
    """the state captured by a spawned task must not keep its own module alive: the task lives in the module's runtime, which lives in the
    module context - a future (or the closure producing it) that owns an Arc<ModuleContext> / ModuleRef closes a cycle through the opaque
    tokio runtime that R1 cannot see.  Checked where des itself builds task futures (runtime::blocks) and wherever it spawns."""
    ctx.set_rule('C20.R7')
    P = ctx.P
    STRONG = ('std::sync::Arc<des::net::module::ctx::ModuleContext>', 'des::net::module::refs::ModuleRef')
    scope = []
    for g in P.fn_list:
        if g.kind == 'promoted':
            continue
        if g.key.startswith('des::net::runtime::blocks::') or any(s.name.startswith('tokio::') and s.name.split('::')[-1] in ('spawn', 'spawn_local', 'spawn_blocking') for s in g.calls()):
            scope.append(g)
    if not ctx.floor('functions building or spawning task futures', len(scope), 3):
        return
    n = 0
    for g in scope:
        for b in sorted(g.reachable()):
            for i, st in enumerate(g.stmts(b)):
                if st['k'] == 'assign' and st['r']['k'] == 'agg' and st['r'].get('ak') == 'closure':
                    n += 1
                    tys = [g.local_ty(o['p']['l']) if o.get('p') else '' for o in st['r']['ops']]
                    owned = [t for t in tys if not t.startswith('&') and any(t.startswith(x) for x in STRONG)]
                    ctx.check(not owned, 'task-owns-module:%s' % g.key.replace('des::net::runtime::blocks::', ''),
                              'no task future or future-producing closure owns a strong handle to its own module', g.where(b), owned)
    ctx.ok('closure / future aggregates inspected: %d' % n, None)


def r8_timer_futures_keep_no_waker(ctx):
    """a timer future (Sleep, and Timeout / Interval built on it) keeps no Waker of its own: the waker is the task's handle on itself —
    a task that is owned only by its waker (a module driving its own executor) and awaits such a future would own itself, timer pending
    or not.  The one registered waker lives in the driver's slot entry, which is released when the timer fires or the future is dropped."""
    ctx.set_rule('C20.R8')
    P = ctx.P
    n = 0
    for k, a in sorted(P.adts.items()):
        if not k.startswith(('des::time::sleep::', 'des::time::timeout::', 'des::time::interval::')) or '::_::' in k:
            continue
        n += 1
        for v in a.get('variants', []):
            for fd in v['fields']:
                ctx.check('task::Waker' not in fd['ty'] and 'task::wake::Waker' not in fd['ty'], 'timer-future-keeps-waker:%s' % k.split('::')[-1],
                          'timer futures store no Waker (it would be a strong self-reference of the awaiting task)', None, fd['ty'][:120])
    ctx.floor('timer future types inspected', n, 3)


def run(ctx):
    r8_timer_futures_keep_no_waker(ctx)
    r7_tasks_hold_no_module(ctx)
    r1_shared_cycles(ctx)
    r2_breakers(ctx)
    r3_globals_cleared(ctx)
    r4_weak_back_edges(ctx)
    # (R5) events still queued when the simulation is dropped are released: every bucket pops (and thereby drops) its remaining nodes, and
    # the buckets are emptied before the allocator goes (shared with C15.R5) — an event holds its message body and a strong module reference
    from .C15 import r5_drain_before_allocator
    r5_drain_before_allocator(ctx, rule='C20.R5')
    # (R6) a message that is released releases its body: the drop thunk installed for T drops the boxed T whenever the pointer is
    # non-null, with no other condition (shared with C16.R2)
    from .C16 import r2_vtables
    r2_vtables(ctx, rule='C20.R6')

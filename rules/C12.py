"""C12 — start-up / tear-down order (structural clauses, DESIGN §4 C12)."""
from .engine.helpers import *

EXPLANATION = (
    "Static analysis of the lifecycle loops: (R1) the at_sim_start(stage) call sits in a stage-major loop nest: `stage` is driven "
    "by the outer range loop, the module by an inner in-order traversal of a snapshot of the module-tree vector, and that vector is "
    "never reordered or pruned inside the function; (R2) the call is guarded by stage < num_sim_start_stages() and the outer bound is "
    "the maximum stage count; (R3) ModuleTree::add inserts after the last match of the parent, advancing past exactly the entries "
    "whose path is deeper than the parent (depth comparison, not text); (R4) at_sim_end runs in one flat in-order loop over the same "
    "vector, once per module; (R5) duplicate-path and missing-parent panics dominate context creation in SimBuilder::raw. "
    '(R4 also: teardown does not depend on whether a module is active; R6) ObjectPath bookkeeping works on byte offsets — a character count is never used as an offset. '
    "(R1 also: every traversal used for start-up and tear-down visits the whole module vector - no early exit, no skipped index.) "
    "Decides these necessary conditions only; not ObjectPath string bookkeeping.")
ASSUMPTIONS = ["Vec::iter/into_iter traverse in index order; Vec::insert keeps relative order"]

NR = 'des::net::runtime::'
EV = NR + 'events::'
REORDER = ('swap_remove', 'remove', 'sort', 'sort_by', 'sort_by_key', 'sort_unstable', 'sort_unstable_by', 'sort_unstable_by_key', 'reverse', 'swap', 'retain',
           'pop', 'rotate_left', 'rotate_right', 'drain', 'dedup', 'truncate', 'split_off', 'rev', 'insert')


def _lifecycle_fn(ctx, name):
    P = ctx.P
    key = '<des::net::runtime::SimLifecycle as des::runtime::event::types::EventLifecycle>::%s' % name
    fs = [P.fns[key]] if key in P.fns else []
    if len(fs) != 1:
        ctx.violation('anchor:Sim::%s' % name, 'unresolved-anchor: %s' % key)
        return None
    ctx.touch(fs[0])
    return fs[0]


def _module_seq_ok(f, s, argi=0):
    """the receiver of a per-module call is an element of an in-order traversal of the module vector"""
    t = peel(f.expr_operand(s.args[argi], s.b, 'T'))
    from_vec = any(x[0] == 'field' and x[2] == 'modules' for x in walk(t))
    via_next = any(x[0] == 'call' and x[1].endswith('::next') and 'Iterator' in x[1] for x in walk(t))
    via_index = any(x[0] == 'index' or (x[0] == 'call' and x[1].endswith(('::index', '::index_mut'))) for x in walk(t))
    rev = any(x[0] == 'call' and x[1].endswith('::rev') for x in walk(t))
    return from_vec and (via_next or via_index) and not rev, show(t)[:260]


def _reorder_ops(f):
    out = []
    for s in f.calls():
        if s.argtys and 'ModuleRef' in s.argtys[0] and ('Vec<' in s.argtys[0] or '[des::net' in s.argtys[0] or 'Iter<' in s.argtys[0] or 'IntoIter<' in s.argtys[0]):
            m = s.name.split('::')[-1]
            if m in REORDER:
                out.append(s)
    return out


def r1_r2_startup(ctx):
    ctx.set_rule('C12.R1')
    f = _lifecycle_fn(ctx, 'at_sim_start')
    if not f:
        return
    starts = f.calls_to(EV + 'at_sim_start')
    if not ctx.floor('at_sim_start call in the start-up loop', len(starts), 1):
        return
    s = starts[0]
    loops = f.loops()
    inside = sorted([h for h, body in loops.items() if s.b in body], key=lambda h: len(loops[h]))
    ctx.check(len(inside) == 2, 'two-level-nest', 'the start-up call sits in a two-level loop nest', s.where(), len(inside))
    if len(inside) == 2:
        inner, outer = inside
        stage = peel(f.expr_operand(s.args[1], s.b, 'T'))
        nxt = [x for x in walk(stage) if x[0] == 'call' and x[1].endswith('::next')]
        st_ok = False
        if nxt:
            it = nxt[0]
            rng = [y for y in walk(it) if y[0] == 'agg' and 'ops::Range' in y[1]]
            blk = it[3]
            st_ok = bool(rng) and rng[0][2][0] == ('int', 0) and blk in loops[outer] and blk not in loops[inner]
        ctx.check(st_ok, 'stage-from-outer-loop', 'the stage number is driven by the outer loop (all stage-i calls precede any stage-(i+1) call)', s.where(), show(stage)[:200])
        ok, d = _module_seq_ok(f, s)
        mblk = [x[3] for x in walk(peel(f.expr_operand(s.args[0], s.b, 'T'))) if x[0] == 'call' and x[1].endswith('::next')]
        inner_ok = (not mblk) or (mblk[0] in loops[inner])
        ctx.check(ok and inner_ok, 'module-from-inner-traversal', 'within a stage the modules are visited by an in-order traversal of the module-tree vector (pre-order)', s.where(), d)
        # both traversals are complete: a module that lacks the current stage is passed over, it does not end the stage (and a stage
        # without work does not end start-up)
        ctx.check(loop_exits_only_on_exhaustion(f, inner) and loop_exits_only_on_exhaustion(f, outer), 'traversals-complete',
                  'the stage loop and the per-stage module loop both run to exhaustion (no break / early return)', s.where(),
                  {'inner_complete': loop_exits_only_on_exhaustion(f, inner), 'outer_complete': loop_exits_only_on_exhaustion(f, outer)})
    bad = _reorder_ops(f)
    ctx.check(not bad, 'no-reorder-startup', 'the module sequence is not reordered or pruned while start-up runs', bad[0].where() if bad else f.where(), [x.name for x in bad])
    # R2
    ctx.set_rule('C12.R2')
    atoms = [a for _, a in f.guard_atoms(s.b)]
    # (the guard may sit in a `.filter(..)` on the module traversal instead of an `if` in the body)
    atoms += iter_filter_facts(f, f.expr_operand(s.args[0], s.b, 'T'))
    g = any(a[0] == 'cmp' and a[1] == 'lt' and any(x[0] == 'call' and x[1] == EV + 'num_sim_start_stages' for x in walk(a[3])) and
            any(x[0] == 'call' and x[1].endswith('::next') for x in walk(a[2])) for a in atoms)
    ctx.check(g, 'stage-guard', 'a module is started in stage i iff i < its declared number of stages (exactly once per declared stage)', s.where(), [show_atom(a) for a in atoms if a[0] == 'cmp'])
    # outer bound: fold(.., max(num_sim_start_stages))
    P = ctx.P

    def _closure_calls(t, name):
        t = peel(t)
        if t[0] == 'agg' and str(t[1]).startswith('closure:'):
            g2 = P.fns.get(t[1][len('closure:'):])
            return bool(g2) and any(name(c) for c in g2.calls())
        return False
    is_stages = lambda c: c.name == EV + 'num_sim_start_stages'
    is_max = lambda c: c.name.endswith('::max')
    okb = False
    for x in f.calls():
        nm = x.callee or x.name
        if not (nm.endswith('Iterator::fold') or nm.endswith('Iterator::max')):
            continue
        args = [f.expr_operand(a_, x.b, 'T') for a_ in x.args]
        recv_maps_stages = any(y[0] == 'call' and y[1].endswith('Iterator::map') and len(y[2]) > 1 and
                               (_closure_calls(y[2][1], is_stages) or (peel(y[2][1])[0] == 'fnitem' and peel(y[2][1])[1] == EV + 'num_sim_start_stages')) for y in walk(args[0]))
        if nm.endswith('Iterator::fold') and len(args) == 3:
            comb = peel(args[2])
            by_closure = _closure_calls(comb, is_stages) and _closure_calls(comb, is_max)
            by_fnitem = comb[0] == 'fnitem' and comb[1].endswith('::max') and recv_maps_stages
            by_closure2 = _closure_calls(comb, is_max) and recv_maps_stages
            okb = okb or by_closure or by_fnitem or by_closure2
        elif nm.endswith('Iterator::max'):
            okb = okb or recv_maps_stages
    # manual maximum: `if stages > max_stage { max_stage = stages }` for every module
    from .engine.helpers import _chase_local, _single_def
    for h, body in f.loops().items():
        if not loop_exits_only_on_exhaustion(f, h):
            continue
        for b in sorted(body):
            for i, st in enumerate(f.stmts(b)):
                if st['k'] != 'assign' or st['p']['pr'] or st['r']['k'] != 'use':
                    continue
                M = st['p']['l']
                dv = [d for d in f._defs() if d[0] == M and not d[3]]
                if not (any(d[1] in body for d in dv) and any(d[1] not in body for d in dv)):
                    continue
                val = f.expr_rvalue(st['r'], b, i)
                if not any(y[0] == 'call' and y[1] == EV + 'num_sim_start_stages' for y in walk(val)):
                    continue
                S = _chase_local(f, st['r']['o'])
                from .engine.helpers import _chase
                for (sb, cond, val) in f.guards(b):
                    t = f.term(sb)
                    if t['k'] != 'switch':
                        continue
                    rv = _chase(f, {'k': 'use', 'o': t['d']})
                    if rv is None or rv['k'] != 'binop' or rv['op'] not in ('Gt', 'Lt'):
                        continue
                    truth = (val[0] == 'eq' and val[1] != 0) or (val[0] == 'ne' and tuple(val[1]) == (0,))
                    if not truth:
                        continue
                    big, small = (rv['a'], rv['b']) if rv['op'] == 'Gt' else (rv['b'], rv['a'])
                    # the candidate value is larger than the running maximum M
                    if _chase_local(f, big) == S and _chase_local(f, small) == M:
                        okb = True
    for x in f.calls():
        # loop form: max_stage = max_stage.max(module.num_sim_start_stages()) for every module
        nm = x.callee or x.name
        if nm.endswith('cmp::Ord::max') and f.loops_containing(x.b):
            args = [f.expr_operand(a_, x.b, 'T') for a_ in x.args]
            if any(any(y[0] == 'call' and y[1] == EV + 'num_sim_start_stages' for y in walk(t)) for t in args):
                h = innermost_loop(f, x.b)
                okb = okb or loop_exits_only_on_exhaustion(f, h)
    ctx.check(okb, 'outer-bound-is-max', 'the outer loop runs to the maximum declared stage count of all modules', f.where())
    # per-module protocol inside the loop: activate -> at_sim_start -> deactivate -> buf_process
    act = [x for x in f.calls() if x.name.endswith('ModuleRef::activate')]
    dea = [x for x in f.calls() if x.name.endswith('ModuleRef::deactivate')]
    bp = f.calls_to(NR + 'ctx::buf_process')
    if act and dea and bp:
        ctx.check(f.dominates(act[0].b, s.b) and f.dominates(s.b, dea[0].b) and f.dominates(dea[0].b, bp[0].b), 'startup-bracket', 'each start-up call is bracketed by activate/deactivate and followed by the buffer flush', s.where())


def _r3_tail(ctx, f, s):
    # the insert happens at the scanned position with the module itself
    ctx.check(peel(f.expr_operand(s.args[2], s.b, 'T'))[0] == 'arg', 'inserts-module', 'the new module is inserted at the scanned position', s.where())
    # root-level / parentless modules are appended — and only those (decided per path)
    n_push = n_ins = 0
    for path, outcome, decs in fn_paths(ctx, f):
        if outcome != 'return':
            continue
        effs = path_effects(f, path)
        pushed = [e for e in effs if e[0] == 'c' and e[1].name == 'std::vec::Vec::push' and receiver_field(e[2][0]) == 'modules']
        inserted = [e for e in effs if e[0] == 'c' and e[1].name == 'std::vec::Vec::insert']
        # `insert(modules.len(), m)` is an append: resolve the index along this path
        for e in list(inserted):
            site = e[1]
            pidx = max(k for k, bb in enumerate(path) if bb == site.b)
            ix = peel(f.expr_operand_on_path(site.args[1], path, pidx, 'T'))
            if ix[0] == 'call' and ix[1].endswith('Vec::len') and receiver_field(ix[2][0]) == 'modules':
                inserted.remove(e)
                pushed.append(e)
        atoms = [a for _, a in path_atoms(f, path, decs)]
        no_parent = any(a[0] == 'is' and a[2] == 'None' and a[1][0] == 'call' and a[1][1].endswith(('ObjectPath::parent', 'ObjectPath::nonzero_parent')) for a in atoms)
        # ObjectPath::nonzero_parent() is None exactly when there is no parent or the parent is the root (checked on its body below)
        root_parent = any(a[0] == 'bool' and a[2] is True and a[1][0] == 'call' and a[1][1].endswith('ObjectPath::is_root') for a in atoms)
        if pushed:
            n_push += 1
            extra = [a for a in atoms if a[0] in ('cmp', 'bool') and not (a[0] == 'bool' and a[1][0] == 'call' and a[1][1].endswith('ObjectPath::is_root'))]
            ctx.check((no_parent or root_parent) and not extra and not inserted and len(pushed) == 1, 'append-only-top-level',
                      'a node is appended at the end of the module vector only if it has no parent or its parent is the root — every other node goes through the subtree scan',
                      f.where_path(path), [show_atom(a) for a in atoms])
        elif inserted:
            n_ins += 1
            ctx.check(not no_parent and not root_parent and len(inserted) == 1, 'append-only-top-level',
                      'a node with a non-root parent is inserted by the subtree scan (exactly once)', f.where_path(path), [show_atom(a) for a in atoms][:8])
        else:
            ctx.violation('module-not-stored', 'ModuleTree::add returns without storing the module', f.where_path(path))
    ctx.floor('appending paths of ModuleTree::add', n_push, 1)
    ctx.floor('inserting paths of ModuleTree::add', n_ins, 1)


def r3_insertion_rule(ctx):
    ctx.set_rule('C12.R3')
    f = ctx.anchor(NR + 'ModuleTree::add')
    if not f:
        return
    ins = [s for s in f.calls() if s.name == 'std::vec::Vec::insert']
    if not ctx.floor('Vec::insert in ModuleTree::add', len(ins), 1):
        return
    s = ins[0]
    pos = f.expr_operand(s.args[1], s.b, 'T')
    # start: rposition(.. == parent) + 1
    rp = [x for x in walk(pos) if x[0] == 'call' and x[1].endswith('::rposition')]
    fwd_all = [x for x in walk(pos) if x[0] == 'call' and x[1].endswith(('::position', '::find'))]
    # a forward search over `modules[start..]` is the scan itself (search form of the loop), not the search for the parent
    def _is_tail_scan(x):
        return any(y[0] == 'agg' and 'RangeFrom' in str(y[1]) and any(z[0] == 'call' and z[1].endswith('::rposition') for z in walk(y)) for y in walk(x[2][0]))
    fwd = [x for x in fwd_all if not _is_tail_scan(x)]
    ctx.check(bool(rp) and not fwd, 'start-after-last-parent-match', 'the scan starts right after the last entry equal to the parent', s.where(), show(pos)[:200])
    plus1 = any(x[0] == 'bin' and x[1].startswith('Add') and (x[3] == ('int', 1) or x[2] == ('int', 1)) for x in walk(pos))
    ctx.check(plus1, 'start-plus-one', 'the scan starts one past the parent', s.where())
    # advance predicate: inside the loop, pos += 1 is guarded by  len(modules[pos].path) > len(parent)
    adv = []
    for h, body in f.loops().items():
        for b in sorted(body):
            for i, st in enumerate(f.stmts(b)):
                if st['k'] == 'assign' and not st['p']['pr']:
                    t = f.expr_rvalue(st['r'], b, i)
                    tt = t[1] if (t[0] == 'field' and t[1][0] == 'bin') else t
                    if tt[0] == 'bin' and tt[1].startswith('Add') and tt[3] == ('int', 1):
                        dv = [d for d in f._defs() if d[0] == st['p']['l'] and not d[3]]
                        if any(d[1] not in body for d in dv):
                            adv.append((h, b))
    scans = [x for x in fwd_all if _is_tail_scan(x)]
    counts = [x for x in walk(pos) if x[0] == 'call' and x[1].endswith('::count') and x[2] and
              any(y[0] == 'call' and y[1].endswith('::take_while') for y in walk(x[2][0]))]
    if not adv and not scans and counts:
        # count form: start + modules[start..].iter().take_while(|m| m.path.len() > parent_depth).count()
        P = ctx.P
        tw = [y for y in walk(counts[0][2][0]) if y[0] == 'call' and y[1].endswith('::take_while')][0]
        tail_ok = _is_tail_scan(tw)
        keep = None
        cl = peel(tw[2][1]) if len(tw[2]) > 1 else None
        if cl and cl[0] == 'agg' and str(cl[1]).startswith('closure:'):
            g = P.fns.get(cl[1][len('closure:'):])
            for _, t in (ret_trees(g) if g else []):
                t = peel(t)
                if t[0] == 'bin' and t[1] in ('Le', 'Lt', 'Ge', 'Gt'):
                    l, r, op = peel(t[2]), peel(t[3]), t[1].lower()
                    if not (l[0] == 'call' and l[1].endswith('ObjectPath::len')):
                        l, r, op = r, l, SWAP[op]
                    cap = resolve_captures(P, g, r) if g else r
                    if l[0] == 'call' and l[1].endswith('ObjectPath::len') and any(y[0] == 'arg' and y[1] == 2 for y in walk(l)) \
                            and any(y[0] == 'call' and y[1].endswith('ObjectPath::len') for y in walk(cap)) and any(y[0] == 'call' and y[1].endswith(('ObjectPath::parent', 'ObjectPath::nonzero_parent')) for y in walk(cap)):
                        keep = op
        pp = peel(pos)
        if pp[0] == 'phi':
            # `insert(index, ..)` shared with the append case (index = modules.len()): look at the scanned alternative
            alts = [peel(x) for x in pp[1] if not (peel(x)[0] == 'call' and peel(x)[1].endswith('Vec::len'))]
            pp = alts[0] if len(alts) == 1 else pp
        pp = pp[1] if (pp[0] == 'field' and pp[1][0] == 'bin') else pp
        sum_ok = pp[0] == 'bin' and pp[1].startswith('Add') and any(any(z[0] == 'call' and z[1].endswith('::rposition') for z in walk(q)) and not any(z is counts[0] for z in walk(q)) for q in (pp[2], pp[3])) \
            and any(any(z is counts[0] or z == counts[0] for z in walk(q)) for q in (pp[2], pp[3]))
        ctx.check(keep == 'gt' and tail_ok and sum_ok, 'advance-iff-deeper',
                  'the scan advances past an entry iff its path is strictly deeper than the parent (count form: start + number of leading deeper entries after the parent): the new child lands after the whole existing subtree of its parent and before the next sibling/ancestor entry',
                  s.where(), {'form': 'count', 'keep_test': keep, 'over_tail_after_parent': tail_ok, 'added_to_start': sum_ok})
        _r3_tail(ctx, f, s)
        return
    if not adv and scans:
        # search form: modules[start..].iter().position(|m| m.path.len() <= parent_depth).map_or(modules.len(), |o| start + o)
        x = scans[0]
        P = ctx.P
        stop = None
        cl = peel(x[2][1]) if len(x[2]) > 1 else None
        if cl and cl[0] == 'agg' and str(cl[1]).startswith('closure:'):
            g = P.fns.get(cl[1][len('closure:'):])
            for _, t in (ret_trees(g) if g else []):
                t = peel(t)
                if t[0] == 'bin' and t[1] in ('Le', 'Lt', 'Ge', 'Gt'):
                    l, r, op = peel(t[2]), peel(t[3]), t[1].lower()
                    if not (l[0] == 'call' and l[1].endswith('ObjectPath::len')):
                        l, r, op = r, l, SWAP[op]
                    cap = resolve_captures(P, g, r) if g else r
                    if l[0] == 'call' and l[1].endswith('ObjectPath::len') and any(y[0] == 'arg' and y[1] == 2 for y in walk(l)) \
                            and any(y[0] == 'call' and y[1].endswith('ObjectPath::len') for y in walk(cap)) and any(y[0] == 'call' and y[1].endswith(('ObjectPath::parent', 'ObjectPath::nonzero_parent')) for y in walk(cap)):
                        stop = op
        mo = [y for y in walk(pos) if y[0] == 'call' and y[1].endswith('Option::map_or') and y[2] and any(z is x or z == x for z in walk(y[2][0]))]
        dflt_ok = offs_ok = False
        if mo:
            dflt = peel(mo[0][2][1])
            dflt_ok = dflt[0] == 'call' and dflt[1].endswith('Vec::len') and receiver_field(dflt[2][0]) == 'modules'
            mc = peel(mo[0][2][2])
            if mc[0] == 'agg' and str(mc[1]).startswith('closure:'):
                g2 = P.fns.get(mc[1][len('closure:'):])
                for _, t in (ret_trees(g2) if g2 else []):
                    tt = t[1] if (t[0] == 'field' and t[1][0] == 'bin') else t
                    if tt[0] == 'bin' and tt[1].startswith('Add'):
                        parts = [resolve_captures(P, g2, tt[2]), resolve_captures(P, g2, tt[3])]
                        has_start = any(any(z[0] == 'call' and z[1].endswith('::rposition') for z in walk(q)) for q in parts)
                        has_off = any(peel(q)[0] == 'arg' and peel(q)[1] == 2 for q in (tt[2], tt[3]))
                        offs_ok = has_start and has_off
        ctx.check(stop == 'le' and dflt_ok and offs_ok, 'advance-iff-deeper',
                  'the scan advances past an entry iff its path is strictly deeper than the parent (search form: first entry at or above the parent depth after the parent, else the end): the new child lands after the whole existing subtree of its parent and before the next sibling/ancestor entry',
                  s.where(), {'form': 'search', 'stop_test': stop, 'default_is_len': dflt_ok, 'offset_added_to_start': offs_ok})
        _r3_tail(ctx, f, s)
        return
    if not ctx.floor('scan loop in ModuleTree::add', len(adv), 1):
        return
    h, b = adv[0]
    atoms = [a for s2, a in f.guard_atoms(b) if s2 in f.loops()[h]]
    depth = None
    others = []
    for a in atoms:
        if a[0] == 'cmp':
            l, r, op = a[2], a[3], a[1]
            ll = l[0] == 'call' and l[1].endswith('ObjectPath::len')
            rl = r[0] == 'call' and r[1].endswith('ObjectPath::len')
            if ll and rl:
                l_is_elem = any(x[0] == 'index' or (x[0] == 'field' and x[2] == 'modules') for x in walk(l))
                if not l_is_elem:
                    l, r, op = r, l, SWAP[op]
                depth = op
                continue
            if any(x[0] == 'call' and x[1].endswith('Vec::len') for x in walk(r)) or any(x[0] == 'call' and x[1].endswith('Vec::len') for x in walk(l)):
                continue  # bounds test pos < len
        others.append(a)
    foreign = [a for a in others if a[0] in ('bool', 'cmp')]
    ctx.check(depth == 'gt' and not foreign, 'advance-iff-deeper',
              'the scan advances past an entry iff its path is strictly deeper than the parent (depth comparison): the new child lands after the whole existing subtree of its parent and before the next sibling/ancestor entry',
              f.where(b), {'depth_test': depth, 'other_conditions': [show_atom(a) for a in foreign]})
    _r3_tail(ctx, f, s)


def r4_teardown(ctx):
    ctx.set_rule('C12.R4')
    f = _lifecycle_fn(ctx, 'at_sim_end')
    if not f:
        return
    ends = f.calls_to(EV + 'at_sim_end')
    if not ctx.floor('at_sim_end call in the tear-down loop', len(ends), 1):
        return
    s = ends[0]
    n = len(f.loops_containing(s.b))
    ok, d = _module_seq_ok(f, s)
    ctx.check(n == 1 and ok, 'flat-in-order-loop', 'at_sim_end is invoked in one flat in-order loop over the module-tree vector (once per module)', s.where(), {'nesting': n, 'receiver': d})
    # the loop is reached on every feasible path (shared with C13.R3)
    from .C13 import teardown_reaches_all
    teardown_reaches_all(ctx, 'C12.R4')
    ctx.set_rule('C12.R4')
    teardown_regardless_of_activity(ctx, 'C12.R4')
    ctx.set_rule('C12.R4')
    bad = _reorder_ops(f)
    ctx.check(not bad, 'no-reorder-teardown', 'the module sequence is not reordered or pruned during tear-down', f.where(), [x.name for x in bad])


def teardown_regardless_of_activity(ctx, rule):
    """per module: tear-down runs whatever state the module is in (a module that is shut down, or was deactivated by a caught panic, when
    the run ends still gets its one at_sim_end call, and the outcomes of its joined tasks are still collected); shared with C13.R3"""
    ctx.set_rule(rule)
    g = ctx.P.fns.get(EV + 'at_sim_end')
    if g is not None:
        ctx.touch(g)
        scope_g = [g] + ctx.P.closures_of(g)
        user = [(h, c) for h in scope_g for c in h.calls() if (c.callee or '').endswith('Module::at_sim_end')]
        if ctx.floor("call of the user's at_sim_end", len(user), 1):
            # the site in g that leads to it: the call itself, or the harness call whose closure contains it
            sites = [c for h, c in user if h is g] + [c for c in g.calls() if c.name.endswith('Harness::exec')]
            for c in sites[:1]:
                gated = [a for _, a in g.guard_atoms(c.b) if a and any(x[0] == 'field' and x[2] == 'active' for x in walk(a[1] if len(a) > 1 and isinstance(a[1], tuple) else ()))
                         or (a and a[0] == 'bool' and a[1][0] == 'call' and a[1][1].endswith(('is_active',)))]
                ctx.check(not gated, 'teardown-regardless-of-activity', "a module's at_sim_end is delivered whether or not the module is active when the run ends (exactly once per module)",
                          c.where(), [show_atom(a) for a in gated])
        # nothing in the per-module tear-down (bracket, harness, collection of joined tasks' outcomes) is skipped for an inactive module
        def reads_active(a):
            return a and isinstance(a[1], tuple) and (any(x[0] == 'field' and x[2] == 'active' for x in walk(a[1])) or
                                                      (a[0] == 'bool' and a[1][0] == 'call' and a[1][1].endswith('is_active')))
        gated_sites = [(c, [a for _, a in g.guard_atoms(c.b) if reads_active(a)]) for c in g.calls()]
        gated_sites = [(c, ga) for c, ga in gated_sites if ga]
        ctx.check(not gated_sites, 'teardown-complete-for-inactive', "no step of a module's tear-down depends on whether the module is active",
                  gated_sites[0][0].where() if gated_sites else g.where(), [c.name for c, _ in gated_sites][:4])


def _path_presence_test(P, tree, depth=4):
    """does the boolean `tree` (a call, possibly handing a closure to an accessor) compare ObjectPaths while looking through the module
    sequence?  (`tree.contains(path)` = `modules.iter().any(|n| n.path == *path)` reached through helpers / closures)"""
    # only the test's own callee and the closures handed to it count (not what its arguments were computed from: the lookup of the
    # *parent* also compares paths), and the test must not be about the parent path
    if tree[0] != 'call' or any(x[0] == 'call' and x[1].split('::')[-1] in ('nonzero_parent', 'parent') for x in walk(tree)):
        return False
    todo = [tree[1]] if tree[1] in P.fns and tree[1].startswith('des::net::') else []
    for x in tree[2]:
        x = peel_c(x)
        if x[0] == 'agg' and str(x[1]).startswith('closure:'):
            todo.append(str(x[1])[len('closure:'):])
    if not todo:
        return False
    seen = set()
    for _ in range(depth):
        nxt = []
        for k in todo:
            g = P.fns.get(k)
            if g is None or k in seen:
                continue
            seen.add(k)
            for c in g.calls():
                if c.name.split('::')[-1] in ('eq', 'ne') and any('ObjectPath' in (t or '') for t in (c.argtys or [])):
                    return True
                if c.name in P.fns and c.name.startswith('des::net::'):
                    nxt.append(c.name)
            nxt += [h.key for h in P.closures_of(g)]
        todo = nxt
    return False


def r5_builder_rejections(ctx):
    ctx.set_rule('C12.R5')
    f = ctx.anchor(NR + 'SimBuilder::raw')
    if not f:
        return
    child = [s for s in f.calls() if s.name.endswith('ModuleContext::child_of')]
    alone = [s for s in f.calls() if s.name.endswith('ModuleContext::standalone')]
    ctx.floor('context creation sites in SimBuilder::raw', len(child) + len(alone), 2)
    for s in child + alone:
        atoms = [a for _, a in f.guard_atoms(s.b)]
        nodup = any((option_state(a) or ('', None))[0] == 'none' and any(x[0] == 'call' and x[1].endswith('::get') for x in walk(option_state(a)[1])) for a in atoms)
        if not nodup:
            # predicate form: `!tree.contains(&path)` (a presence test over the module sequence that compares paths)
            nodup = any(a[0] == 'bool' and a[2] is False and a[1][0] == 'call' and _path_presence_test(ctx.P, a[1]) for a in atoms)
        ctx.check(nodup, 'duplicate-rejected', 'a node is only created after the duplicate-path check passed', s.where(), [show_atom(a) for a in atoms][:4])
    for s in child:
        atoms = [a for _, a in f.guard_atoms(s.b)]
        par = any(a[0] == 'is' and a[2] == 'Some' and a[1][0] == 'call' and a[1][1].endswith('::get') for a in atoms)
        if not par and len(s.args) > 1:
            # `self.get(&parent).unwrap_or_else(|| panic!(..))` / `.expect(..)`: the parent handed to child_of exists or the build aborts
            src = forced_some(ctx.P, f.expr_operand(s.args[1], s.b, 'T'))
            par = src is not None and src[0] == 'call' and src[1].endswith('::get')
        ctx.check(par, 'parent-required', 'a child node is only created when its parent exists', s.where(), [show_atom(a) for a in atoms][:4])
    adds = [g for g in ctx.P.closures_of(f) if g.calls_to(NR + 'ModuleTree::add')]
    ctx.check(len(adds) == 1, 'registered-once', 'the new node is entered into the module tree exactly once', f.where())


def r6_path_offsets(ctx):
    """ObjectPath bookkeeping works on byte offsets: a count of characters must never be used as (or mixed into) a byte offset"""
    ctx.set_rule('C12.R6')
    P = ctx.P
    fs = [f for f in P.fn_list if f.key.startswith(('des::net::path::', '<des::net::path::')) and f.kind != 'promoted']
    ctx.floor('ObjectPath functions', len(fs), 10)
    n = 0
    bad = []
    for f in fs:
        ctx.touch(f)
        for b in sorted(f.reachable()):
            for i, st in enumerate(f.stmts(b)):
                if st['k'] != 'assign':
                    continue
                t = f.expr_rvalue(st['r'], b, i)
                n += 1
                # a char count ...
                cnt = [x for x in walk(t) if x[0] == 'call' and x[1].split('::')[-1] == 'count' and
                       any(y[0] == 'call' and y[1].endswith(('::chars', '::char_indices')) for y in walk(x))]
                if not cnt:
                    continue
                # ... combined arithmetically with a byte length, or stored into an offset field / used as slice index
                mixes = any(x[0] == 'bin' and any(y[0] == 'call' and y[1].endswith(('str::len', 'String::len')) for y in walk(x)) for x in walk(t))
                fl = [e for e in st['p']['pr'] if e['k'] == 'field']
                to_offset = bool(fl) and 'offset' in (fl[-1].get('n') or '')
                agg_off = t[0] == 'agg' and any('offset' in nm and any(z in cnt for z in walk(op)) for nm, op in zip(t[3], t[2]))
                if mixes or to_offset or agg_off:
                    bad.append((f, b))
        for s in f.calls():
            if s.name.split('::')[-1] in ('index', 'split_at', 'get', 'truncate', 'split_off', 'drain') and ('str' in s.name or 'String' in s.name) and len(s.args) > 1:
                t = f.expr_operand(s.args[1], s.b, 'T')
                if any(x[0] == 'call' and x[1].split('::')[-1] == 'count' and any(y[0] == 'call' and y[1].endswith(('::chars', '::char_indices')) for y in walk(x)) for x in walk(t)):
                    bad.append((f, s.b))
    for f, b in bad:
        ctx.violation('char-count-as-byte-offset:%s' % f.key, 'a number of characters is used as a byte offset into the path string: paths with multi-byte characters get a parent/name that disagrees with the declared tree', f.where(b))
    if not bad:
        ctx.ok('no character count is used as a byte offset in ObjectPath (%d assignments examined)' % n)


def run(ctx):
    r6_path_offsets(ctx)
    r1_r2_startup(ctx)
    r3_insertion_rule(ctx)
    r4_teardown(ctx)
    r5_builder_rejections(ctx)

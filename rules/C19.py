"""C19 — topology views mirror the gate graph (structural clauses, DESIGN §4 C19)."""
from .engine.helpers import *

EXPLANATION = (
    "Static analysis of des::net::topology: (R1) work-list discipline — Topology::spanned predicts the node index of a module still "
    "in its work list from the list position, so the work list must be consumed FIFO; Topology::dijkstra reports first hops of minimum-hop "
    "paths, so its queue must be FIFO (or keyed by distance) and a node's first hop is recorded only while the node is unvisited; "
    "Topology::connected uses a fresh visited set per start node; (R2) edge construction in spanned and from_modules: under kind()==Endpoint, "
    "EdgeRaw.start is the endpoint gate, EdgeRaw.end is the gate reached by walking the *whole* path iterator (no hop bound), EdgeRaw.dst "
    "is the index of the node owning that end gate; (R3) filter_nodes/filter_edges keep node ids and edge targets consistent (edges to "
    "removed nodes are dropped, remaining targets remapped). "
    '(R2 also: a spanned module is registered as a node before its gates are walked, and bidirectional construction adds both directions for every edge.) '
    '(R4) the global edge iterator steps its source index exactly when it moves on by one edge bundle. '
    '(R1 also: a node is recorded as visited only under the test that it is not recorded yet; R2 also: the chain walk loop ends on exhaustion only.) '
    "(R5) every query extracts the topology from the live module tree on that very call - no stored topology is answered from. "
    "Decides these necessary conditions only; not graph-query correctness in general.")
ASSUMPTIONS = ["a gate chain starting at an endpoint gate is a finite path (C08.R4: at most two peers per gate)"]

T = 'des::net::topology::Topology'
LIFO = ('pop', 'pop_back')
FIFO = ('pop_front',)


def _worklist_ops(f, scope, tyfrag):
    """(extractions, insertions) on collections whose element type mentions tyfrag"""
    ext, ins = [], []
    for g in scope:
        for s in g.calls():
            if not s.argtys or not any(t_ in s.argtys[0] for t_ in ((tyfrag,) if isinstance(tyfrag, str) else tyfrag)):
                continue
            if not ('Vec<' in s.argtys[0] or 'VecDeque<' in s.argtys[0] or 'BinaryHeap<' in s.argtys[0]):
                continue
            m = s.name.split('::')[-1]
            if m in ('pop', 'pop_back', 'pop_front', 'remove', 'swap_remove'):
                kind = 'lifo' if m in LIFO and 'BinaryHeap' not in s.name else 'fifo' if m in FIFO else 'heap' if 'BinaryHeap' in s.name else None
                if m == 'remove':
                    a = g.expr_operand(s.args[1], s.b, 'T')
                    kind = 'fifo' if a == ('int', 0) else 'indexed'
                if m == 'swap_remove':
                    kind = 'unordered'
                ext.append((s, kind))
            if m in ('push', 'push_back', 'push_front', 'insert'):
                ins.append((s, 'front' if m == 'push_front' else 'back'))
    return ext, ins


def r1_worklists(ctx):
    ctx.set_rule('C19.R1')
    P = ctx.P
    # --- spanned
    f = ctx.anchor(T + '::spanned')
    if f:
        scope = [f] + P.closures_of(f)
        ext, ins = _worklist_ops(f, scope, 'ModuleRef')
        ext = [(s, k) for s, k in ext if 'Node' not in s.argtys[0]]
        ins = [(s, k) for s, k in ins if 'Node' not in s.argtys[0] and s.fn is not f or (s.fn is f and 'Node' not in s.argtys[0] and 'EdgeRaw' not in s.argtys[0])]
        # index prediction: a closure computing src_idx + .. from a position in the work list
        predicts = False
        for g in P.closures_of(f):
            uses_pos = any(c.name.endswith('::position') and c.argtys and 'ModuleRef' in c.argtys[0] for c in g.calls())
            adds = any(st['k'] == 'assign' and st['r']['k'] == 'binop' and st['r']['op'].startswith('Add') for b in g.reachable() for st in g.stmts(b))
            if uses_pos and adds:
                predicts = True
        if not predicts:
            ctx.ok('spanned does not predict node indices from work-list positions', f.where()); ctx.note('risk idiom (index prediction) not found')
        elif ctx.floor('work-list extraction in spanned', len(ext), 1):
            kinds = {k for _, k in ext}
            ends = {k for _, k in ins}
            ctx.check(kinds == {'fifo'} and ends <= {'back'}, 'spanned-fifo',
                      'Topology::spanned predicts the index of a queued module as src_idx + 1 + position, which is only right if the work list is consumed in FIFO order',
                      ext[0][0].where(), {'extraction': sorted(kinds), 'insertion': sorted(ends)})
    # --- spanned: the module taken from the work list is a node BEFORE its gates are walked (a chain ending on the module itself must find it)
    fsp = P.fns.get(T + '::spanned')
    if fsp:
        pushes = [c for c in fsp.calls() if c.name == 'std::vec::Vec::push' and receiver_field(fsp.expr_operand(c.args[0], c.b, 'T')) == 'nodes' and fsp.loops_containing(c.b)]
        looks = [c for c in fsp.calls() if (c.callee or c.name).endswith(('Iterator::position', 'Iterator::find', 'Iterator::any')) and fsp.loops_containing(c.b) and
                 any(x[0] == 'field' and x[2] == 'nodes' for x in walk(fsp.expr_operand(c.args[0], c.b, 'T')))]
        if pushes and looks:
            ok_ = all(any(fsp.dominates(p_.b, l_.b) and set(fsp.loops_containing(p_.b)) <= set(fsp.loops_containing(l_.b)) for p_ in pushes) for l_ in looks)
            ctx.check(ok_, 'spanned-node-before-gates', 'spanned() appends the node of the module being expanded before looking up the owners of its chain ends', looks[0].where())
    # --- dijkstra
    f = ctx.anchor(T + '::dijkstra')
    if f:
        scope = [f] + P.closures_of(f)
        # the work list's entries carry the first hop: the pinned `QueueElement { idx, distance, next: Option<Edge> }` or a tuple with the same content
        # (role: the entry type = a private record of dijkstra that carries an Edge, whatever it is called)
        frags = ['QueueElement', 'topology::Edge<']
        for k_, a_ in P.adts.items():
            if k_.startswith(T + '::dijkstra') and any('topology::Edge<' in fd['ty'] for v in a_.get('variants', []) for fd in v['fields']):
                frags.append(k_.rsplit('::', 1)[-1])
        ext, ins = _worklist_ops(f, scope, tuple(frags))
        if not ext:
            # wave form: the work list is consumed in order by `for cur in wave` and refilled at the back of a second vector that
            # replaces it for the next round - first in, first out by construction
            for s in f.calls():
                if (s.callee or s.name).endswith('IntoIterator::into_iter') and s.argtys and s.argtys[0].startswith('std::vec::Vec<') and any(t_ in s.argtys[0] for t_ in frags) \
                        and len(f.loops_containing(s.b)) >= 1:
                    nx = [c for c in f.calls() if (c.callee or '') == 'std::iter::Iterator::next' and c.args and
                          any(x[0] == 'call' and x[1].endswith('into_iter') and x[3] == s.b for x in walk(f.expr_operand(c.args[0], c.b, 'T'))) and
                          not any(x[0] == 'call' and x[1].split('::')[-1] in ('rev', 'skip', 'step_by', 'filter', 'take', 'skip_while', 'take_while', 'chain', 'zip') for x in walk(f.expr_operand(c.args[0], c.b, 'T')))]
                    if nx and innermost_loop(f, nx[0].b) is not None and loop_exits_only_on_exhaustion(f, innermost_loop(f, nx[0].b)):
                        ext.append((s, 'fifo'))
        if ctx.floor('queue extraction in dijkstra', len(ext), 1):
            kinds = {k for _, k in ext}
            ends = {k for _, k in ins}
            ctx.check((kinds == {'fifo'} and ends <= {'back'}) or kinds == {'heap'}, 'dijkstra-bfs',
                      'Topology::dijkstra explores unit-weight edges breadth-first (FIFO queue) or by recorded distance: with a LIFO work list the first hop recorded for a node need not lie on a minimum-hop path',
                      ext[0][0].where(), {'extraction': sorted(kinds), 'insertion': sorted(ends)})
        # first hop recorded only for unvisited nodes
        rec = [s for s in f.calls() if s.name.endswith('HashMap::insert')]
        vis_push = [s for s in f.calls() if s.name == 'std::vec::Vec::push' and s.argtys and 'usize' in s.argtys[0] and 'QueueElement' not in s.argtys[0] and 'topology::Edge<' not in s.argtys[0]]
        if ctx.floor('first-hop recording in dijkstra', len(rec), 1):
            s = rec[0]
            atoms = [a for _, a in f.guard_atoms(s.b)]
            unvisited = any(a[0] == 'bool' and a[1][0] == 'call' and a[1][1].endswith('::contains') and a[2] is False for a in atoms) or \
                any(a[0] == 'bool' and a[2] is False and a[1][0] == 'index' for a in atoms)     # a visited bitmap: `!visited[idx]`
            # alternative discipline: nodes are marked visited when they are enqueued
            enq = [i for i, _ in ins]
            mark_at_enqueue = bool(vis_push) and bool(enq) and all(set(f.loops_containing(v.b)) >= set(f.loops_containing(enq[0].b)) and len(f.loops_containing(v.b)) >= 2 for v in vis_push)
            ctx.check(unvisited or mark_at_enqueue, 'first-hop-once',
                      "a node's first hop is recorded only the first time the node is taken from the queue (or nodes are marked when enqueued): a node can be queued twice, and a later duplicate would overwrite the first hop with one from a longer path",
                      s.where(), [show_atom(a) for a in atoms][:4])
        # the queue carries cur.next or the edge itself as first hop
    # --- connected
    f = ctx.anchor(T + '::connected')
    if f:
        scope = [f] + P.closures_of(f)
        def recursive_local(name):
            g0 = P.fns.get(name)
            if g0 is None or g0.kind not in ('fn', 'assocfn') or g0 is f:
                return False
            return any(c.name == name for h in [g0] + P.closures_of(g0) for c in h.calls())
        # the exploration routine: the pinned nested fn `visit`, or whatever local recursive function connected() hands the start node to
        vs = [(g, s) for g in scope for s in g.calls() if s.name.endswith('connected::visit') or (s.name.startswith(T + '::') and recursive_local(s.name))]
        if ctx.floor('visit call in connected', len(vs), 1):
            g, s = vs[0]
            t = ('tuple',) + tuple(g.expr_operand(a_, s.b, 'T') for a_ in s.args[1:])
            fresh = False
            for x in walk(t):
                empty_set = x[0] == 'call' and x[1].split('::')[-1] in ('new', 'with_capacity', 'default') and 'Vec' in x[1]
                # a marker table `vec![false; n]`: nothing marked
                empty_marks = x[0] == 'call' and x[1].endswith('vec::from_elem') and x[2] and peel(x[2][0]) == ('int', 0)
                if empty_set or empty_marks:
                    if g is f:
                        fresh = set(f.loops_containing(x[3])) >= set(f.loops_containing(s.b)) and bool(f.loops_containing(s.b))
                    else:
                        # per-start closure (e.g. `(0..n).all(|start| { let mut visited = Vec::new(); .. })`): created inside the closure body
                        fresh = True
            cleared = any(c.name.endswith('Vec::clear') and set(g.loops_containing(c.b)) >= set(g.loops_containing(s.b)) for c in g.calls())
            ctx.check(fresh or cleared, 'fresh-visited-per-start', 'connected() explores from every start node with an empty visited set (reachability from each node, not only from node 0)', s.where(), show(t)[:120])
            # the start node ranges over all nodes
            if g is not f:
                drv = [c for c in f.calls() if (c.callee or '') == 'std::iter::Iterator::all']
                whole = False
                for c in drv:
                    it = f.expr_operand(c.args[0], c.b, 'T')
                    rng = [y for y in walk(it) if y[0] == 'agg' and 'ops::Range' in str(y[1]) and len(y[2]) == 2]
                    whole = whole or (bool(rng) and rng[0][2][0] == ('int', 0) and any(z[0] == 'call' and z[1].endswith('Vec::len') for z in walk(rng[0][2][1])))
                ctx.check(whole, 'all-starts', 'connected() starts an exploration at every node index 0..nodes.len()', s.where())
        # result: every start must reach all nodes
        rets = [path_ret(f, p) for p, o, d in fn_paths(ctx, f) if o == 'return']
        both = ('int', 0) in rets and ('int', 1) in rets
        if not both and rets and all(r is not None and r[0] == 'call' and r[1].endswith('::all') for r in rets):
            # `all(|start| visited.len() == n)`: the verdict is the conjunction over the starts of a length comparison
            for g2 in P.closures_of(f):
                for _, rt in ret_trees(g2):
                    a_ = atom_of(rt, ('eq', 1))
                    if a_ and a_[0] == 'cmp' and a_[1] == 'eq':
                        both = True    # a per-start equality test (reached == n): true for some graphs, false for others
        ctx.check(both, 'connected-verdicts', 'connected() can answer both ways', f.where())
        # the verdict counts the visited nodes: a node enters the visited list only if it is not in it yet (the test is made on the very
        # value that is recorded, at the time it is recorded) - a list with duplicates makes a connected graph look unconnected
        # (a set type deduplicates by itself)
        n_rec = 0

        def base_list(t):
            t = canon(strip_refs(t))
            while t[0] == 'call' and len(t[2]) == 1 and t[1].split('::')[-1] in ('deref', 'deref_mut', 'as_slice', 'as_ref', 'borrow'):
                t = canon(strip_refs(t[2][0]))
            return t
        for g in P.fn_list:
            if not (g.key.startswith(T + '::connected') and g.kind != 'promoted'):
                continue
            for c in g.calls():
                if c.name.split('::')[-1] in ('push', 'push_back') and c.argtys and c.argtys[0].startswith('&mut') and 'usize' in c.argtys[0] and len(c.args) == 2:
                    rec_v = canon(peel(g.expr_operand(c.args[1], c.b, 'T')))
                    lst = base_list(peel(g.expr_operand(c.args[0], c.b, 'T')))
                    # is this the list whose membership is tested anywhere in g (= the visited list), as opposed to a work list?
                    tests = [x for b_ in sorted(g.reachable()) for _, a in g.guard_atoms(b_) if a and a[0] == 'bool' and a[1][0] == 'call' and a[1][1].endswith('::contains')
                             for x in [a] if base_list(peel_c(a[1][2][0])) == lst]
                    if not tests:
                        continue
                    n_rec += 1
                    ga = [a for _, a in g.guard_atoms(c.b)]
                    fresh_ = any(a[0] == 'bool' and a[2] is False and a[1][0] == 'call' and a[1][1].endswith('::contains') and
                                 base_list(peel_c(a[1][2][0])) == lst and canon(strip_refs(peel_c(a[1][2][1]))) == canon(strip_refs(rec_v)) for a in ga)
                    ctx.check(fresh_, 'visited-without-duplicates', 'a node is recorded as visited only under the test that it is not recorded yet', c.where(), [show_atom(a) for a in ga][:3])
        ctx.note('visited-list records checked in connected(): %d' % n_rec)


def _edge_sites(ctx, f):
    out = []
    for b in sorted(f.reachable()):
        for i, st in enumerate(f.stmts(b)):
            if st['k'] == 'assign' and st['r']['k'] == 'agg' and st['r'].get('adt', '').endswith('EdgeRaw'):
                out.append((b, i, st))
    return out


def r2_edge_provenance(ctx):
    ctx.set_rule('C19.R2')
    P = ctx.P
    for key in (T + '::spanned', T + '::from_modules'):
        f = ctx.anchor(key)
        if not f:
            continue
        sites = _edge_sites(ctx, f)
        if not ctx.floor('EdgeRaw construction in %s' % short(key), len(sites), 1):
            continue
        for b, i, st in sites:
            r = st['r']
            fields = dict(zip(r['fields'], [f.expr_operand(o, b, i) for o in r['ops']]))
            atoms = [a for _, a in f.guard_atoms(b)]
            endpoint_guard = any(a[0] in ('bool', 'cmp') and any(x[0] == 'call' and x[1].endswith('Gate::kind') for x in walk(a[1] if a[0] == 'bool' else a[2])) for a in atoms) or \
                any(a[0] == 'cmp' and a[1] == 'eq' and any(x[0] == 'call' and x[1].endswith('Gate::kind') for x in walk(a[2])) for a in atoms)
            if not endpoint_guard:
                # the gates are pre-filtered: `.filter(|g| g.kind() == GateKind::Endpoint)` feeds the loop that builds the edge
                st_ = f.expr_operand(r['ops'][r['fields'].index('start')], b, i)
                for x in walk(st_):
                    if x[0] == 'call' and x[1].endswith(('Iterator::filter', 'Iterator::find')) and len(x[2]) == 2:
                        cl = peel(x[2][1])
                        g2 = P.fns.get(cl[1][len('closure:'):]) if cl[0] == 'agg' and str(cl[1]).startswith('closure:') else None
                        for _, t2 in (ret_trees(g2) if g2 else []):
                            a2 = atom_of(t2, ('eq', 1))
                            if a2 and a2[0] == 'cmp' and a2[1] == 'eq' and any(y[0] == 'call' and y[1].endswith('Gate::kind') for y in walk(a2[2]) ) and 'Endpoint' in show_c(a2[3]):
                                endpoint_guard = True
                            if a2 and a2[0] == 'cmp' and a2[1] == 'eq' and any(y[0] == 'call' and y[1].endswith('Gate::kind') for y in walk(a2[3])) and 'Endpoint' in show_c(a2[2]):
                                endpoint_guard = True
            if not endpoint_guard:
                # the test sits in a helper that answers with an Option (`let Some(end) = gate.chain_end() else { continue }`): every way
                # through one turn of the gate loop that reaches the construction has passed `kind() == Endpoint`
                h_ = innermost_loop(f, b)
                if h_ is not None:
                    n_p, all_ok = 0, True
                    for path, outcome, decs in f.enum_paths(start=h_, stop_at={b}):
                        if outcome != 'stop' or path[-1] != b or not consistent(f, path, decs):
                            continue
                        n_p += 1
                        pa = [a for _, a in path_atoms(f, path, decs)]
                        def is_ep(a):
                            if a[0] == 'cmp' and a[1] == 'eq':
                                return any(x[0] == 'call' and str(x[1]).endswith('Gate::kind') for side in (a[2], a[3]) for x in walk(side)) and 'Endpoint' in show_c(a[2]) + show_c(a[3])
                            if a[0] == 'bool' and a[2] is True and a[1][0] == 'call' and str(a[1][1]).split('::')[-1] == 'eq':
                                return any(x[0] == 'call' and str(x[1]).endswith('Gate::kind') for x in walk(a[1])) and 'Endpoint' in show_c(a[1])
                            if a[0] == 'bool' and a[2] is False and a[1][0] == 'call' and str(a[1][1]).split('::')[-1] == 'ne':
                                return any(x[0] == 'call' and str(x[1]).endswith('Gate::kind') for x in walk(a[1])) and 'Endpoint' in show_c(a[1])
                            return False
                        all_ok = all_ok and any(is_ep(a) for a in pa)
                    endpoint_guard = n_p >= 1 and all_ok
            ctx.check(endpoint_guard, 'edge-only-for-endpoints:%s' % key.split('::')[-1], 'an edge is created only for gates of kind Endpoint', f.where(b), [show_atom(a) for a in atoms][:3])
            start = peel(fields['start'])
            s_ok = any(x[0] == 'call' and x[1].endswith(('::next', 'Iterator::find')) for x in walk(start)) and not any(x[0] == 'field' and x[2] == 'endpoint' for x in walk(start))
            end = fields['end']
            e_ok = any(x[0] == 'field' and x[2] == 'endpoint' for x in walk(end)) and any(x[0] in ('phi', 'var') for x in walk(end))
            folds = [x for x in walk(end) if x[0] == 'call' and x[1].endswith('Iterator::fold') and len(x[2]) == 3 and any(y[0] == 'call' and y[1].endswith('Gate::path_iter') for y in walk(x[2][0]))]
            fold_end = False
            for x in folds:
                cl = peel(x[2][2])
                g2 = P.fns.get(cl[1][len('closure:'):]) if cl[0] == 'agg' and str(cl[1]).startswith('closure:') else None
                rts = [peel(t2) for _, t2 in ret_trees(g2)] if g2 else []
                # fold(start gate, |_, con| con.endpoint): the last connection's endpoint, or the gate itself for an empty chain
                if rts and all(t2[0] == 'field' and t2[2] == 'endpoint' and any(y[0] == 'arg' and y[1] == 3 for y in walk(t2)) for t2 in rts):
                    fold_end = True
            # last form: `path_iter().last().map_or_else(|| gate.clone(), |con| con.endpoint)` (the start gate itself for an empty chain)
            last_end = False
            for x in walk(end):
                if x[0] == 'call' and 'option::Option' in x[1] and x[1].split('::')[-1] in ('map_or_else', 'map_or') and len(x[2]) == 3:
                    src = peel(x[2][0])
                    if src[0] == 'call' and src[1].endswith('Iterator::last') and src[2] and any(y[0] == 'call' and y[1].endswith('Gate::path_iter') for y in walk(src[2][0])):
                        cl = peel(x[2][2])
                        g2 = P.fns.get(cl[1][len('closure:'):]) if cl[0] == 'agg' and str(cl[1]).startswith('closure:') else None
                        rts = [peel(t2) for _, t2 in ret_trees(g2)] if g2 else []
                        if rts and all(t2[0] == 'field' and t2[2] == 'endpoint' and any(y[0] == 'arg' and y[1] == 2 for y in walk(t2)) for t2 in rts):
                            last_end = True
            e_ok = e_ok or fold_end or last_end
            dst = fields['dst']
            d_ok = any(x[0] == 'call' and x[1].endswith('::position') for x in walk(dst))
            if not d_ok:
                # index form: dst = *index.get(&owner_id) with index: owner id -> position of the FIRST node of that owner, filled by
                # `index.entry(module.id()).or_insert(i)` in the very loop that pushes node i (enumerate over the same traversal)
                gets = [x for x in walk(dst) if x[0] == 'call' and x[1].endswith('HashMap::get') and len(x[2]) == 2]
                fills = [c for c in f.calls() if c.name.endswith('Entry::or_insert') and len(c.args) == 2]
                others = [c for c in f.calls() if c.name.endswith(('HashMap::insert', 'HashMap::remove', 'HashMap::clear', 'HashMap::retain', 'HashMap::extend'))]
                if gets and len(fills) == 1 and not others:
                    c = fills[0]
                    ent = peel(f.expr_operand(c.args[0], c.b, 'T'))
                    idx = peel(f.expr_operand(c.args[1], c.b, 'T'))
                    same_map = ent[0] == 'call' and ent[1].endswith('HashMap::entry') and canon(strip_refs(ent[2][0])) == canon(strip_refs(gets[0][2][0]))
                    key_is_id = ent[0] == 'call' and len(ent[2]) == 2 and any(x[0] == 'call' and x[1].split('::')[-1] == 'id' for x in walk(ent[2][1]))
                    enum_idx = idx[0] == 'field' and idx[2] == '0' and any(x[0] == 'call' and x[1].endswith('Iterator::enumerate') for x in walk(idx))
                    lh = innermost_loop(f, c.b)
                    pushes = [p_ for p_ in f.calls() if p_.name == 'std::vec::Vec::push' and receiver_field(f.expr_operand(p_.args[0], p_.b, 'T')) == 'nodes' and innermost_loop(f, p_.b) == lh]
                    d_ok = same_map and key_is_id and enum_idx and lh is not None and len(pushes) == 1
            ctx.check(s_ok and e_ok and d_ok, 'edge-fields:%s' % key.split('::')[-1],
                      'EdgeRaw{start: the endpoint gate itself, end: the gate reached by walking its path, dst: index of the node owning that gate}', f.where(b),
                      {'start': show(start)[:100], 'end': show(end)[:100], 'dst': show(dst)[:100]})
            # dst is looked up by the owner of `end`
            owner = [s for s in f.calls() if s.name.endswith('Gate::owner') and f.dominates(s.b, b)]
            ctx.check(any(any(x[0] == 'field' and x[2] == 'endpoint' for x in walk(f.expr_operand(s.args[0], s.b, 'T'))) or
                          any(x[0] in ('phi', 'var') and x[-1] == 'end' for x in walk(f.expr_operand(s.args[0], s.b, 'T'))) or
                          (fold_end and any(x[0] == 'call' and x[1].endswith('Iterator::fold') for x in walk(f.expr_operand(s.args[0], s.b, 'T')))) or
                          (last_end and any(x[0] == 'call' and x[1].endswith('Iterator::last') for x in walk(f.expr_operand(s.args[0], s.b, 'T')))) for s in owner), 'dst-from-end-owner:%s' % key.split('::')[-1],
                      'the destination node is the owner of the end gate', f.where(b))
        # the walk covers the whole chain: the loop that assigns `end = con.endpoint` iterates the path iterator itself
        walks = []
        for b in sorted(f.reachable()):
            for i, st in enumerate(f.stmts(b)):
                if st['k'] == 'assign' and not st['p']['pr'] and f.local_name(st['p']['l']) == 'end' and f.loops_containing(b):
                    t = f.expr_rvalue(st['r'], b, i)
                    nx = [x for x in walk(t) if x[0] == 'call' and x[1].endswith('::next')]
                    if nx:
                        walks.append((b, nx[0]))
        fold_sites = [s for s in f.calls() if (s.callee or '') in ('std::iter::Iterator::fold', 'std::iter::Iterator::last') and any(y[0] == 'call' and y[1].endswith('Gate::path_iter') for y in walk(f.expr_operand(s.args[0], s.b, 'T')))]
        if not walks and fold_sites:
            for s in fold_sites:
                ty = s.argtys[0] if s.argtys else ''
                bounded = any(a in ty for a in ('Take<', 'TakeWhile<', 'StepBy<', 'Skip<'))
                ctx.check(not bounded, 'walk-whole-chain:%s' % key.split('::')[-1],
                          'the end gate is found by walking the whole gate chain (fold over the unbounded path iterator)', s.where(), ty)
        elif ctx.floor('chain walk in %s' % short(key), len(walks), 1):
            for b, nx in walks:
                site = [s for s in f.calls() if s.b == nx[3]]
                ty = site[0].argtys[0] if site and site[0].argtys else ''
                bounded = any(a in ty for a in ('Take<', 'TakeWhile<', 'StepBy<', 'Skip<'))
                hdr = innermost_loop(f, b)
                # an exit of the walk loop decided by a comparison (a hop budget, a depth limit) rather than by the iterator running out
                early = False
                if hdr is not None:
                    body_ = f.loops()[hdr]
                    for u_ in body_:
                        t_ = f.term(u_)
                        if t_['k'] == 'switch' and any(v_ not in body_ for v_ in f.succs(u_)):
                            c_ = peel(f.expr_operand(t_['d'], u_, 'T'))
                            if c_[0] == 'bin' and str(c_[1]) in ('Eq', 'Ne', 'Lt', 'Le', 'Gt', 'Ge') and any(x[0] == 'int' for x in (peel(c_[2]), peel(c_[3]))):
                                early = True
                ctx.check(not bounded and not early, 'walk-whole-chain:%s' % key.split('::')[-1],
                          'the end gate is found by walking the whole gate chain (chains of any length): a hop bound makes the edge of a longer chain end at an intermediate transit gate',
                          f.where(b), {'iterator': ty, 'loop_left_before_exhaustion': early})


def r3_filters(ctx):
    ctx.set_rule('C19.R3')
    P = ctx.P
    f = ctx.anchor(T + '::filter_nodes')
    if f:
        rem = [s for s in f.calls() if s.name == 'std::vec::Vec::remove']
        nodes_rm = [s for s in rem if 'Node<' in s.argtys[0]]
        edges_rm = [s for s in rem if 'EdgeRaw' in s.argtys[0] or 'Vec<std::vec::Vec' in s.argtys[0]]
        ctx.check(len(nodes_rm) == 1 and len(edges_rm) == 1 and canon(f.expr_operand(nodes_rm[0].args[1], nodes_rm[0].b, 'T')) == canon(f.expr_operand(edges_rm[0].args[1], edges_rm[0].b, 'T')),
                  'remove-node-and-bundle', 'removing a node removes its outgoing edge bundle at the same index', f.where())
        rt = [g for g in P.closures_of(f) if any(st['k'] == 'assign' for b in g.reachable() for st in g.stmts(b)) and g.writes_to_field('dst')]
        ok = False
        for g in rt:
            for b, t in ret_trees(g):
                a = atom_of(t, ('eq', 1))
                if a and a[0] == 'cmp' and a[1] == 'ne' and ('MAX' in (show_c(a[2]) + show_c(a[3])) or ('int', 18446744073709551615) in (a[2], a[3])):
                    ok = True
        if not ok:
            # split form: a rewrite pass over the bundle (dst := mapping[dst]) followed by `retain(|e| e.dst != usize::MAX)`
            rw = [(b, i) for (b, i, st) in f.writes_to_field('dst') if any(x[0] in ('index',) or (x[0] == 'call' and 'index' in x[1]) for x in walk(f.expr_rvalue(st['r'], b, i)))]
            keep = []
            for c in f.calls():
                if c.name.endswith(('Vec::retain', 'Vec::retain_mut')) and len(c.args) == 2:
                    cl = peel(f.expr_operand(c.args[1], c.b, 'T'))
                    g2 = P.fns.get(cl[1][len('closure:'):]) if cl[0] == 'agg' and str(cl[1]).startswith('closure:') else None
                    for _, t in (ret_trees(g2) if g2 else []):
                        a = atom_of(t, ('eq', 1))
                        if a and a[0] == 'cmp' and a[1] == 'ne' and any(x[0] == 'field' and x[2] == 'dst' for x in walk(a[2]) ) and \
                                ('MAX' in show_c(a[3]) or a[3] == ('int', 18446744073709551615)):
                            keep.append(c)
            ok = bool(rw) and bool(keep) and all(any(f.dominates(b, c.b) or c.b in f.reach_from(b) for (b, i) in rw) for c in keep) and \
                all(set(f.loops_containing(c.b)) <= set(f.loops_containing(rw[0][0])) for c in keep)
        if not ok:
            # Option form: the id table holds `Option<NodeID>`; the retain closure rewrites dst from the Some payload and keeps the
            # edge, and drops it (unchanged) on None
            for g in rt:
                n_some = n_none = 0
                good = True
                for path, outcome, decs in g.enum_paths():
                    if outcome != 'return' or not consistent(g, path, decs):
                        continue
                    atoms = [a for _, a in path_atoms(g, path, decs)]
                    st_ = [option_state(a) for a in atoms]
                    st_ = [x for x in st_ if x and any(y[0] == 'index' or (y[0] == 'call' and 'index' in y[1]) for y in walk(x[1])) and any(y[0] == 'field' and y[2] == 'dst' for y in walk(x[1]))]
                    if len({x[0] for x in st_}) != 1:
                        good = False; continue
                    r = path_ret_resolved(g, path)
                    r = peel(r) if r is not None else None
                    ws = [e for e in path_effects(g, path) if e[0] == 'w' and e[2] == 'dst']
                    if st_[0][0] == 'some':
                        n_some += 1
                        from_payload = len(ws) == 1 and ws[0][4] is not None and any(y[0] == 'as' and y[2] == 'Some' for y in walk(ws[0][4]))
                        good = good and r == ('int', 1) and from_payload
                    else:
                        n_none += 1
                        good = good and r == ('int', 0) and not ws
                if good and n_some >= 1 and n_none >= 1:
                    ok = True
        ctx.check(ok, 'remap-and-drop', 'remaining edges are remapped to the new node ids and edges to removed nodes are dropped', f.where())
        # ... on every returning path (no shortcut around the pass: it is also what drops edges into removed nodes)
        rs = [s for s in f.calls() if s.name.endswith(('Vec::retain_mut', 'Vec::retain')) and f.loops_containing(s.b)]
        if ctx.floor('edge re-index pass in filter_nodes', len(rs), 1):
            hdrs = f.loops_containing(rs[0].b)
            ctx.check(any(f.postdominates(h, 0) for h in hdrs), 'reindex-on-every-path',
                      'filter_nodes runs the edge pass (remap + drop edges into removed nodes) on every returning path', rs[0].where())
    g = ctx.anchor(T + '::filter_edges')
    if g:
        ret = [s for s in g.calls() if s.name.endswith('Vec::retain')]
        ctx.check(len(ret) == 1 and bool(g.loops_containing(ret[0].b)), 'filter-edges-retain', 'filter_edges keeps exactly the edges selected by the predicate, per source node', g.where())
    h = ctx.anchor(T + '::bidirectional')
    if h:
        rets = [path_ret(h, p) for p, o, d in fn_paths(ctx, h) if o == 'return']
        both = ('int', 0) in rets and ('int', 1) in rets
        if not both and rets and all(r is not None and r[0] == 'call' and r[1].endswith('::all') for r in rets):
            # all(.. all(.. any(back.dst == src))): the verdict is a conjunction over all edges of a reverse-edge search
            both = any((c.callee or '').endswith(('Iterator::any', '::contains')) for g2 in P.closures_of(h) for c in g2.calls())
        ctx.check(both, 'bidirectional-verdicts', 'bidirectional() checks a reverse edge for every edge', h.where())
        # ... for EVERY edge: the traversals of the edge bundles are not narrowed (an unpaired edge u->v must be seen from u's side,
        # whatever the order of u and v)
        narrow = [c for g2 in [h] + P.closures_of(h) for c in g2.calls()
                  if (c.callee or c.name).split('::')[-1] in ('filter', 'skip', 'take', 'step_by', 'skip_while', 'take_while', 'filter_map') and 'Iterator' in (c.callee or c.name)]
        ctx.check(not narrow, 'bidirectional-all-edges', 'bidirectional() inspects every edge of every bundle (no filtered or truncated traversal)', narrow[0].where() if narrow else h.where(),
                  [c.name for c in narrow])


def r4_edge_sources(ctx):
    """the global edge view attributes every edge to the node whose bundle it was taken from: the iterator's source index and its
    position in the sequence of edge bundles move in lockstep (one bundle consumed <=> index + 1)"""
    ctx.set_rule('C19.R4')
    P = ctx.P
    f = ctx.anchor('<des::net::topology::EdgesIter as std::iter::Iterator>::next')
    if not f:
        return
    ctx.touch(f)
    bundle_fields = [fl['n'] for v in (P.adts.get('des::net::topology::EdgesIter') or {}).get('variants', []) for fl in v['fields'] if 'Vec<' in fl['ty'] and 'EdgeRaw' in fl['ty']]
    idx_fields = [fl['n'] for v in (P.adts.get('des::net::topology::EdgesIter') or {}).get('variants', []) for fl in v['fields'] if fl['ty'] == 'usize']
    if not (ctx.floor('bundle sequence field of EdgesIter', len(bundle_fields), 1) and ctx.floor('source index field of EdgesIter', len(idx_fields), 1)):
        return
    BF, IF = bundle_fields[0], idx_fields[0]
    n = 0
    for path, outcome, decs in fn_paths(ctx, f):
        if outcome != 'return':
            continue
        effs = path_effects(f, path)
        adv = [e for e in effs if e[0] == 'w' and e[2] == BF]
        inc = [e for e in effs if e[0] == 'w' and e[2] == IF]
        if not adv and not inc:
            continue
        n += 1
        one = True
        for e in adv:
            v = peel(e[4]) if e[4] is not None else ('unknown',)
            # the tail of split_first over the WHOLE remaining sequence, or `&seq[1..]`
            tail = v[0] == 'field' and v[2] == '1' and any(x[0] == 'call' and x[1].endswith('::split_first') and x[2] and peel(x[2][0])[0] == 'field' and peel(x[2][0])[2] == BF for x in walk(v))
            sl = any(x[0] == 'agg' and 'RangeFrom' in str(x[1]) and x[2] and x[2][0] == ('int', 1) for x in walk(v)) and not any(x[0] == 'call' and x[1].endswith('::position') for x in walk(v))
            one = one and (tail or sl)
        ok = len(adv) == len(inc) and all(e[1] == 'inc' for e in inc) and one
        ctx.check(ok, 'source-index-lockstep', 'EdgesIter::next advances its source-node index by one exactly when it moves on by one edge bundle', f.where_path(path),
                  {'bundle_advances': len(adv), 'index_steps': len(inc), 'by_one_bundle': one})
    ctx.floor('bundle-advancing paths of EdgesIter::next', n, 1)


def r5_extracted_afresh(ctx):
    """a topology view mirrors the gate graph as it is when the view is taken: Globals::topology extracts it from the modules on every
    call (gates can be re-wired at any time; a stored copy goes stale without the module count changing)"""
    ctx.set_rule('C19.R5')
    P = ctx.P
    f = ctx.anchor('des::net::runtime::Globals::topology')
    if not f:
        return
    ctx.touch(f)
    scope = [f] + P.closures_of(f)
    fm = [(g, c) for g in scope for c in g.calls() if c.name == T + '::from_modules']
    if ctx.floor('Topology::from_modules in Globals::topology', len(fm), 1):
        g, c = fm[0]
        conds = [a for _, a in g.guard_atoms(c.b) if a and a[0] in ('bool', 'cmp')]
        ctx.check(g.postdominates_entry(c.b) and not conds, 'topology-extracted-on-every-call', 'Globals::topology builds the view from the modules on every call', c.where(), [show_atom(a) for a in conds][:3])
    stored = [(k, fd['n']) for k, a in P.adts.items() if k.startswith('des::net::runtime::') for v in a.get('variants', []) for fd in v['fields'] if 'topology::Topology<' in fd['ty']]
    ctx.check(not stored, 'no-stored-topology', 'the simulation globals keep no copy of an extracted topology', f.where(), stored)


def run(ctx):
    r5_extracted_afresh(ctx)
    r4_edge_sources(ctx)
    r1_worklists(ctx)
    r2_edge_provenance(ctx)
    r3_filters(ctx)

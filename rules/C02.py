"""C02 — clock monotone and equal to the running event's timestamp (structural clauses, DESIGN §4 C02)."""
from .engine.helpers import *

EXPLANATION = (
    "Static analysis of des's clock: (R1) the static SIMTIME has exactly one storing function (SimTime::set_now, not "
    "public) with exactly two callers (Builder::build, Runtime::dispatch_event); (R2) in dispatch_event the operand of "
    "set_now is the time component of this iteration's fetch_next result, the write is off the limit path and dominates "
    "the Event::handle call; (R3) Builder::build sets the clock to the configured start time; (R4) every route from the "
    "public scheduling API into FutureEventSet::add is guarded by `time >= L` (panic otherwise) where L is initialised "
    "from the start time and follows every dispatched event — on both event-set back ends; (R5) SimTime::now() rebuilds exactly what "
    "SimTime::set_now() stored (matching cells, no narrowing cast). "
    "(R6) the calendar queue's insertion guard compares against the field fetch_next sets to the emitted event's time (not the coarser bucket-window start). "
    '(R7) Runtime::add_event_in schedules at the current simulation clock + the given duration (SimTime::now at the call, no other base time). '
    "(R8/R9, shared with C01.R8/R5) the calendar's index grid and scan window are in full resolution, the window is stepped and the bound follows the popped event. "
    '(R11) `SimTime + Duration` (what add_event_in / schedule_in compute the timestamp with) stays in integer nanoseconds: no float conversion, coarser read-out or detour through the f64 impl. '
    '(R8 also, shared with C01.R2: one bucket-index expression, in which only values bounded by the narrower type — a remainder by a value of that width, or the quotient (x % n*t)/t < n with n*t as stored by new — are narrowed; R10, shared with C03.R2: the same-instant FIFO holds exactly the events with time == bound.) '
    '(R7 also: the event set hands an event out with exactly the instant it was stored under - no coarser read-out, numeric cast or float detour between the container and the returned pair.) '
    "Decides these necessary conditions only; monotonicity over a run additionally needs the event set's order (C01, not decided).")
ASSUMPTIONS = ["atomic stores/loads behave as documented; the clock static is only reachable through its def path"]
USES_B = True
ALWAYS_B = False

CLOCK = 'des::time::SIMTIME'
SET = 'des::time::SimTime::set_now'
NOW = 'des::time::SimTime::now'
RT = 'des::runtime::Runtime'


def fes(cfg):
    return 'des::runtime::event::event_set::%s::FutureEventSet' % ('cqueue_impl' if cfg == 'A' else 'default_impl')


def static_users(P, static):
    """functions that mention a static; and those that call a mutating method on it"""
    users, writers = [], []
    STORE = ('store', 'swap', 'fetch_add', 'fetch_sub', 'compare_exchange', 'fetch_update', 'set', 'replace', 'get_mut', 'write', 'lock', 'borrow_mut', 'get')
    for f in P.fn_list:
        mention = False
        for b in sorted(f.reachable()):
            for st in f.stmts(b):
                if st['k'] == 'assign':
                    for op in ([st['r'].get('o')] if st['r'].get('o') else []) + st['r'].get('ops', []):
                        if isinstance(op, dict) and strip_generics(op.get('static') or op.get('cdef') or '') == static:
                            mention = True
                    if st['r']['k'] == 'tlref' and strip_generics(st['r']['def']) == static:
                        mention = True
            t = f.term(b)
            if t['k'] == 'call':
                for op in t['args']:
                    if strip_generics(op.get('static') or op.get('cdef') or '') == static:
                        mention = True
        if not mention:
            continue
        if f.kind == 'promoted':
            par = P.fns.get(f.key.split('::{promoted#')[0])
            # (a helper spliced into its callers hands its promoted constants to them)
            owners = [par] if par is not None else [h for h in P.fn_list if h.kind != 'promoted' and any(q is f for q in h.promoted)]
            for h in owners:
                if h not in users:
                    users.append(h)
            continue
        if f not in users:
            users.append(f)
        for s in f.calls():
            if not s.args:
                continue
            recv = f.expr_operand(s.args[0], s.b, 'T')
            if any(x == ('static', static) for x in walk(recv)) and s.name.split('::')[-1] in STORE:
                if s.name.split('::')[-1] in ('get',) and 'UnsafeCell' not in s.name and 'SyncWrap' not in s.name:
                    continue
                writers.append((f, s))
    return users, writers


def r1_single_writer(ctx, cfg='A'):
    ctx.set_rule('C02.R1', cfg)
    P = ctx.progs[cfg]
    users, writers = static_users(P, CLOCK)
    wf = sorted({f.key for f, _ in writers})
    ctx.touch(*users)
    ctx.check(wf == [SET], 'clock-writers', 'the clock static is stored to only by SimTime::set_now', None, {'writers': wf, 'mentioned_in': sorted(f.key for f in users)})
    f = P.fns.get(SET)
    if f is None:
        ctx.violation('anchor:' + SET, 'unresolved-anchor ' + SET); return
    ctx.check(f.vis != 'pub', 'set_now-not-public', 'SimTime::set_now is not callable from user code', f.where(), f.vis)
    sites = P.call_sites_of(SET)
    callers = sorted({s.fn.key for s in sites})
    ctx.floor('callers of SimTime::set_now', len(callers), 2)
    allowed = {'des::runtime::builder::Builder::build'} | {g.key for g in P.scope_of(RT + '::dispatch_event')}
    for c in callers:
        ctx.check(c in allowed, 'set_now-caller:%s' % c, 'SimTime::set_now is called only from Builder::build and the dispatch step (Runtime::dispatch_event)',
                  P.fns[c].where(), c)
    # fn item leaks (set_now taken as a value)
    leaks = [g.key for g in P.fn_list if SET in P.callees_of(g) and g.key not in callers]
    ctx.check(not leaks, 'set_now-fnptr', 'SimTime::set_now is never passed around as a function value', None, leaks)


def r2_dispatch_order(ctx, cfg='A'):
    """per dispatch step (see rules/dispatch.py): the clock is set exactly once, to the time component of the frame fetched in this
    very step, only off the limit path, before that frame's event is handled"""
    ctx.set_rule('C02.R2', cfg)
    from .dispatch import dispatch_iterations, HANDLE, frame_component
    f, its, form = dispatch_iterations(ctx, cfg)
    if f is None:
        ctx.violation('anchor:dispatch_event', 'unresolved-anchor Runtime::dispatch_event'); return
    ctx.touch(f)
    FETCH = fes(cfg) + '::fetch_next'
    n_set = n_handle = 0
    for it in its:
        ev = it.stream()
        i_set = [i for i, e in enumerate(ev) if e[0] == 'c' and SET in e[1].names()]
        i_han = [i for i, e in enumerate(ev) if e[0] == 'c' and e[1].callee == HANDLE]
        i_fet = [i for i, e in enumerate(ev) if e[0] == 'c' and FETCH in e[1].names()]
        if i_han:
            n_handle += 1
            ctx.check(len(i_set) == 1 and i_set[0] < i_han[0], 'one-clock-write-per-dispatch',
                      'exactly one clock write precedes the handler on every dispatching path', it.where(), len(i_set))
        for i in i_set:
            n_set += 1
            site = ev[i][1]
            pos = max(k for k, b in enumerate(it.path) if b == site.b)
            t = peel(f.expr_operand_on_path(site.args[0], it.path, pos, 'T'))
            fb = ev[i_fet[-1]][1].b if i_fet and i_fet[-1] < i else None
            fc = frame_component(f.program, t)
            ok = fc is not None and fc[0] == 'time' and fc[1][0] == 'call' and fc[1][1] == FETCH and fc[1][3] == fb
            ctx.check(ok, 'set_now-operand', "the clock is set to the time component of this iteration's fetch_next result", site.where(), show(t)[:200])
            before = [e[1] for e in ev[:i] if e[0] == 'atom']
            off = any(a and a[0] == 'bool' and a[1][0] == 'call' and a[1][1] == 'des::runtime::limit::RuntimeLimit::applies' and a[2] is False for a in before)
            ctx.check(off, 'set_now-off-limit-path', 'the clock is written only when the limit does not apply to the fetched event', site.where(),
                      [show_atom(a) for a in before if a][:6])
            for j in i_han:
                h = ev[j][1]
                ctx.check(j > i, 'set_now-before-handle', 'the clock write precedes the Event::handle call', h.where())
                posh = max(k for k, b in enumerate(it.path) if b == h.b)
                evt = peel(f.expr_operand_on_path(h.args[0], it.path, posh, 'T'))
                fe = frame_component(f.program, evt)
                ok2 = ok and fe is not None and fe[0] == 'event' and fe[1][0] == 'call' and fe[1][1] == FETCH and fe[1][3] == fb
                ctx.check(ok2, 'handle-same-frame', 'the event handled is the one fetched together with the time the clock was set to', h.where(), show(evt)[:200])
    ctx.floor('clock writes in the dispatch step', n_set, 1)
    ctx.floor('dispatching paths', n_handle, 1)


def r3_start_time(ctx, cfg='A'):
    ctx.set_rule('C02.R3', cfg)
    P = ctx.progs[cfg]
    f = P.fns.get('des::runtime::builder::Builder::build')
    if f is None:
        ctx.violation('anchor:Builder::build', 'unresolved-anchor Builder::build'); return
    ctx.touch(f)
    sites = f.calls_to(SET)
    if not ctx.floor('set_now in Builder::build', len(sites), 1):
        return
    for s in sites:
        t = peel(f.expr_operand(s.args[0], s.b, 'T'))
        ok = t[0] == 'field' and t[2] == 'start_time' and peel(t[1])[0] == 'arg'
        ctx.check(ok, 'start-time-operand', 'Builder::build sets the clock to the configured start time', s.where(), show(t))
        # on every returning path
        ctx.check(all(f.dominates(s.b, r) for r in f.return_blocks()), 'start-time-all-paths', 'the start-time write is on every returning path of Builder::build', s.where())
        # ... and only while holding the process-wide simulation lock (another runtime may be inside a handler on another thread)
        locks = [c for c in f.calls() if c.name.split('::')[-1] in ('try_lock', 'lock') and
                 any(x == ('static', 'des::runtime::builder::SIMULATION_LOCK') for x in walk(f.expr_operand(c.args[0], c.b, 'T')))]
        ctx.check(bool(locks) and any(f.dominates(c.b, s.b) and c.b != s.b for c in locks), 'clock-reset-under-lock',
                  'Builder::build resets the clock only after acquiring the simulation lock (otherwise a runtime running on another thread sees its clock jump inside a handler)', s.where())


def _field_init_from_start(P, ctor_key, field):
    """is `field` of the struct built in ctor initialised from `<arg>.start_time`?"""
    g = P.fns.get(ctor_key)
    if g is None:
        return False, 'constructor %s not found' % ctor_key
    for b, t in ret_trees(g):
        t = peel(t)
        if t[0] == 'agg' and field in t[3]:
            v = peel(t[2][t[3].index(field)])
            return (v[0] == 'field' and v[2] == 'start_time'), show(v)
    return False, 'no aggregate'


def r4_start_aware_rejection(ctx, cfg='A'):
    ctx.set_rule('C02.R4', cfg)
    P = ctx.progs[cfg]
    ADD = fes(cfg) + '::add'
    sites = P.call_sites_of(ADD)
    if not ctx.floor('call sites of FutureEventSet::add', len(sites), 2):
        return
    # back-end level guard: add panics for time < F, F initialised from start_time in new_with and set at every fetch
    backend_ok = False
    why = ''
    fa = P.fns.get(ADD)
    if fa is not None:
        ctx.touch(fa)
        for path, outcome, decs in fn_paths(ctx, fa):
            if outcome != 'panic':
                continue
            for _, a in path_atoms(fa, path, decs):
                if a[0] == 'cmp' and a[1] == 'lt' and a[2] == ('arg', 'time') and a[3][0] == 'field' and a[3][1] == ('arg', 'self'):
                    fld = a[3][2]
                    ini, d = _field_init_from_start(P, fes(cfg) + '::new_with', fld)
                    ff = P.fns.get(fes(cfg) + '::fetch_next')
                    upd = bool(ff and ff.writes_to_field(fld))
                    why = 'guard field %s: init from start_time=%s (%s), updated in fetch_next=%s' % (fld, ini, d, upd)
                    if ini and upd:
                        backend_ok = True
    for s in sites:
        f = s.fn
        ctx.touch(f)
        t = peel(f.expr_operand(s.args[1], s.b, 'T'))
        # exempt: re-insertion of the frame that was just fetched (time comes out of the event set itself)
        from .dispatch import frame_component
        fc_ = frame_component(P, t)
        if (t[0] == 'field' and peel(t[1])[0] == 'call' and peel(t[1])[1] == fes(cfg) + '::fetch_next') or \
                (fc_ is not None and fc_[0] == 'time' and fc_[1][0] == 'call' and fc_[1][1] == fes(cfg) + '::fetch_next'):
            ctx.ok('put-back of a fetched frame (time originates in the event set)', s.where(), show(t))
            continue
        # route-level guard: dominated by `time >= now()` where now() reads the clock
        atoms = [a for _, a in f.guard_atoms(s.b)]
        tc = canon(t)
        def reads_clock(x):
            for y in walk(x):
                if y[0] == 'call' and y[1] in (NOW, RT + '::sim_time'):
                    return True
            return False
        route_ok = any(a[0] == 'cmp' and ((a[1] == 'ge' and a[2] == tc and reads_clock(a[3])) or (a[1] == 'le' and a[3] == tc and reads_clock(a[2])))
                       for a in atoms)
        ctx.check(route_ok or backend_ok, 'unguarded-route:%s' % f.key,
                  'events reach the event set only through a `time >= L` guard whose L starts at Builder::start_time and follows the dispatched events '
                  '(an event before the start time would be accepted and rewind the clock)',
                  s.where(), {'route_guard': route_ok, 'backend_guard': backend_ok, 'backend': why, 'time': show(t), 'guards': [show_atom(a) for a in atoms]})
    # sim_time() is the clock
    g = P.fns.get(RT + '::sim_time')
    if g is not None:
        ok = any(s.name == NOW for s in g.calls())
        ctx.check(ok, 'sim_time-is-clock', 'Runtime::sim_time reads the simulation clock', g.where())


INT_BITS = {'u8': 8, 'u16': 16, 'u32': 32, 'u64': 64, 'u128': 128, 'usize': 64, 'i8': 8, 'i16': 16, 'i32': 32, 'i64': 64, 'i128': 128, 'isize': 64}


def r5_clock_roundtrip(ctx, cfg='A'):
    """the clock's writer and reader agree: what set_now stores is what now() reads back, without a lossy conversion"""
    ctx.set_rule('C02.R5', cfg)
    P = ctx.progs[cfg]
    fs, fn = P.fns.get(SET), P.fns.get(NOW)
    if not (fs and fn):
        ctx.violation('anchor:clock-accessors', 'unresolved-anchor: SimTime::set_now / SimTime::now'); return
    ctx.touch(fs, fn)
    stores = [s for s in fs.calls() if s.name.split('::')[-1] == 'store' and any(x == ('static', CLOCK) for x in walk(fs.expr_operand(s.args[0], s.b, 'T')))]
    loads = [s for s in fn.calls() if s.name.split('::')[-1] == 'load' and any(x == ('static', CLOCK) for x in walk(fn.expr_operand(s.args[0], s.b, 'T')))]
    if not (ctx.floor('clock stores in set_now', len(stores), 1) and ctx.floor('clock loads in now', len(loads), 1)):
        return
    # no narrowing integer cast on a stored value
    for s in stores:
        v = fs.expr_operand(s.args[1], s.b, 'T')
        lossy = []
        for x in walk(v):
            if x[0] == 'cast' and x[1] == 'IntToInt':
                fr, to = INT_BITS.get(x[4]), INT_BITS.get(x[3])
                if fr and to and to < fr:
                    lossy.append('%s -> %s' % (x[4], x[3]))
        ctx.check(not lossy, 'clock-store-lossless', 'the value stored into the clock is not narrowed by an integer cast (a wrapped clock would differ from the event timestamp and run backwards)', s.where(), lossy or show(v)[:120])
    # cell roles agree: the component stored in cell i is the component now() feeds back into the matching constructor argument
    def cell(tree):
        for x in walk(tree):
            if x[0] == 'field' and x[1] == ('static', CLOCK) or (x[0] == 'field' and any(y == ('static', CLOCK) for y in walk(x[1])) and x[2].isdigit()):
                return x[2]
        return 'whole'
    wrote = {}
    for s in stores:
        v = peel(fs.expr_operand(s.args[1], s.b, 'T'))
        comp = v[1].split('::')[-1] if v[0] == 'call' else show(v)[:40]
        wrote[cell(fs.expr_operand(s.args[0], s.b, 'T'))] = comp
    ok = False
    detail = {'stored': wrote}
    for b, t in ret_trees(fn):
        ctor = [x for x in walk(t) if x[0] == 'call' and x[1].startswith('std::time::Duration::')]
        if ctor:
            c = ctor[0]
            args = [cell(a) if any(y[0] == 'call' and y[1].split('::')[-1] == 'load' for y in walk(a)) else None for a in c[2]]
            detail['reader'] = {'ctor': c[1].split('::')[-1], 'cells': args}
            name = c[1].split('::')[-1]
            if name == 'new' and len(args) == 2 and None not in args:
                ok = wrote.get(args[0]) == 'as_secs' and wrote.get(args[1]) == 'subsec_nanos'
            elif name in ('from_nanos', 'from_nanos_u128') and len(args) == 1 and args[0] is not None:
                ok = wrote.get(args[0]) == 'as_nanos' and name == 'from_nanos_u128'
            elif name == 'from_secs' and len(args) == 1:
                ok = False
    ctx.check(ok, 'clock-roundtrip', "SimTime::now() rebuilds exactly the duration SimTime::set_now() stored (seconds and sub-second nanoseconds in matching cells)", fn.where(), detail)


def r6_bound_is_last_emitted(ctx):
    """calendar queue: the field the insertion guard compares against is the one fetch_next sets to the emitted event's time"""
    ctx.set_rule('C02.R6', 'A')
    P = ctx.progs['A']
    Q = 'des_cqueue::stable::CQueue'
    L = 'des_cqueue::stable::linked_list::DualLinkedList'
    fa, ff = P.fns.get(Q + '::add'), P.fns.get(Q + '::fetch_next')
    if not (fa and ff):
        ctx.violation('anchor:CQueue', 'unresolved-anchor CQueue::add / fetch_next'); return
    ctx.touch(fa, ff)
    guard = set()
    for path, outcome, decs in fn_paths(ctx, fa):
        if outcome != 'panic':
            continue
        for _, a in path_atoms(fa, path, decs):
            if a[0] == 'cmp' and ('arg', 'time') in (a[2], a[3]):
                o = a[3] if a[2] == ('arg', 'time') else a[2]
                if o[0] == 'field' and o[1] == ('arg', 'self'):
                    guard.add(o[2])
    if not ctx.floor('guard field of CQueue::add', len(guard), 1):
        return
    emitted = set()
    for (b, i, st) in [(b, i, st) for b in sorted(ff.reachable()) for i, st in enumerate(ff.stmts(b)) if st['k'] == 'assign']:
        fl = [e for e in st['p']['pr'] if e['k'] == 'field']
        if fl and not any(e['k'] == 'index' for e in st['p']['pr']):
            t = peel(ff.expr_rvalue(st['r'], b, i))
            alts = [peel(x) for x in t[1]] if t[0] == 'phi' else [t]
            from .C01 import _node_time
            if all(_node_time(x) is not None for x in alts):
                emitted.add(fl[-1].get('n'))
    ctx.floor('fields fetch_next sets to the emitted timestamp', len(emitted), 1)
    ctx.check(guard <= emitted, 'guard-is-emitted-time',
              'CQueue::add rejects `time < B` where B is the field fetch_next sets to the timestamp of the event it emits (not the coarser bucket-window start): an insertion behind the last emitted event is refused instead of rewinding the clock',
              fa.where(), {'guard_fields': sorted(guard), 'emitted_time_fields': sorted(emitted)})


def r7_relative_scheduling(ctx, cfg='A', rule='C02.R7'):
    """add_event_in(e, d) files e under exactly clock + d: the handler then sees now() == the timestamp the caller asked for"""
    ctx.set_rule(rule, cfg)
    P = ctx.progs[cfg]
    f = P.fns.get('des::runtime::Runtime::add_event_in')
    if f is None:
        ctx.violation('anchor:add_event_in', 'unresolved-anchor Runtime::add_event_in'); return
    ctx.touch(f)
    adds = [s for s in f.calls() if s.name == 'des::runtime::Runtime::add_event' or s.name.endswith('FutureEventSet::add')]
    if not ctx.floor('scheduling call in add_event_in', len(adds), 1):
        return
    for s in adds:
        tm = [peel(f.expr_operand(a, s.b, 'T')) for a in s.args]
        tm = [t for t in tm if t[0] == 'call' and t[1].endswith('::add') and len(t[2]) == 2]
        ok = False
        for t in tm:
            base, d = peel(t[2][0]), peel(t[2][1])
            is_clock = base[0] == 'call' and base[1] in ('des::runtime::Runtime::sim_time', 'des::time::SimTime::now') and not any(x[0] == 'call' and x[1].split('::')[-1] in ('max', 'min') for x in walk(base))
            is_dur = d[0] == 'arg' or (d[0] == 'call' and d[2] and peel(d[2][0])[0] == 'arg')
            ok = ok or (is_clock and is_dur)
        ctx.check(ok, 'relative-base-is-clock', 'add_event_in schedules at the current simulation clock + the given duration (no other base time)', s.where(),
                  [show(t)[:160] for t in tm])

    # absolute scheduling: the instant given to add_event is handed down unchanged (no clamping / rounding on the way into the event set)
    def is_time_arg(fn, x):
        x = peel(x)
        while x[0] == 'call' and x[1].endswith('Deref>::deref') and len(x[2]) == 1:     # SimTime derefs to its Duration
            x = peel(x[2][0])
        return x[0] == 'arg' and 'SimTime' in fn.local_ty(x[1])
    g = P.fns.get('des::runtime::Runtime::add_event')
    if g is None:
        ctx.violation('anchor:add_event', 'unresolved-anchor Runtime::add_event'); return
    ctx.touch(g)
    sites = [s for s in g.calls() if s.name.endswith('FutureEventSet::add')]
    if ctx.floor('event-set insertion in add_event', len(sites), 1):
        ctx.check(all(len(s.args) > 1 and is_time_arg(g, g.expr_operand(s.args[1], s.b, 'T')) for s in sites), 'absolute-time-passed-through',
                  'add_event files the event under exactly the instant it was given', sites[0].where(),
                  [show(g.expr_operand(s.args[1], s.b, 'T'))[:120] for s in sites if len(s.args) > 1])
    fes = [h for k, h in P.fns.items() if k.endswith('FutureEventSet::add') and k.startswith('des::runtime::event::')]
    if ctx.floor('FutureEventSet::add', len(fes), 1):
        for h in fes:
            ctx.touch(h)
            n = 0
            bad = []
            for s in h.calls():
                if s.name == 'des_cqueue::stable::CQueue::add' and len(s.args) > 1:
                    n += 1
                    if not is_time_arg(h, h.expr_operand(s.args[1], s.b, 'T')):
                        bad.append(show(h.expr_operand(s.args[1], s.b, 'T'))[:120])
                elif s.name.split('::')[-1] in ('push', 'push_back', 'push_front', 'insert') and len(s.args) > 1:
                    v = peel(h.expr_operand(s.args[-1], s.b, 'T'))
                    if v[0] == 'agg' and len(v) > 3 and 'time' in v[3]:
                        n += 1
                        tv = v[2][list(v[3]).index('time')]
                        if not is_time_arg(h, tv):
                            bad.append(show(tv)[:120])
            if ctx.floor('insertions in FutureEventSet::add', n, 1):
                ctx.check(not bad, 'event-set-time-passed-through', 'the event set stores an event under exactly the instant it was given', h.where(), bad)
    # ... and hands it out with exactly the instant it was stored under: between the container's value and the returned pair there is
    # no coarser read-out, no numeric cast and no arithmetic (Duration -> f64 -> SimTime loses nanoseconds at large times)
    from .C01 import LOSSY_TIME
    fts = [h for k, h in P.fns.items() if k.endswith('FutureEventSet::fetch_next') and k.startswith('des::runtime::event::')]
    if ctx.floor('FutureEventSet::fetch_next', len(fts), 1):
        for h in fts:
            ctx.touch(h)
            bad = []
            for b, t in ret_trees(h):
                for x in walk(t):
                    if (x[0] == 'call' and str(x[1]).split('::')[-1] in LOSSY_TIME) or (x[0] == 'cast' and str(x[1]) in ('IntToInt', 'FloatToInt', 'IntToFloat', 'FloatToFloat')) \
                            or (x[0] == 'call' and str(x[1]).split('::')[-1] in ('from_secs_f64', 'from_secs_f32', 'from_millis', 'from_micros', 'from_secs')):
                        bad.append(show(x)[:120])
            ctx.check(not bad, 'event-set-time-handed-out', 'the event set hands an event out with exactly the instant it was stored under', h.where(), bad[:3])


def r11_exact_instant_arithmetic(ctx):
    """`now + delay` is exact: the operator impls that add a `Duration` to a `SimTime` (`Add<Duration>`, `AddAssign<Duration>`, what
    `Runtime::add_event_in` and every `schedule_in` go through) and `SimTime::checked_add` stay in integer nanoseconds — no read-out
    coarser than the stored value, no float conversion, no detour through the `f64` sibling impl.  An f64 has 53 bits: beyond ~104 days
    a rounded sum lies a few ns before or after the exact instant, so an event lands before `now` (add_event panics) or the clock shows
    a time the event was not scheduled for."""
    ctx.set_rule('C02.R11')
    P = ctx.P
    from .C01 import LOSSY_TIME
    FLOATY = set(LOSSY_TIME) | {'from_secs_f64', 'from_secs_f32', 'try_from_secs_f64', 'try_from_secs_f32'}
    exact = [f for f in P.fn_list if f.kind != 'promoted' and 'for des::time::SimTime>' in f.path and '<std::time::Duration>' in f.path
             and any(t in f.path for t in ('ops::Add<', 'ops::AddAssign<'))]
    if not ctx.floor('impls adding a Duration to a SimTime', len(exact), 2):
        return
    for k in ('des::time::SimTime::checked_add',):
        if k in P.fns:
            exact.append(P.fns[k])
    for f in exact:
        ctx.touch(f)
        bad = []
        for s_ in f.calls():
            last = s_.name.split('::')[-1]
            if last in FLOATY:
                bad.append(s_.name)
            elif any(t in ('f64', 'f32') for t in (s_.targs or [])) or any(t in ('f64', 'f32') for t in (s_.argtys or [])):
                bad.append('%s with a float operand' % s_.name)
        for b in sorted(f.reachable()):
            for st in f.stmts(b):
                if st['k'] == 'assign' and st['r'].get('k') == 'cast' and str(st['r'].get('ck', st['r'].get('kind', ''))) in ('IntToFloat', 'FloatToInt', 'FloatToFloat'):
                    bad.append('float cast')
        ctx.check(not bad, 'exact-instant-arithmetic:%s' % f.path.split('impl ')[-1].split(' for ')[0].replace('std::ops::', '').replace('std::time::', ''),
                  'adding a Duration to a SimTime stays in integer nanoseconds (no float conversion or coarser read-out: a rounded `now + delay` '
                  'lies before now or beside the scheduled instant at large times)', f.where(), bad[:3])


def run(ctx):
    r11_exact_instant_arithmetic(ctx)
    # (R8) events are handled in timestamp order only if the calendar's index grid and scan window agree: both in full resolution
    # (shared with C01.R8)
    from .C01 import r8_time_grid
    r8_time_grid(ctx, rule='C02.R8')
    from .C01 import r2_bucket_index
    r2_bucket_index(ctx, rule='C02.R8')     # ... and the bucket of a timestamp is the same function of it wherever it is computed (C01.R2)
    # (R9) ... and only if the scan window is stepped, never repositioned, and the bound follows the popped event (shared with C01.R5)
    from .C01 import r5_fetch_skeleton
    r5_fetch_skeleton(ctx, rule='C02.R9')
    # (R10) an event goes to the same-instant FIFO iff its time equals the lower bound, whatever else is stored (shared with C03.R2)
    from .C03 import r2_zero_container
    for cfg in [c for c in ('A', 'B') if c in ctx.progs]:
        r2_zero_container(ctx, cfg, rule='C02.R10')
    ctx.cfg = 'A'
    r6_bound_is_last_emitted(ctx)
    for cfg in [c for c in ('A', 'B') if c in ctx.progs]:
        r7_relative_scheduling(ctx, cfg)
    for cfg in [c for c in ('A', 'B') if c in ctx.progs]:
        r1_single_writer(ctx, cfg)
        r2_dispatch_order(ctx, cfg)
        r3_start_time(ctx, cfg)
        r4_start_aware_rejection(ctx, cfg)
        r5_clock_roundtrip(ctx, cfg)
    ctx.cfg = 'A'


def thorough(ctx):
    from .engine.witness import check_witnesses
    res = check_witnesses(ctx, 'C02.R1', ('W2',), ('W2SetNow','W2SetNowTwin'))
    return {'witnesses': res}

"""C11 — limits stop exactly where specified (structural clauses, DESIGN §4 C11)."""
import itertools
from .engine.helpers import *

EXPLANATION = (
    "Static analysis of des::runtime::limit and the dispatch loop: (R1) the truth table of RuntimeLimit::applies per variant "
    "(None: never; EventCount(n): count > n; SimTime(T): time > T; And/Or: the boolean combination of both operands evaluated on "
    "the same arguments); (R2) dispatch_event evaluates the limit with ordinal itr+1 and the fetched time, before the counter "
    "increment, the clock write and the handler; (R3) every successful return of finish has observed the event set empty (all "
    "remaining frames are fetched and pushed), and reports the clock as end time; (R4) Builder::{max_itr,max_time,limit} compose "
    "through RuntimeLimit::add, which yields CombinedOr(old,new) unless old is None; (R5) the stepping wrappers restore the configured limit on every returning path. "
    '(R2 also: a dispatched event is counted before its handler runs, so that a handler driving the runtime itself finds it counted.) '
    "Decides these necessary conditions only; "
    "prefix-exactness over programs additionally needs C01/C10.")
ASSUMPTIONS = ["&& and || short-circuit as in Rust; usize/SimTime comparisons are total orders"]
USES_B = True

LIM = 'des::runtime::limit::RuntimeLimit'
RT = 'des::runtime::Runtime'


def r1_truth_tables(ctx):
    ctx.set_rule('C11.R1')
    f = ctx.anchor(LIM + '::applies')
    if not f:
        return
    f, packed = _delegate_target(ctx.P, f)
    NEG = packed == 'negated'     # f computes the negation of `applies`; its recursive calls were normalised to `!applies(..)`
    if NEG:
        packed = None
    ctx.touch(f)
    REC = {LIM + '::applies', f.key}
    SELF = ('arg', f.local_name(1))
    paths = [(p, d) for p, o, d in fn_paths(ctx, f) if o == 'return']
    by_variant = {}
    adt = ctx.P.adts.get(LIM) or {}
    all_vars = [v['n'] for v in adt.get('variants', [])]
    if packed is None:
        A_COUNT, A_TIME = ('arg', f.local_name(2)), ('arg', f.local_name(3))
        same_args = lambda args: len(args) == 3 and canon(args[1]) == A_COUNT and canon(args[2]) == A_TIME
    else:
        # the ordinal and the timestamp travel together in a private record: `rejects(&self, next: Candidate { nth, at })`
        A_COUNT, A_TIME = ('field', ('arg', f.local_name(2)), packed[0]), ('field', ('arg', f.local_name(2)), packed[1])
        same_args = lambda args: len(args) == 2 and canon(args[1]) == ('arg', f.local_name(2))
    for p, d in paths:
        atoms = [a for _, a in path_atoms(f, p, d)]
        possible = set(all_vars)
        for a in atoms:
            if a[1] == SELF:
                if a[0] == 'is':
                    possible &= {a[2]}
                elif a[0] == 'isnot':
                    possible -= set(a[2])
        for var in sorted(possible):
            by_variant.setdefault(var, []).append((p, d, atoms))
    ctx.floor('variants handled by RuntimeLimit::applies', len([v for v in by_variant if v]), 5)
    # None
    for p, d, atoms in by_variant.get('None', []):
        rv, ng = _ret_value(f, p)
        ctx.check(rv[0] == 'int' and (bool(rv[1]) != ng) == NEG, 'table-None', 'RuntimeLimit::None never applies', f.where_path(p))
    # EventCount / SimTime
    for var, argtree in (('EventCount', A_COUNT), ('SimTime', A_TIME)):
        argname = show_c(argtree) if 'show_c' in globals() else str(argtree)
        for p, d, atoms in by_variant.get(var, []):
            r, ng = _ret_value(f, p)
            a = atom_of(r, ('eq', 0 if (NEG != ng) else 1))
            ok = a is not None and a[0] == 'cmp'
            if ok:
                op, l, rr = a[1], a[2], a[3]
                if rr == argtree:
                    l, rr, op = rr, l, SWAP[op]
                ok = l == argtree and op == 'gt' and rr[0] == 'field' and rr[1][0] == 'as' and rr[1][2] == var
            ctx.orderings += 3
            ctx.check(ok, 'table-%s' % var, 'RuntimeLimit::%s(x) applies iff %s > x (strictly): exactly the admitted prefix is dispatched' % (var, argname),
                      f.where_path(p), show_atom(a) if a else show(r))
        ctx.floor('paths for %s' % var, len(by_variant.get(var, [])), 1)
    # combinators: evaluate over all (L, R)
    for var, comb in (('CombinedAnd', lambda l, r: l and r), ('CombinedOr', lambda l, r: l or r)):
        ps = by_variant.get(var, [])
        if len(ps) == 1:
            # iterator form: `[lhs, rhs].into_iter().all(|l| l.applies(count, time))` (any for Or) — left to right, short-circuiting
            r = peel(path_ret_resolved(f, ps[0][0]))
            want = 'all' if 'And' in var else 'any'
            okf = False
            det = show(r)[:200]
            if r[0] == 'call' and r[1].endswith('Iterator::' + want) and len(r[2]) == 2:
                arr = [x for x in walk(r[2][0]) if x[0] == 'agg' and x[1] == 'array' and len(x[2]) == 2]
                cl = peel(r[2][1])
                g = ctx.P.fns.get(cl[1][len('closure:'):]) if cl[0] == 'agg' and str(cl[1]).startswith('closure:') else None
                if arr and g:
                    ops = [_operand_index(canon(x), var) for x in arr[0][2]]
                    body = [peel(subst_captures(t, cl[2])) for _, t in ret_trees(g)]
                    body_ok = bool(body) and all(t[0] == 'call' and t[1] in REC and any(y[0] == 'arg' and y[1] == 2 for y in walk(t[2][0])) and
                                                 same_args(t[2]) for t in body)
                    okf = ops == [0, 1] and body_ok
            ctx.orderings += 4
            ctx.check(okf, 'table-%s' % var,
                      'RuntimeLimit::%s(l, r) applies iff l.applies(count,time) %s r.applies(count,time), both evaluated on the same arguments' % (var, '&&' if 'And' in var else '||'),
                      f.where(), {'form': 'Iterator::%s over [l, r]' % want, 'tree': det})
            continue
        if not ctx.floor('paths for %s' % var, len(ps), 2):
            continue
        bad = []
        operands_ok = True
        for L, R in itertools.product((False, True), repeat=2):
            ctx.orderings += 1
            results = set()
            for p, d, atoms in ps:
                # atoms about recursive applies calls, keyed by which operand (field 0 / field 1 of the variant)
                env = {}
                consistent = True
                for a in atoms:
                    a = _as_bool_atom(a, REC)
                    if a[0] == 'bool' and a[1][0] == 'call' and a[1][1] in REC:
                        which = _operand_index(a[1][2][0], var)
                        args_ok = same_args(a[1][2])
                        if which is None or not args_ok:
                            operands_ok = False
                        val = L if which == 0 else R
                        if a[2] != val:
                            consistent = False
                if not consistent:
                    continue
                r, neg_r = _ret_value(f, p)
                if r[0] == 'int':
                    results.add(bool(r[1]) != neg_r)
                elif r[0] == 'call' and r[1] in REC and neg_r:
                    which = _operand_index(canon(r[2][0]), var)
                    if which is None or not same_args(r[2]):
                        operands_ok = False
                    results.add(not (L if which == 0 else R))
                elif r[0] == 'call' and r[1] in REC:
                    which = _operand_index(canon(r[2][0]), var)
                    if which is None or not same_args(r[2]):
                        operands_ok = False
                    results.add(L if which == 0 else R)
                else:
                    results.add(None)
            if NEG:
                results = {(None if x is None else (not x)) for x in results}
            if results != {comb(L, R)}:
                bad.append(((L, R), sorted(map(str, results))))
        ctx.check(not bad and operands_ok, 'table-%s' % var,
                  'RuntimeLimit::%s(l, r) applies iff l.applies(count,time) %s r.applies(count,time), both evaluated on the same arguments' % (var, '&&' if 'And' in var else '||'),
                  f.where(), {'mismatches': bad, 'operands_distinct_and_args_unchanged': operands_ok})


def _delegate_target(P, f):
    """`applies` may be a thin wrapper around a (new, recursive) free function taking the same arguments: analyse that one"""
    local = [s for s in f.calls() if s.name in P.fns and P.fns[s.name].kind not in ('closure', 'promoted')]
    if len(local) == 1 and len(f.blocks) <= 4 and local[0].name not in getattr(P, 'baseline', {}):
        s = local[0]
        g = P.fns[s.name]
        args = [peel(f.expr_operand(a, s.b, 'T')) for a in s.args]
        rts = [peel(t) for _, t in ret_trees(f)]
        if rts and all(t[0] == 'un' and t[1] == 'Not' and peel(t[2])[0] == 'call' and peel(t[2])[1] == g.key for t in rts) \
                and g.argc == f.argc and all(a[0] == 'arg' and a[1] == i + 1 for i, a in enumerate(args)):
            return g, 'negated'    # applies(..) = !g(..): g computes the dual ("admits")
        if not (rts and all(t[0] == 'call' and t[1] == g.key for t in rts)):
            return f, None
        if g.argc == f.argc and all(a[0] == 'arg' and a[1] == i + 1 for i, a in enumerate(args)):
            return g, None
        if f.argc == 3 and g.argc == 2 and args[0][0] == 'arg' and args[0][1] == 1 and args[1][0] == 'agg' and len(args[1]) > 3 and len(args[1][2]) == 2:
            # (self, Record { a: count, b: time }) — which field carries which
            comp = [peel(x) for x in args[1][2]]
            names = list(args[1][3])
            if all(c[0] == 'arg' for c in comp) and sorted(c[1] for c in comp) == [2, 3] and len(names) == 2:
                cnt = names[[c[1] for c in comp].index(2)]
                tm = names[[c[1] for c in comp].index(3)]
                return g, (cnt, tm)
    return f, None


def _as_bool_atom(a, rec):
    """`x == true` / `x != false` ... with x a recursive call result are boolean facts about x"""
    if a and a[0] == 'cmp' and a[1] in ('eq', 'ne'):
        l, r = a[2], a[3]
        if r[0] == 'call' and l[0] == 'int':
            l, r = r, l
        if l[0] == 'call' and l[1] in rec and r[0] == 'int' and r[1] in (0, 1):
            return ('bool', l, (r[1] == 1) == (a[1] == 'eq'))
    return a


def _ret_on_path(f, path):
    """value returned on this path with merged locals resolved along the path"""
    last = None
    for idx, b in enumerate(path):
        for i, st in enumerate(f.stmts(b)):
            if st['k'] == 'assign' and st['p']['l'] == 0 and not st['p']['pr']:
                if st['r']['k'] == 'use':
                    last = f.expr_operand_on_path(st['r']['o'], path, idx, i)
                elif st['r']['k'] == 'unop' and st['r']['op'] == 'Not':
                    last = ('un', 'Not', f.expr_operand_on_path(st['r']['a'], path, idx, i))
                else:
                    last = f.expr_rvalue(st['r'], b, i)
    return last if last is not None else ('unknown',)


def _ret_value(f, path):
    """(tree, negated): the value returned on this path, resolved along the path, with leading `!` stripped and counted"""
    r = peel(path_ret(f, path)) if path_ret(f, path) is not None else ('unknown',)
    top = r
    while top[0] == 'un' and top[1] == 'Not':
        top = peel(top[2])
    if top[0] == 'phi':
        r = peel(_ret_on_path(f, path))
    neg = False
    while r[0] == 'un' and r[1] == 'Not':
        r = peel(r[2]); neg = not neg
    return r, neg


def _operand_index(recv, var):
    """which boxed operand of the combinator a recursive call's receiver is (0 / 1)"""
    for x in walk(recv):
        if x[0] == 'field' and x[1][0] == 'as' and x[1][2] == var and x[2] in ('0', '1'):
            return int(x[2])
    return None


def r2_ordinal(ctx, cfg='A'):
    ctx.set_rule('C11.R2', cfg)
    from .dispatch import dispatch_iterations, counter_field, HANDLE
    f, its, form = dispatch_iterations(ctx, cfg)
    if not f:
        ctx.violation('anchor:dispatch_event', 'unresolved-anchor'); return
    ctx.touch(f)
    CNT = counter_field(ctx, cfg)
    ap = f.calls_to(LIM + '::applies')
    if not ctx.floor('limit evaluation in dispatch_event', len(ap), 1):
        return
    s = ap[0]
    recv = peel(f.expr_operand(s.args[0], s.b, 'T'))
    cnt = peel(f.expr_operand(s.args[1], s.b, 'T'))
    tm = peel(f.expr_operand(s.args[2], s.b, 'T'))
    c = cnt[1] if (cnt[0] == 'field' and cnt[1][0] == 'bin') else cnt
    ok_cnt = c[0] == 'bin' and c[1].startswith('Add') and peel(c[2])[0] == 'field' and CNT is not None and peel(c[2])[2] == CNT and c[3] == ('int', 1)
    from .dispatch import frame_component
    fc = frame_component(f.program, tm)
    ok_tm = fc is not None and fc[0] == 'time' and fc[1][0] == 'call' and fc[1][1].endswith('FutureEventSet::fetch_next')
    from .dispatch import limit_fields
    LBASE, LOVR = limit_fields(ctx, cfg)
    ok_recv = LBASE == 'limit' or (recv[0] == 'field' and recv[2] == 'limit')
    ctx.check(ok_cnt and ok_tm and ok_recv, 'ordinal-and-time',
              "the limit is asked about the event's ordinal (events dispatched so far + 1) and its own timestamp", s.where(),
              {'limit': show(recv), 'ordinal': show(cnt), 'time': show(tm)})
    # before increment, clock, handler — on every path of a dispatch step
    n_eff = 0
    for it in its:
        ev = it.stream()
        for i, e in enumerate(ev):
            what = None
            if e[0] == 'w' and e[2] == CNT:
                what = 'counter increment'
            elif e[0] == 'c' and 'des::time::SimTime::set_now' in e[1].names():
                what = 'clock write'
            elif e[0] == 'c' and e[1].callee == HANDLE:
                what = 'handler'
            if not what:
                continue
            n_eff += 1
            before = [x[1] for x in ev[:i] if x[0] == 'atom']
            off = any(a and a[0] == 'bool' and a[1][0] == 'call' and a[1][1] == LIM + '::applies' and a[2] is False for a in before)
            ctx.check(off, 'check-before-%s' % what.split()[0], 'the %s happens only after the limit was evaluated and did not apply' % what, it.where())
    ctx.floor('effects after the limit check', n_eff, 3)
    # the event is counted before its handler runs: a handler that drives the runtime itself (`rt.dispatch_all()` as a flush) must find
    # its own event counted, otherwise the nested loop dispatches one event more than the limit allows
    n_h = 0
    for it in its:
        ev = it.stream()
        hs = [i for i, e in enumerate(ev) if e[0] == 'c' and e[1].callee == HANDLE]
        if not hs:
            continue
        n_h += 1
        counted = any(e[0] == 'w' and e[2] == CNT for e in ev[:hs[0]])
        ctx.check(counted, 'counted-before-handler', 'a dispatched event is counted before its handler runs', it.where())
    ctx.floor('dispatch steps that run a handler', n_h, 1)


def _none_iff_empty(ctx, P, cfg):
    """FutureEventSet::fetch_next returning Option: None on exactly the paths that observed the set empty"""
    ff = P.fns.get(_fes(cfg) + '::fetch_next')
    if ff is None:
        return False
    n_none = 0
    for path, outcome, decs in fn_paths(ctx, ff):
        if outcome != 'return':
            continue
        r = path_ret_resolved(ff, path)
        r = peel(r) if r is not None else ('unknown',)
        if r[0] != 'agg' or not str(r[1]).startswith('adt:std::option::Option::'):
            return False
        empt = [a for _, a in path_atoms(ff, path, decs) if a[0] == 'bool' and a[1][0] == 'call' and str(a[1][1]).endswith('::is_empty')]
        saw_empty = any(a[2] is True for a in empt)
        if str(r[1]).endswith('::None'):
            n_none += 1
            if not saw_empty:
                return False
        elif saw_empty:
            return False
    return n_none >= 1


def r3_finish(ctx, cfg='A'):
    ctx.set_rule('C11.R3', cfg)
    P = ctx.progs[cfg]
    f = P.fns.get(RT + '::finish')
    if not f:
        ctx.violation('anchor:finish', 'unresolved-anchor'); return
    ctx.touch(f)
    n = 0
    # equivalent drain form: remaining.extend(iter::from_fn(|| if set.is_empty() { None } else { Some(set.fetch_next()) }))
    drains = []
    for s in f.calls():
        if (s.callee or '') != 'std::iter::Extend::extend' or len(s.args) != 2:
            continue
        src = peel(f.expr_operand(s.args[1], s.b, 'T'))
        g = None
        if src[0] == 'call' and src[1].endswith('iter::from_fn') and src[2]:
            cl = peel(src[2][0])
            g = P.fns.get(cl[1][len('closure:'):]) if cl[0] == 'agg' and str(cl[1]).startswith('closure:') else None
        elif src[0] == 'agg' and str(src[1]).startswith('adt:'):
            # a private draining iterator over the event set (`set.drain()`): judged by its `next`
            adt = strip_generics(str(src[1])[4:]).rsplit('::', 1)[0]
            gs = [h for h in P.impls_of_trait_method('std::iter::Iterator', 'next') if h.self_adt and strip_generics(h.self_adt) == adt]
            g = gs[0] if len(gs) == 1 else None
        if g is None:
            continue
        good = True
        np_ = 0
        for gp, go, gd in fn_paths(ctx, g):
            if go != 'return':
                continue
            np_ += 1
            emp = [o for _, o in call_outcomes(g, gp, gd, _fes(cfg) + '::is_empty')]
            rv = path_ret(g, gp)
            if rv is not None and rv[0] == 'agg' and rv[1].endswith('Option::None'):
                good = good and emp[-1:] == [True]
            elif rv is not None and rv[0] == 'agg' and rv[1].endswith('Option::Some'):
                good = good and emp[-1:] == [False] and peel(rv[2][0])[0] == 'call' and peel(rv[2][0])[1] == _fes(cfg) + '::fetch_next'
            else:
                good = False
        if good and np_ >= 2 and any(x[0] == 'field' and x[2] == 'remaining' for x in walk(f.expr_operand(s.args[0], s.b, 'T'))):
            drains.append(s)
    # ... or the same generator consumed by a `for` loop that ends on exhaustion only:
    # `for frame in iter::from_fn(|| (!set.is_empty()).then(|| set.fetch_next())) { remaining.push(frame) }`
    class _B:
        def __init__(self, b): self.b = b
        def where(self): return f.where(self.b)
    for s in f.calls():
        if not s.name.endswith('iter::from_fn') or not s.args:
            continue
        cl = peel(f.expr_operand(s.args[0], s.b, 'T'))
        g = P.fns.get(cl[1][len('closure:'):]) if cl[0] == 'agg' and str(cl[1]).startswith('closure:') else None
        if g is None:
            continue
        good, np_ = True, 0
        for gp, go, gd in fn_paths(ctx, g):
            if go != 'return':
                continue
            np_ += 1
            rv = path_ret(g, gp)
            rvp = peel(rv) if rv is not None else ('unknown',)
            if rvp[0] == 'call' and rvp[1].endswith('bool::then') and len(rvp[2]) == 2:
                cond = peel(rvp[2][0])
                neg = cond[0] == 'un' and cond[1] == 'Not' and peel(cond[2])[0] == 'call' and peel(cond[2])[1] == _fes(cfg) + '::is_empty'
                inner = peel(rvp[2][1])
                h = P.fns.get(inner[1][len('closure:'):]) if inner[0] == 'agg' and str(inner[1]).startswith('closure:') else None
                fetches = h is not None and all(peel(t2)[0] == 'call' and peel(t2)[1] == _fes(cfg) + '::fetch_next' for _, t2 in ret_trees(h)) and bool(ret_trees(h))
                good = good and neg and fetches
            else:
                good = False
        if not (good and np_ >= 1):
            continue
        for c in f.calls():
            if c.callee == 'std::iter::Iterator::next' and c.args and any(x[0] == 'call' and x[1].endswith('iter::from_fn') and x[3] == s.b for x in walk(f.expr_operand(c.args[0], c.b, 'T'))):
                h_ = innermost_loop(f, c.b)
                if h_ is not None and loop_exits_only_on_exhaustion(f, h_):
                    drains.append(_B(h_))
    for path, outcome, decs in fn_paths(ctx, f):
        if outcome != 'return':
            continue
        r = path_ret(f, path)
        is_ok = r is not None and r[0] == 'agg' and r[1].endswith('Result::Ok')
        if not is_ok:
            continue
        n += 1
        outs = call_outcomes(f, path, decs, _fes(cfg) + '::is_empty')
        last = outs[-1][1] if outs else None
        # ... observed AFTER the tear-down handlers ran (they may schedule events of their own, which must be returned as remaining too)
        effs_ = path_effects(f, path)
        i_end = [i for i, e in enumerate(effs_) if e[0] == 'c' and (e[1].callee or e[1].name).endswith('EventLifecycle::at_sim_end')]
        i_emp = [i for i, e in enumerate(effs_) if e[0] == 'c' and e[1].name == _fes(cfg) + '::is_empty']
        if i_end and last is True and outs:
            last_true_site = outs[-1][0]
            i_last = max([i for i, e in enumerate(effs_) if e[0] == 'c' and e[1].b == last_true_site.b and e[1].name == last_true_site.name] or [-1])
            if i_last < i_end[-1]:
                last = 'stale'   # the emptiness test predates at_sim_end
        if last is not True:
            # the emptiness test lives in the event set: `while let Some(frame) = set.fetch_next()` — a None from fetch_next is the
            # observation, provided fetch_next answers None exactly when it found the set empty
            fouts = call_outcomes(f, path, decs, _fes(cfg) + '::fetch_next')
            if fouts and fouts[-1][1] == 'None' and _none_iff_empty(ctx, P, cfg):
                i_last = max([i for i, e in enumerate(effs_) if e[0] == 'c' and e[1].b == fouts[-1][0].b and e[1].name == fouts[-1][0].name] or [-1])
                last = True if (not i_end or i_last > i_end[-1]) else 'stale'
        if any(s.b in path for s in drains):
            last = True   # the drain call returns only once the closure has seen the set empty
        if last is not True:
            # counted forms: `n = set.len()`; `n == 0` means empty; `for _ in 0..n { fetch_next }` leaves it empty (C01.R1: len counts the stored events)
            is_len = lambda t: any(x[0] == 'call' and x[1] == _fes(cfg) + '::len' for x in walk(t))
            for a in [a for _, a in path_atoms(f, path, decs)]:
                if a and a[0] == 'cmp' and is_len(a[2]) and a[3] == ('int', 0) and a[1] in ('eq', 'le'):
                    last = True
                if a and a[0] == 'cmp' and is_len(a[3]) and a[2] == ('int', 0) and a[1] in ('eq', 'ge'):
                    last = True
            for w in per_item_calls(P, f, _fes(cfg) + '::fetch_next'):
                if w.form == 'loop' and w.exhaustive and w.anchor in path and w.it is not None:
                    rng = [y for y in walk(w.it) if y[0] == 'agg' and 'ops::Range' in str(y[1]) and len(y[2]) == 2]
                    single = len([c for c in f.calls_to(_fes(cfg) + '::fetch_next') if set(f.loops_containing(c.b)) == set(f.loops_containing(w.site.b))]) == 1
                    if rng and rng[0][2][0] == ('int', 0) and is_len(rng[0][2][1]) and single:
                        last = True
        ctx.check(last is True, 'finish-observes-empty',
                  'every successful return of finish has observed the event set empty (events beyond the stopping point are returned as remaining, none is lost)',
                  f.where_path(path), {'is_empty_observations': [str(o[1]) for o in outs]})
        # end time = clock
        tup = r[2][0]
        tm = peel(tup[2][1]) if tup[0] == 'agg' and len(tup[2]) > 1 else None
        ctx.check(tm is not None and tm[0] == 'call' and tm[1] == RT + '::sim_time', 'end-time-is-clock', 'the reported end time is the simulation clock (time of the last dispatched event)', f.where_path(path), show(tm) if tm else None)
    ctx.floor('successful returns of finish', n, 2)
    # drain loop: fetch_next result is pushed
    fetch = f.calls_to(_fes(cfg) + '::fetch_next')
    if drains and not fetch and isinstance(drains[0], _B):
        h_ = drains[0].b
        body = f.loops()[h_]
        pushes = [x for x in f.calls() if x.b in body and x.name in ('std::vec::Vec::push', 'std::collections::VecDeque::push_back') and
                  any(y[0] == 'field' and y[2] == 'remaining' for y in walk(f.expr_operand(x.args[0], x.b, 'T'))) and
                  any(is_next(y) for y in walk(f.expr_operand(x.args[1], x.b, 'T')))]
        ctx.check(bool(pushes) and not [a for sb_, a in f.guard_atoms(pushes[0].b) if a and a[0] in ('bool', 'cmp') and sb_ in body], 'drain-pushes-all',
                  'finish fetches until the set is empty and records every fetched frame as remaining', drains[0].where())
    elif drains and not fetch:
        ctx.ok('finish drains the event set into `remaining` through extend(from_fn(..)): every fetched frame is recorded until the set is empty', drains[0].where())
    elif ctx.floor('fetch_next in finish', len(fetch), 1):
        s = fetch[0]
        pushes = [x for x in f.calls() if x.name == 'std::vec::Vec::push' and any(y[0] == 'call' and y[1] == _fes(cfg) + '::fetch_next' for y in walk(f.expr_operand(x.args[1], x.b, 'T')))]
        ctx.check(bool(pushes) and bool(f.loops_containing(s.b)) and any(x[0] == 'field' and x[2] == 'remaining' for p in pushes for x in walk(f.expr_operand(p.args[0], p.b, 'T'))),
                  'drain-pushes-all', 'finish fetches until the set is empty and records every fetched frame as remaining', s.where())


def _fes(cfg):
    return 'des::runtime::event::event_set::%s::FutureEventSet' % ('cqueue_impl' if cfg == 'A' else 'default_impl')


def _build_folds_with_add(ctx, B, fld):
    """Builder::build composes the requested limits as `list.into_iter().fold(RuntimeLimit::None, |mut acc, l| { acc.add(l); acc })`"""
    P = ctx.P
    fb = P.fns.get(B + '::build')
    if fb is None:
        return False
    for c in fb.calls():
        if (c.callee or '') != 'std::iter::Iterator::fold' or len(c.args) != 3:
            continue
        src = fb.expr_operand(c.args[0], c.b, 'T')
        init = peel(fb.expr_operand(c.args[1], c.b, 'T'))
        cl = peel(fb.expr_operand(c.args[2], c.b, 'T'))
        if receiver_field(src) != fld or any(x[0] == 'call' and x[1].split('::')[-1] in ('rev', 'filter', 'skip', 'take', 'step_by', 'filter_map') for x in walk(src)):
            continue
        if not (init[0] == 'agg' and str(init[1]).endswith('RuntimeLimit::None')):
            continue
        g = P.fns.get(cl[1][len('closure:'):]) if cl[0] == 'agg' and str(cl[1]).startswith('closure:') else None
        if g is None:
            continue
        ads = g.calls_to(LIM + '::add')
        if len(ads) != 1 or not g.postdominates_entry(ads[0].b):
            continue
        a0 = peel_c(g.expr_operand(ads[0].args[0], ads[0].b, 'T'))
        a1 = peel(g.expr_operand(ads[0].args[1], ads[0].b, 'T'))
        rts = [peel(t) for _, t in ret_trees(g)]
        if a0[0] == 'arg' and a0[1] == 2 and a1[0] == 'arg' and a1[1] == 3 and rts and all(t[0] == 'arg' and t[1] == 2 for t in rts):
            # ... and the folded value becomes the runtime's limit
            for _, rt in ret_trees(fb):
                for x in walk(rt):
                    if x[0] == 'agg' and str(x[1]).endswith('runtime::Runtime::Runtime') and len(x) > 3 and 'limit' in x[3]:
                        v = x[2][list(x[3]).index('limit')]
                        if any(y[0] == 'call' and y[1] == 'std::iter::Iterator::fold' for y in walk(v)):
                            return True
    return False


def r4_builder_composition(ctx):
    ctx.set_rule('C11.R4')
    B = 'des::runtime::builder::Builder'
    for m, var in (('max_itr', 'EventCount'), ('max_time', 'SimTime'), ('limit', None)):
        f = ctx.anchor(B + '::' + m)
        if not f:
            continue
        adds = f.calls_to(LIM + '::add')
        via_limit = f.calls_to(B + '::limit') if m != 'limit' else []
        ok = len(adds) + len(via_limit) == 1
        detail = None
        pushes = [c for c in f.calls() if c.name == 'std::vec::Vec::push' and c.argtys and 'RuntimeLimit' in c.argtys[0]]
        if not ok and not adds and not via_limit and len(pushes) == 1:
            # deferred composition: the setter appends to the list of requested limits; Builder::build folds that list with
            # RuntimeLimit::add in request order (checked once below)
            c = pushes[0]
            fld = receiver_field(f.expr_operand(c.args[0], c.b, 'T'))
            arg = peel(f.expr_operand(c.args[1], c.b, 'T'))
            good = fld is not None and _build_folds_with_add(ctx, B, fld)
            if var:
                good = good and arg[0] == 'agg' and arg[1].endswith('RuntimeLimit::' + var) and peel(arg[2][0])[0] == 'arg'
            else:
                good = good and arg[0] == 'arg'
            good = good and not any(x.name.split('::')[-1] in ('clear', 'pop', 'remove', 'truncate', 'insert', 'swap', 'retain', 'drain') and x.argtys and 'RuntimeLimit' in x.argtys[0] for x in f.calls())
            ctx.check(good, 'builder-%s' % m, 'Builder::%s adds its limit to the configured ones (appended to the request list that build() folds with RuntimeLimit::add)' % m, f.where(), show(arg))
            continue
        if ok:
            s = (adds + via_limit)[0]
            recv = peel(f.expr_operand(s.args[0], s.b, 'T'))
            arg = peel(f.expr_operand(s.args[1], s.b, 'T'))
            # directly on the builder's limit field, or through Builder::limit (checked below to add, not replace)
            ok = (recv[0] == 'field' and recv[2] == 'limit') if adds else (recv[0] == 'arg' and recv[1] == 1)
            if var:
                ok = ok and arg[0] == 'agg' and arg[1].endswith('RuntimeLimit::' + var) and peel(arg[2][0])[0] == 'arg'
            else:
                ok = ok and arg[0] == 'arg'
            detail = show(arg)
        # no direct overwrite of the limit field
        ok = ok and not f.writes_to_field('limit')
        ctx.check(ok, 'builder-%s' % m, 'Builder::%s adds its limit to the configured ones (RuntimeLimit::add), it does not replace them' % m, f.where(), detail)
    f = ctx.anchor(LIM + '::add')
    if f:
        n = 0
        for path, outcome, decs in fn_paths(ctx, f):
            if outcome != 'return':
                continue
            n += 1
            atoms = [a for _, a in path_atoms(f, path, decs)]
            none = any(a[0] == 'is' and a[2] == 'None' for a in atoms)
            effs = path_effects(f, path)
            stores = [e for e in effs if e[0] == 'w' or (e[0] == 'c' and False)]
            # the value finally stored into *self
            val = None
            for idx, b in enumerate(path):
                for i, st in enumerate(f.stmts(b)):
                    if st['k'] == 'assign' and st['p']['l'] == 1 and st['p']['pr'] and st['p']['pr'][0]['k'] == 'deref' and len(st['p']['pr']) == 1:
                        val = f.expr_rvalue(st['r'], b, i)
                        if peel(val)[0] == 'phi' and st['r']['k'] == 'use':
                            val = f.expr_operand_on_path(st['r']['o'], path, idx, i)   # the value assigned on this very path
            if none:
                ctx.check(val is not None and peel(val)[0] == 'arg', 'add-first', 'adding to RuntimeLimit::None yields the new limit', f.where_path(path), show(val) if val else None)
            else:
                v = peel(val) if val else None
                ok = v is not None and v[0] == 'agg' and v[1].endswith('RuntimeLimit::CombinedOr') and any(x[0] == 'arg' and x[1] == 2 for x in walk(v[2][1]))
                ctx.check(ok, 'add-or', 'adding to an existing limit yields CombinedOr(existing, new)', f.where_path(path), show(v)[:200] if v else None)
        ctx.floor('paths of RuntimeLimit::add', n, 2)


def run(ctx):
    r1_truth_tables(ctx)
    for cfg in [c for c in ('A', 'B') if c in ctx.progs]:
        r2_ordinal(ctx, cfg)
        r3_finish(ctx, cfg)
    ctx.cfg = 'A'
    r4_builder_composition(ctx)
    # (R5) a step installs its temporary limit, runs the loop and restores the configured limit on EVERY returning path (shared with C10.R1):
    # a leaked step limit silently replaces the limit the runtime was built with
    from .C10 import r1_step_wrappers
    for cfg in [c for c in ('A', 'B') if c in ctx.progs]:
        r1_step_wrappers(ctx, cfg, rule='C11.R5')
    ctx.cfg = 'A'

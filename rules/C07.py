"""C07 — channels account for every message (structural clauses, DESIGN §4 C07)."""
from .engine.helpers import *

EXPLANATION = (
    "Static analysis of des::net::channel: (R1) on every returning path of send_message / ChannelDropBehaviour::handle / "
    "unbusy / Buffer::{enqueue,dequeue} an owned Message is consumed exactly once (scheduled exit event, queue, or an explicit "
    "policy drop) and never implicitly dropped; (R2) the policy is entered iff the busy flag is set and nothing else, Drop drops, "
    "Queue(l) enqueues iff acc_bytes + len <= l; (R3) the queue's byte counter is written only by enqueue (+len) and dequeue (-len) "
    "with the measure the admission test uses; (R4) a non-zero busy time sets busy-until T and schedules the unbusy notification at "
    "the same T = now + calculate_busy, the exit event is scheduled on every idle path at now + calculate_duration; (R5) unbusy "
    "clears busy, dequeues FIFO and returns only with the queue observed empty or the channel busy again; (R6) calculate_duration "
    "= latency + calculate_busy (+ Uniform(0, jitter) from the passed RNG); (R7) calculate_busy has the shape (length*8)/bitrate divided in floating point, zero for bitrate 0. "
    '(R8) a channel is created idle with an empty queue and a zero byte counter. '
    "(R4 also: the unbusy notification is scheduled before the message's exit event.) "
    "(R9, shared with C08.R1) the two directions of a connection get distinct channel instances - busy state and queue are per direction. "
    '(R10, shared with C03.R3) what a handler sends leaves the event buffer in emission order (offer order is preserved up to the channel). '
    "Decides these necessary conditions only; not numeric "
    "delays or behaviour over traffic patterns.")
ASSUMPTIONS = ["VecDeque::push_back/pop_front are opposite ends", "a scheduled event is delivered (C01/C02)"]

CH = 'des::net::channel::'
MSG = 'des::net::message::Message'
SINK_ADD = 'des::runtime::event::EventSink::add'


def _carriers(P):
    """names of the local ADTs that own a Message directly (field of type Message / tuple or Option of it): on the pinned tree the
    exit and delivery events; a private record introduced for queue entries is found the same way"""
    c = getattr(P, '_msg_carriers', None)
    if c is None:
        c = set()
        for k, a in P.adts.items():
            for v in a.get('variants', []):
                for fd in v['fields']:
                    ty = fd['ty']
                    if ty == MSG or ty.startswith('(' + MSG) or ty == 'std::option::Option<%s>' % MSG:
                        c.add(k)
        P._msg_carriers = c
    return c


def _carries_message(ty, P=None):
    if MSG in ty or 'MessageExitingConnection' in ty or 'NetEvents' in ty:
        return True
    return P is not None and any(k in ty for k in _carriers(P))


def _implicit_message_drops(ctx, f, path, decs):
    """Drop terminators of message-carrying values executed on this (feasible) path"""
    out = []
    atoms = path_atoms(f, path, decs)
    none_places = {a[1] for _, a in atoms if a[0] == 'is' and a[2] == 'None'}
    for ev in f.path_events(path):
        if ev[0] != 'drop':
            continue
        t = ev[3]
        ty = t['ty']
        if not _carries_message(ty, ctx.P):
            continue
        if ty.startswith(('&', 'std::sync::RwLock', 'std::sync::RwLockWriteGuard', 'std::sync::RwLockReadGuard', 'std::sync::Arc')):
            continue
        place = canon(f.expr_place(t['p'], ev[1], 'T'))
        if ty.startswith('std::option::Option<') and (place in none_places or not any(
                # an Option whose Some payload was moved out on this path is dropped as a shell only
                True for _ in ())):
            # Option shells: only a problem when the path established the value is Some and did not move it out
            some = any(a[0] == 'is' and a[1] == place and a[2] == 'Some' for _, a in atoms)
            moved = _moved_out(f, path, t['p']['l'])
            if not some or moved:
                continue
        out.append((ev[1], ty, show_c(place)))
    return out


def _moved_out(f, path, local):
    for b in path:
        for st in f.stmts(b):
            if st['k'] == 'assign':
                for op in _ops(st['r']):
                    if op.get('k') == 'move' and op['p']['l'] == local:
                        return True
        t = f.term(b)
        if t['k'] == 'call':
            for op in t['args']:
                if op.get('k') == 'move' and op['p']['l'] == local:
                    return True
    return False


def _ops(r):
    k = r['k']
    if k in ('use', 'repeat', 'cast'):
        return [r['o']]
    if k == 'binop':
        return [r['a'], r['b']]
    if k == 'unop':
        return [r['a']]
    if k == 'agg':
        return r['ops']
    return []


def _consumers(f, effs):
    """(exit-event schedules, enqueues, explicit drops, forwards to send_message/handle)"""
    sched = enq = drops = fwd = 0
    for e in effs:
        if e[0] != 'c':
            continue
        s, args = e[1], e[2]
        if s.callee == SINK_ADD and any(x[0] == 'agg' and 'MessageExitingConnection' in x[1] for a in args for x in walk(a)):
            sched += 1
        elif s.name == CH + 'Buffer::enqueue':
            enq += 1
        elif s.name == 'std::mem::drop' and s.argtys and _carries_message(s.argtys[0], f.program) and not s.argtys[0].startswith('std::sync'):
            drops += 1
        elif s.name in (CH + 'Channel::send_message', CH + 'ChannelDropBehaviour::handle'):
            fwd += 1
        elif s.name == 'std::collections::VecDeque::push_back' and s.argtys and len(s.argtys) > 1 and _carries_message(s.argtys[1], f.program):
            enq += 1
    return sched, enq, drops, fwd


def _busy_repr(P):
    """how ChannelInner records "a transmission is in progress": ('flag', bool field) on the pinned tree, or — after a private
    representation change — ('opt', field of type Option<SimTime>) holding the finish time while busy"""
    a = P.adts.get(CH + 'ChannelInner') or {}
    flds = [fd for v in a.get('variants', []) for fd in v['fields']]
    # (the state may live in a private sub-struct of ChannelInner: `transmitter: Transmitter { busy, finish_time }`)
    for fd in list(flds):
        sub = P.adts.get(fd['ty'].split('<')[0])
        if sub is not None and fd['ty'].startswith(CH) and sub.get('kind') == 'struct':
            flds += [x for v in sub.get('variants', []) for x in v['fields']]
    for fd in flds:
        if fd['n'] == 'busy' and fd['ty'] == 'bool':
            return ('flag', 'busy')
    for fd in flds:
        if fd['ty'].startswith('std::option::Option<des::time::SimTime'):
            return ('opt', fd['n'])
    for fd in flds:
        if fd['ty'] == 'bool':
            return ('flag', fd['n'])
    return ('flag', 'busy')


def _busy_adt(P):
    """(path, adt) of the struct that holds the busy state"""
    name = _busy_repr(P)[1]
    for k in [CH + 'ChannelInner'] + sorted(x for x in P.adts if x.startswith(CH)):
        a = P.adts.get(k) or {}
        if any(fd['n'] == name for v in a.get('variants', []) for fd in v['fields']):
            return k, a
    return None, None


def _finish_field(P):
    """role: the field recording when the current transmission ends (pinned: `transmission_finish_time`): the SimTime field of the
    struct that holds the busy flag"""
    k, a = _busy_adt(P)
    flds = [fd for v in (a or {}).get('variants', []) for fd in v['fields']]
    for fd in flds:
        if fd['n'] == 'transmission_finish_time':
            return fd['n']
    ts = [fd['n'] for fd in flds if fd['ty'] == 'des::time::SimTime']
    return ts[0] if len(ts) == 1 else 'transmission_finish_time'


def _whole_state_stores(P, f):
    """stores that overwrite the whole struct holding the busy state (`*self = Self::IDLE`): list of (block, {field: value tree})"""
    k, a = _busy_adt(P)
    out = []
    if k is None:
        return out
    for b in sorted(f.reachable()):
        for i, st in enumerate(f.stmts(b)):
            if st['k'] != 'assign' or not st['p']['pr'] or st['p']['pr'][-1]['k'] not in ('deref', 'field'):
                continue
            ty = f.local_ty(st['p']['l']) if st['p']['pr'] == [{'k': 'deref'}] else (st['p']['pr'][-1].get('ty') or '')
            if ty.lstrip('&').replace('mut ', '').strip().split('<')[0] != k:
                continue
            v = peel(f.expr_rvalue(st['r'], b, i))
            if v[0] == 'constdef' and v[1] in P.fns:
                cf = P.fns[v[1]]
                rb = cf.return_blocks()
                v = peel(cf.expr_local(0, rb[0], 'T')) if len(rb) == 1 else v
            if v[0] == 'agg' and len(v) > 3 and len(v[3]) == len(v[2]):
                out.append((b, dict(zip(v[3], v[2]))))
    return out


_REPORTED = {}


def _reported_busy(P):
    """if Channel::send_message reports the transmitter state through a private field-less enum: {variant: busy?} - established on
    send_message itself: on every returning path the variant returned tells whether the channel is busy at that point (it was found
    busy on entry, or it was marked busy on the path).  None if there is no such report or it is not consistent."""
    if id(P) in _REPORTED:
        return _REPORTED[id(P)]
    out = None
    g = P.fns.get(CH + 'Channel::send_message')
    if g is not None and g.local_ty(0).startswith('des::net::channel::'):
        m = {}
        ok = True
        for path, outcome, decs in g.enum_paths():
            if outcome != 'return' or not consistent(g, path, decs):
                continue
            r = path_ret_resolved(g, path)
            r = peel(r) if r is not None else ('unknown',)
            if not (r[0] == 'agg' and str(r[1]).startswith('adt:des::net::channel::') and not r[2]):
                ok = False; break
            atoms = [a for _, a in path_atoms(g, path, decs)]
            entry = [_busy_truth(P, a, _no_report=True) for a in atoms]
            entry = [x for x in entry if x is not None]
            sets_, _ = _busy_writes(P, g, path_effects(g, path))
            marked = bool(sets_) or any(e[0] == 'c' and e[1].name == CH + 'Channel::set_busy_until' for e in path_effects(g, path))
            busy_end = (entry[:1] == [True]) or marked
            v = str(r[1]).rsplit('::', 1)[-1]
            if m.setdefault(v, busy_end) != busy_end:
                ok = False; break
        if ok and set(m.values()) == {True, False}:
            out = m
    _REPORTED[id(P)] = out
    return out


def _busy_truth(P, a, _no_report=False):
    """True/False if the atom states that the channel is busy / idle, else None"""
    if not _no_report and a and a[0] == 'cmp' and a[1] in ('eq', 'ne'):
        # the state as reported by send_message (`== Transmitter::Occupied`)
        sides = (a[2], a[3])
        call = [x for x in sides if x[0] == 'discr' and peel_c(x[1])[0] == 'call' and peel_c(x[1])[1] == CH + 'Channel::send_message']
        lit = [x for x in sides if x[0] == 'discr' and peel_c(x[1])[0] == 'agg']
        if len(call) == 1 and len(lit) == 1:
            rep = _reported_busy(P)
            v = str(peel_c(lit[0][1])[1]).rsplit('::', 1)[-1]
            if rep is not None and v in rep:
                return rep[v] if a[1] == 'eq' else (not rep[v])
    kind, name = _busy_repr(P)
    if kind == 'flag':
        if a and a[0] == 'bool' and a[1][0] == 'field' and a[1][2] == name:
            return a[2]
        return None
    st = option_state(a) if a else None
    if st and any(x[0] == 'field' and x[2] == name for x in walk(st[1])):
        return st[0] == 'some'
    return None


def _busy_writes(P, f, effs=None):
    """(sets, clears): lists of (block, value-or-T) for stores that mark the channel busy (with finish time T where known) / idle"""
    kind, name = _busy_repr(P)
    sets, clears = [], []
    if effs is not None:
        ws = [(e[5], e[4]) for e in effs if e[0] == 'w' and e[2] == name]
    else:
        ws = [(b, f.expr_rvalue(st['r'], b, i)) for (b, i, st) in f.writes_to_field(name)]
    if f is not None and effs is None:
        for b, comp in _whole_state_stores(P, f):
            if name in comp:
                ws.append((b, comp[name]))
    for b, v in ws:
        v = peel(v) if v is not None else None
        if kind == 'flag':
            if v == ('int', 1):
                sets.append((b, None))
            elif v == ('int', 0):
                clears.append((b, None))
        else:
            if v is not None and v[0] == 'agg' and str(v[1]).endswith('Option::Some'):
                sets.append((b, v[2][0]))
            elif v is not None and v[0] == 'agg' and str(v[1]).endswith('Option::None'):
                clears.append((b, None))
    return sets, clears


def _acc_role(P):
    """role: the queue's byte counter = the field of Buffer that Buffer::enqueue increases by Message::length"""
    fe = P.fns.get(CH + 'Buffer::enqueue')
    if fe is not None:
        for b in sorted(fe.reachable()):
            for i, st in enumerate(fe.stmts(b)):
                if st['k'] == 'assign' and st['p']['pr']:
                    fl = [e for e in st['p']['pr'] if e['k'] == 'field']
                    if fl and fl[-1].get('adt', '').endswith('channel::Buffer'):
                        t = fe.expr_rvalue(st['r'], b, i)
                        if any(x[0] == 'bin' and x[1].startswith('Add') for x in walk(t)) and any(x[0] == 'call' and x[1] == MSG + '::length' for x in walk(t)):
                            return fl[-1].get('n')
    return 'acc_bytes'


def r1_conservation(ctx):
    ctx.set_rule('C07.R1')
    P = ctx.P
    targets = [
        (CH + 'Channel::send_message', True),
        (CH + 'ChannelDropBehaviour::handle', True),
        (CH + 'Buffer::enqueue', True),
    ]
    for key, owns in targets:
        if key == CH + 'ChannelDropBehaviour::handle' and key not in P.fns and P.scope_of(key):
            continue   # the policy was merged into its caller (send_message), whose conservation is checked above
        f = ctx.anchor(key)
        if not f:
            continue
        n = 0
        for path, outcome, decs in fn_paths(ctx, f):
            if outcome != 'return':
                continue
            n += 1
            effs = path_effects(f, path)
            sched, enq, drops, fwd = _consumers(f, effs)
            total = sched + enq + drops + fwd
            imp = _implicit_message_drops(ctx, f, path, decs)
            ctx.check(total == 1 and not imp, 'conservation:%s' % key.split('::')[-1],
                      '%s: on every returning path the message is consumed exactly once (exit event / queue / explicit policy drop / hand-over) and never dropped implicitly'
                      % short(key), f.where_path(path),
                      {'scheduled': sched, 'enqueued': enq, 'explicit_drops': drops, 'handed_over': fwd, 'implicit_drops': imp})
        ctx.floor('returning paths of %s' % short(key), n, 1)
    # unbusy: every dequeued message is handed to send_message
    f = ctx.anchor(CH + 'Channel::unbusy')
    if f:
        for path, outcome, decs in fn_paths(ctx, f):
            if outcome != 'return':
                continue
            effs = path_effects(f, path)
            outs = call_outcomes(f, path, decs, CH + 'Buffer::dequeue')
            got = sum(1 for _, r in outs if r == 'Some')
            sent = sum(1 for e in effs if e[0] == 'c' and e[1].name == CH + 'Channel::send_message')
            imp = _implicit_message_drops(ctx, f, path, decs)
            ctx.check(got == sent and not imp, 'conservation:unbusy', 'unbusy: every dequeued message is transmitted (none dropped)', f.where_path(path),
                      {'dequeued': got, 'sent': sent, 'implicit_drops': imp})
    # dequeue returns what it popped
    f = ctx.anchor(CH + 'Buffer::dequeue')
    if f:
        for path, outcome, decs in fn_paths(ctx, f):
            if outcome != 'return':
                continue
            imp = _implicit_message_drops(ctx, f, path, decs)
            ctx.check(not imp, 'conservation:dequeue', 'Buffer::dequeue returns the popped message (never drops it)', f.where_path(path), imp)
    # explicit message drops exist only at the policy sites
    sites = []
    for g in P.fn_list:
        if not g.key.startswith('des::net::'):
            continue
        for s in g.calls():
            if s.name == 'std::mem::drop' and s.argtys and (s.argtys[0] == MSG or s.argtys[0].startswith('(' + MSG)):
                sites.append(s)
    allowed = {CH + 'ChannelDropBehaviour::handle', 'des::net::runtime::events::MessageExitingConnection::handle_with_sink'} | \
        {g.key for g in P.scope_of(CH + 'ChannelDropBehaviour::handle')} | {g.key for g in P.scope_of('des::net::runtime::events::MessageExitingConnection::handle_with_sink')}
    ctx.floor('functions with explicit message drops (policy sites)', len({s.fn.key for s in sites}), 2)
    from .C09 import _active_atom
    for s in sites:
        if s.fn.key not in allowed and any(_active_atom(a, False, P) for _, a in s.fn.guard_atoms(s.b)):
            continue    # the inactive-owner rule applied at delivery: a message for a module that is not active is discarded
        ctx.check(s.fn.key in allowed, 'explicit-drop-site:%s' % s.fn.key, 'messages are explicitly dropped only by the channel policy and the inactive-owner transit rule', s.where())


def r2_admission(ctx, rule='C07.R2'):
    ctx.set_rule(rule)
    f = ctx.anchor(CH + 'Channel::send_message')
    hs = ctx.P.scope_of(CH + 'ChannelDropBehaviour::handle')
    if not f or not ctx.floor('function applying the drop/queue policy', len(hs), 1):
        return
    h = hs[0]
    ACC = _acc_role(ctx.P)
    POLV = {v['n'] for v in (ctx.P.adts.get(CH + 'ChannelDropBehaviour') or {}).get('variants', [])}
    # policy entered iff busy flag
    pol = f.calls_to(CH + 'ChannelDropBehaviour::handle')
    if not pol and h is f:
        # the policy body lives in send_message itself: its effects (enqueue / policy drop) are the policy "call"
        pol = [s for s in f.calls() if s.name == CH + 'Buffer::enqueue' or (s.name == 'std::mem::drop' and s.argtys and s.argtys[0] == MSG)]
    tx = [s for s in f.calls() if s.callee == SINK_ADD]
    if ctx.floor('policy call in send_message', len(pol), 1) and ctx.floor('schedules in send_message', len(tx), 2):
        def busy_only(atoms, want):
            rel = [a for a in atoms if a[0] in ('bool', 'cmp')]
            flags = [a for a in rel if _busy_truth(ctx.P, a) is not None]
            return len(flags) == 1 and _busy_truth(ctx.P, flags[0]) is want, rel
        ok, rel = busy_only([a for _, a in f.guard_atoms(pol[0].b)], True)
        others = [a for a in rel if _busy_truth(ctx.P, a) is None]
        if h is f and len(pol) > 1:
            # the policy's own decisions (variant, limit test, a predicate helper's verdict) guard its effects here: what all of its
            # effects have in common is the entry condition, and that has to be the busy flag alone
            per = [busy_only([a for _, a in f.guard_atoms(s_.b)], True) for s_ in pol]
            ok = all(o for o, _ in per)
            rel = per[0][1]
            others = [a for a in rel if _busy_truth(ctx.P, a) is None and all(a in r_ for _, r_ in per[1:])]
        ctx.check(ok and not others, 'policy-iff-busy', 'the drop/queue policy is applied iff the channel is busy (the decision depends on the busy flag only)',
                  pol[0].where(), [show_atom(a) for a in rel])
        for s in tx:
            atoms = [a for _, a in f.guard_atoms(s.b)]
            ok2 = any(_busy_truth(ctx.P, a) is False for a in atoms)
            ctx.check(ok2, 'transmit-iff-idle', 'a transmission starts only when the channel is idle', s.where(), [show_atom(a) for a in atoms])
    # table of handle
    n = 0
    for path, outcome, decs in fn_paths(ctx, h):
        if outcome != 'return':
            continue
        n += 1
        effs = path_effects(h, path)
        atoms = [a for _, a in path_atoms(h, path, decs)]
        sched, enq, drops, fwd = _consumers(h, effs)
        variant = next((a[2] for a in atoms if a[0] == 'is' and a[1] == ('arg', 'self') and a[2] in POLV), None)
        if variant is None:
            variant = next((a[2] for a in atoms if a[0] == 'is' and a[2] in POLV), None)
        if variant is None and h is f:
            n -= 1
            continue   # a path of send_message that does not consult the policy (idle channel)
        cmps = [a for a in atoms if a[0] == 'cmp' and any(x[0] == 'call' and x[1] == MSG + '::length' for x in walk(a[2]) ) or
                (a[0] == 'cmp' and any(x[0] == 'call' and x[1] == MSG + '::length' for x in walk(a[3])))] if h is f else [a for a in atoms if a[0] == 'cmp']
        if variant == 'Drop':
            ctx.check(drops == 1 and enq == 0, 'policy-drop', 'ChannelDropBehaviour::Drop drops the message', h.where_path(path))
        elif variant == 'Queue':
            good = False
            det = [show_atom(a) for a in cmps]
            # Queue(None): no limit — the message is always enqueued
            unlimited = any(a[0] == 'is' and a[2] == 'None' and 'as Queue' in show_c(a[1]) for a in atoms)
            if unlimited and not cmps:
                good = enq == 1 and drops == 0
            for a in cmps:
                op, l, r = a[1], a[2], a[3]
                # normalise to  (acc + len) ? limit
                lsum = l[0] == 'field' and l[1][0] == 'bin' and l[1][1].startswith('Add') or (l[0] == 'bin' and l[1].startswith('Add'))
                if not lsum:
                    continue
                summ = l[1] if l[0] == 'field' else l
                parts = (summ[2], summ[3])
                has_acc = any(p[0] == 'field' and p[2] == ACC for p in parts)
                has_len = any(p[0] == 'call' and p[1] == MSG + '::length' for p in parts)
                is_lim = any(x[0] == 'call' and x[1].endswith('Option::unwrap_or') for x in walk(r)) or \
                    ('as Queue' in show_c(r) and 'as Some' in show_c(r))     # the Some payload of the variant's limit
                rp = peel(r)
                if not is_lim and rp[0] == 'phi':
                    # `match limit { Some(b) => b, None => usize::MAX }`
                    alts = [peel(x) for x in rp[1]]
                    is_lim = all(x == ('int', 2 ** 64 - 1) or 'as Queue' in show_c(x) for x in alts) and any('as Queue' in show_c(x) for x in alts)
                if has_acc and has_len and is_lim:
                    if (op == 'gt' and drops == 1 and enq == 0) or (op == 'le' and enq == 1 and drops == 0):
                        good = True
            ctx.check(good, 'policy-queue-table', 'Queue(limit): the message is enqueued iff acc_bytes + length <= limit, dropped otherwise', h.where_path(path),
                      {'comparisons': det, 'enqueued': enq, 'dropped': drops})
        else:
            ctx.violation('policy-unknown-variant', 'a path of ChannelDropBehaviour::handle could not be attributed to a policy variant', h.where_path(path), [show_atom(a) for a in atoms])
    ctx.floor('policy paths', n, 3)


def r3_byte_accounting(ctx, rule='C07.R3'):
    ctx.set_rule(rule)
    P = ctx.P
    ACC = _acc_role(P)
    writers = P.writers_of_field(ACC, CH + 'Buffer')
    ok_map = {CH + 'Buffer::enqueue': 'Add', CH + 'Buffer::dequeue': 'Sub'}
    seen = set()
    for f, w, m in writers:
        ctx.touch(f)
        if f.key in ('<%sBuffer as std::default::Default>::default' % CH,):
            continue
        stores = [(b, f.expr_rvalue(st['r'], b, i)) for (b, i, st) in w]
        m2 = []
        for (b, i, st) in m:
            # `&mut self.<counter>` captured by a closure written in this very function (`pop_front().map(|p| { self.n -= ..; p })`)
            cw = captured_borrow_writes(P, f, b, i, st)
            if cw:
                stores += [(b, t) for (_g, _b, _i, t) in cw]
            else:
                m2.append((b, i, st))
        m = m2
        for (b, t) in stores:
            tt = t[1] if (t[0] == 'field' and t[1][0] == 'bin') else t
            want = ok_map.get(f.key)
            good = want is not None and tt[0] == 'bin' and tt[1].startswith(want) and \
                any(x[0] == 'call' and x[1] == MSG + '::length' for x in walk(tt)) and \
                any(x[0] == 'field' and x[2] == ACC for x in walk(tt))
            if not good and want is not None and tt[0] == 'bin' and tt[1].startswith(want) and any(x[0] == 'field' and x[2] == ACC for x in walk(tt)):
                # the length measured by the caller and handed in: every call passes Message::length of the very message it passes
                amt = [peel(x) for x in (tt[2], tt[3]) if peel(x)[0] == 'arg']
                sites = P.call_sites_of(f.key)
                if len(amt) == 1 and sites:
                    idx = amt[0][1] - 1
                    def passes_len(c):
                        g_ = c.fn
                        if idx >= len(c.args):
                            return False
                        lv = peel(g_.expr_operand(c.args[idx], c.b, 'T'))
                        if not (lv[0] == 'call' and lv[1] == MSG + '::length' and lv[2]):
                            return False
                        m_ = canon(strip_refs(peel(lv[2][0])))
                        return any(canon(strip_refs(peel(g_.expr_operand(a, c.b, 'T')))) == m_ for k_, a in enumerate(c.args) if k_ != idx)
                    good = all(passes_len(c) for c in sites)
            if not good and want == 'Sub' and tt[0] == 'bin' and tt[1].startswith('Sub') and any(x[0] == 'field' and x[2] == ACC for x in walk(tt[2])):
                # the amount remembered with the entry: `acc_bytes -= entry.bytes`, where every entry of that (private) record type is built
                # with bytes = Message::length of the message it carries (a queued message cannot change)
                a_ = peel(tt[3])
                rec = str(a_[3]) if a_[0] == 'field' and len(a_) > 3 else ''
                if rec.startswith(CH) and any(x[0] == 'call' and 'VecDeque::pop_' in str(x[1]) for x in walk(a_)):
                    cons = []
                    for g_ in P.fn_list:
                        if not (g_.key.startswith(CH) or g_.key.startswith('<' + CH)) or g_.kind == 'promoted':
                            continue
                        for b_ in sorted(g_.reachable()):
                            for i_, st_ in enumerate(g_.stmts(b_)):
                                if st_['k'] == 'assign' and st_['r']['k'] == 'agg' and strip_generics(str(st_['r'].get('adt', ''))) == rec:
                                    comp_ = dict(zip(st_['r'].get('fields', []), [g_.expr_operand(o, b_, i_) for o in st_['r']['ops']]))
                                    lv = peel(comp_.get(a_[2], ('unknown',)))
                                    ok_ = lv[0] == 'call' and lv[1] == MSG + '::length' and lv[2] and \
                                        any(canon(strip_refs(peel(v_))) == canon(strip_refs(peel(lv[2][0]))) for k_, v_ in comp_.items() if k_ != a_[2])
                                    cons.append(bool(ok_))
                    good = bool(cons) and all(cons)
            ctx.check(good, 'acc-writer:%s' % f.key, 'the queue byte counter is only adjusted by enqueue (+length) and dequeue (-length)', f.where(b), show(tt))
            if good:
                seen.add(f.key)
        for (b, i, st) in m:
            ctx.violation('acc-mut-borrow:%s' % f.key, 'the queue byte counter is mutably borrowed outside enqueue/dequeue', f.where(b))
    ctx.check(seen == set(ok_map), 'acc-pairing', 'enqueue adds and dequeue subtracts the message length', None, sorted(seen))
    # FIFO ends
    fe, fd = P.fns.get(CH + 'Buffer::enqueue'), P.fns.get(CH + 'Buffer::dequeue')
    if fe and fd:
        ins = [s.name for s in fe.calls() if 'VecDeque::push_' in s.name]
        ext = [s.name for s in fd.calls() if 'VecDeque::pop_' in s.name]
        ctx.check(len(ins) == 1 and len(ext) == 1 and ins[0].split('_')[-1] != ext[0].split('_')[-1], 'queue-fifo',
                  'queued messages leave in FIFO order (enqueue and dequeue use opposite ends)', fe.where(), {'enqueue': ins, 'dequeue': ext})


def r4_idle_path(ctx, rule='C07.R4'):
    ctx.set_rule(rule)
    f = ctx.anchor(CH + 'Channel::send_message')
    if not f:
        return
    NOWADD = lambda t, callee: t[0] == 'call' and t[1].endswith('::add') and any(x[0] == 'call' and x[1] == 'des::time::SimTime::now' for x in walk(t)) \
        and any(x[0] == 'call' and x[1] == callee for x in walk(t))
    def travel(t):
        """now + calculate_duration(..), or now + the body of that function when a shared private helper was spliced into both:
        every alternative is latency + transmission time (R6 decides the exact formula on calculate_duration itself)"""
        if NOWADD(t, CH + 'ChannelMetrics::calculate_duration'):
            return True
        if not (t[0] == 'call' and t[1].endswith('::add') and len(t[2]) == 2 and any(x[0] == 'call' and x[1] == 'des::time::SimTime::now' for x in walk(t[2][0]))):
            return False
        alts = [peel(t[2][1])]
        while any(a[0] == 'phi' for a in alts):
            alts = [peel(y) for a in alts for y in (a[1] if a[0] == 'phi' else [a])]
        return all(any(x[0] == 'field' and x[2] == 'latency' for x in walk(a)) and
                   any(x[0] == 'call' and x[1] == CH + 'ChannelMetrics::calculate_busy' for x in walk(a)) for a in alts)
    n = 0
    for path, outcome, decs in fn_paths(ctx, f):
        if outcome != 'return':
            continue
        effs = path_effects(f, path)
        atoms = [a for _, a in path_atoms(f, path, decs)]
        idle = any(_busy_truth(ctx.P, a) is False for a in atoms)
        if not idle:
            continue
        n += 1
        # "busy until T": the helper call, or (helper inlined) the two stores busy := true, transmission_finish_time := T
        setb = [('call', e[2][1]) for e in effs if e[0] == 'c' and e[1].name == CH + 'Channel::set_busy_until']
        w_busy = [e for e in effs if e[0] == 'w' and e[2] == _busy_repr(ctx.P)[1] and e[4] is not None and peel(e[4]) == ('int', 1)]
        w_fin = [e for e in effs if e[0] == 'w' and e[2] == _finish_field(ctx.P)]
        if not setb and len(w_busy) == 1 and len(w_fin) == 1:
            setb = [('stores', w_fin[0][4])]
        if not setb and _busy_repr(ctx.P)[0] == 'opt':
            sets_, _cl = _busy_writes(ctx.P, f, effs)
            if len(sets_) == 1 and sets_[0][1] is not None:
                setb = [('stores', sets_[0][1])]
        unb = [e for e in effs if e[0] == 'c' and e[1].callee == SINK_ADD and any(x[0] == 'agg' and 'ChannelUnbusyNotif' in x[1] for x in walk(e[2][1]))]
        ex = [e for e in effs if e[0] == 'c' and e[1].callee == SINK_ADD and any(x[0] == 'agg' and 'MessageExitingConnection' in x[1] for x in walk(e[2][1]))]
        # busy != 0 decision
        nz = [a for a in atoms if a[0] == 'cmp' and any(x[0] == 'call' and x[1] == CH + 'ChannelMetrics::calculate_busy' for x in walk(a[2]) ) and 'ZERO' in show_c(a[3])]  # Duration::ZERO
        nonzero = any(a[1] == 'ne' for a in nz)
        if nonzero:
            ok = len(setb) == 1 and len(unb) == 1
            if ok:
                t1 = peel(setb[0][1]); t2 = peel(unb[0][2][2])
                ok = canon(t1) == canon(t2) and NOWADD(t1, CH + 'ChannelMetrics::calculate_busy')
            ctx.check(ok, 'busy-until-pairing', 'a non-zero transmission time marks the channel busy until T and schedules the unbusy notification at the same T = now + calculate_busy',
                      f.where_path(path), {'set_busy': len(setb), 'unbusy_notifs': len(unb)})
        else:
            ctx.check(not setb and not unb and bool(nz), 'zero-busy', 'a zero transmission time neither marks the channel busy nor schedules an unbusy notification', f.where_path(path))
        ok = len(ex) == 1
        if ok:
            t = peel(ex[0][2][2])
            ok = travel(t)
        ctx.check(ok, 'exit-scheduled', 'every accepted transmission schedules exactly one exit event at now + calculate_duration', f.where_path(path))
        if nonzero and len(unb) == 1 and len(ex) == 1:
            # with zero latency both fall on the same instant: the channel must be idle again by the time the message it carried is
            # handed on (events of one instant run in the order they were scheduled, C03)
            ctx.check(effs.index(unb[0]) < effs.index(ex[0]), 'unbusy-scheduled-before-exit',
                      "the end of the busy period is scheduled before the message's exit event, so that at the instant both fall on the channel is idle again first",
                      f.where_path(path))
    ctx.floor('idle paths of send_message', n, 2)
    g = ctx.P.fns.get(CH + 'Channel::set_busy_until')   # may have been inlined into send_message (handled above)
    if g:
        if _busy_repr(ctx.P)[0] == 'flag':
            wb = g.writes_to_field(_busy_repr(ctx.P)[1]); wt = g.writes_to_field(_finish_field(ctx.P))
            okb = len(wb) == 1 and len(wt) == 1
        else:
            sets_, _cl = _busy_writes(ctx.P, g)
            okb = len(sets_) == 1 and sets_[0][1] is not None and peel(sets_[0][1])[0] == 'arg'
        ctx.check(okb, 'set-busy-until', 'set_busy_until sets the busy flag and the finish time', g.where())


def r8_created_idle(ctx):
    """a channel object is always created idle: only send_message marks it busy (paired with an unbusy notification, R4), so a busy
    flag copied into a fresh ChannelInner (e.g. `..*self` in dup) would never be cleared"""
    ctx.set_rule('C07.R8')
    P = ctx.P
    kind, name = _busy_repr(P)
    bk, _ = _busy_adt(P)
    n = 0
    for f in P.fn_list:
        if not (f.key.startswith(CH) or f.key.startswith('<' + CH)) or f.kind == 'promoted':
            continue
        for b in sorted(f.reachable()):
            for i, st in enumerate(f.stmts(b)):
                if st['k'] != 'assign' or st['r']['k'] != 'agg' or not str(st['r'].get('adt', '')).endswith('channel::ChannelInner'):
                    continue
                n += 1
                comp = dict(zip(st['r'].get('fields', []), [f.expr_operand(o, b, i) for o in st['r']['ops']]))
                v = None
                if name in comp:
                    v = peel(comp[name])
                else:
                    for fv in comp.values():
                        fv = peel(fv)
                        if fv[0] == 'constdef' and fv[1] in P.fns:
                            cf = P.fns[fv[1]]
                            rb = cf.return_blocks()
                            fv = peel(cf.expr_local(0, rb[0], 'T')) if len(rb) == 1 else fv
                        if fv[0] == 'agg' and len(fv) > 3 and name in fv[3]:
                            v = peel(fv[2][list(fv[3]).index(name)])
                idle = v is not None and ((kind == 'flag' and v == ('int', 0)) or (kind == 'opt' and v[0] == 'agg' and str(v[1]).endswith('Option::None')))
                ctx.check(idle, 'created-idle:%s' % f.key.split('::')[-1], 'a ChannelInner is constructed with the transmitter idle (a constant), never with a copied busy state',
                          f.where(b), show(v)[:120] if v is not None else None)
    ctx.floor('ChannelInner constructions', n, 1)     # (two on the pinned tree; one shared constructor serves as well)


def r5_unbusy(ctx):
    ctx.set_rule('C07.R5')
    f = ctx.anchor(CH + 'Channel::unbusy')
    if not f:
        return
    sets_, clears_ = _busy_writes(ctx.P, f)
    ctx.check(len(clears_) >= 1 and not sets_, 'clears-busy', 'unbusy clears the busy flag', f.where())
    n = 0
    for path, outcome, decs in fn_paths(ctx, f):
        if outcome != 'return':
            continue
        n += 1
        atoms = [a for _, a in path_atoms(f, path, decs)]
        last_deq = None
        last_busy = None
        pending = False
        for ev in path_stream(f, path, decs):
            if ev[0] == 'c' and ev[1].name == CH + 'Buffer::dequeue':
                pending = True
            elif ev[0] == 'atom':
                a = ev[1]
                if pending and a[0] == 'is' and a[1][0] == 'call' and a[1][1] == CH + 'Buffer::dequeue':
                    last_deq = a[2]; last_busy = None; pending = False
                if _busy_truth(ctx.P, a) is not None:
                    last_busy = _busy_truth(ctx.P, a)
        ok = last_deq == 'None' or last_busy is True
        ctx.check(ok, 'idle-with-queue',
                  'unbusy returns only after observing the queue empty or the channel busy again — otherwise queued messages stay stuck once the channel is idle '
                  '(a zero-busy transmission schedules no further unbusy notification)', f.where_path(path), [show_atom(a) for a in atoms])
    ctx.floor('returning paths of unbusy', n, 2)
    # who calls unbusy: the ChannelUnbusyNotif handler
    cs = {s.fn.key for s in ctx.P.call_sites_of(CH + 'Channel::unbusy')}
    ctx.check(bool(cs), 'unbusy-handler', 'the unbusy notification handler calls Channel::unbusy', None, sorted(cs))


def _uncast(t):
    t = peel(t)
    while t[0] == 'cast':
        t = peel(t[2])
    return t


def r6_duration(ctx):
    ctx.set_rule('C07.R6')
    f = ctx.anchor(CH + 'ChannelMetrics::calculate_duration')
    if not f:
        return
    n = 0
    for path, outcome, decs in fn_paths(ctx, f):
        if outcome != 'return':
            continue
        n += 1
        t = path_ret_resolved(f, path)
        lat = any(x[0] == 'field' and x[2] == 'latency' for x in walk(t))
        atoms = [a for _, a in path_atoms(f, path, decs)]
        # the transmission time: calculate_busy(msg), or its formula when that helper was merged in (len*8/bitrate; ZERO when bitrate == 0)
        busy = any(x[0] == 'call' and x[1] == CH + 'ChannelMetrics::calculate_busy' for x in walk(t)) or \
            (any(x[0] == 'call' and x[1] == MSG + '::length' for x in walk(t)) and any(x[0] == 'field' and x[2] == 'bitrate' for x in walk(t))) or \
            ('Duration::ZERO' in show(t) and any(a[0] == 'cmp' and a[1] == 'eq' and a[3] == ('int', 0) and any(x[0] == 'field' and x[2] == 'bitrate' for x in walk(a[2])) for a in atoms))
        jz = [a for a in atoms if a[0] == 'cmp' and any(x[0] == 'field' and x[2] == 'jitter' for x in walk(a[2]))]
        zero = any(a[1] == 'eq' for a in jz)
        if zero:
            ctx.check(lat and busy and not any(x[0] == 'call' and 'sample' in x[1] for x in walk(t)), 'duration-nojitter', 'without jitter the delay is latency + transmission time', f.where_path(path), show(t)[:200])
        else:
            # rng.sample(distr)  or, equivalently (it is how rand defines Rng::sample),  distr.sample(rng)
            smp = [x for x in walk(t) if x[0] == 'call' and (x[1] == 'rand::Rng::sample' or x[1].endswith('rand::distr::Distribution>::sample') or x[1] == 'rand::distr::Distribution::sample')]
            ok = lat and busy and bool(smp)
            if ok:
                u = [x for x in walk(smp[0]) if x[0] == 'call' and x[1] == 'rand::distr::Uniform::new']
                rng_arg = smp[0][2][0] if smp[0][1] == 'rand::Rng::sample' else (smp[0][2][1] if len(smp[0][2]) > 1 else ('unknown',))
                ok = bool(u) and any(x[0] == 'field' and x[2] == 'jitter' for x in walk(u[0][2][1])) and '0' in show(u[0][2][0]) and _uncast(rng_arg)[0] == 'arg'
            ctx.check(ok, 'duration-jitter', 'with jitter the delay is latency + transmission time + a draw from Uniform(0, jitter) of the passed RNG', f.where_path(path), show(t)[:300])
    ctx.floor('paths of calculate_duration', n, 2)


def r7_busy_formula(ctx, rule='C07.R7'):
    """shape of the transmission time: size*8/bitrate computed in floating point from the unscaled operands"""
    ctx.set_rule(rule)
    f = ctx.anchor(CH + 'ChannelMetrics::calculate_busy')
    if not f:
        return
    n = 0
    for path, outcome, decs in fn_paths(ctx, f):
        if outcome != 'return':
            continue
        n += 1
        atoms = [a for _, a in path_atoms(f, path, decs)]
        zero = any(a[0] == 'cmp' and a[1] == 'eq' and any(x[0] == 'field' and x[2] == 'bitrate' for x in walk(a[2])) and a[3] == ('int', 0) for a in atoms)
        r = path_ret_resolved(f, path)
        if zero:
            ctx.check(r is not None and 'ZERO' in show(r), 'busy-zero-bitrate', 'a channel without bitrate has zero transmission time', f.where_path(path), show(r) if r else None)
            continue
        ok = False
        detail = show(r)[:200] if r else None
        if r and r[0] == 'call' and r[1].endswith('Duration::from_secs_f64'):
            q = peel(r[2][0])
            if q[0] == 'bin' and q[1] == 'Div':
                num, den = peel(q[2]), peel(q[3])
                def unfloat(t):
                    return peel(t[2]) if t[0] == 'cast' and t[1] == 'IntToFloat' else None
                nu, de = unfloat(num), unfloat(den)
                if nu is not None and de is not None:
                    if nu[0] == 'field' and nu[1][0] == 'bin':
                        nu = ('bin', nu[1][1].replace('WithOverflow', ''), nu[1][2], nu[1][3])
                    bits = nu[0] == 'bin' and nu[1] == 'Mul' and {True} == {True for x in (nu[2], nu[3]) if x == ('int', 8)} and \
                        any(peel(x)[0] == 'call' and peel(x)[1] == MSG + '::length' for x in (nu[2], nu[3]))
                    rate = de[0] == 'field' and de[2] == 'bitrate'
                    ok = bits and rate
        ctx.check(ok, 'busy-formula', 'transmission time = (message length in bytes * 8) / bitrate, divided in floating point from the unscaled integers (no integer division that would round the rate)',
                  f.where_path(path), detail)
    ctx.floor('paths of calculate_busy', n, 2)


def run(ctx):
    r7_busy_formula(ctx)
    r1_conservation(ctx)
    r2_admission(ctx)
    r3_byte_accounting(ctx)
    r4_idle_path(ctx)
    r5_unbusy(ctx)
    r8_created_idle(ctx)
    r6_duration(ctx)
    # the busy state and the queue are per direction: the two directions of a connection get distinct channel instances
    from .C08 import r1_cross_wiring
    r1_cross_wiring(ctx, rule='C07.R9')
    # (R10) with zero jitter deliveries preserve offer order: what a handler sends leaves the event buffer in emission order (shared
    # with C03.R3)
    from .C03 import r3_emission_order
    r3_emission_order(ctx, rule='C07.R10')

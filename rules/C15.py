"""C15 — calendar-queue allocator safety, payloads dropped once (structural clauses, DESIGN §4 C15)."""
from .engine.helpers import *

EXPLANATION = (
    "Static analysis of des-cqueue's allocator, box and list: (R1) the pointer returned by allocate is align_up(region start, align) "
    "with align taken from size_align(layout) — followed through find_region and alloc_from_region — and align_up has the "
    "(addr+align-1)&!(align-1) shape; size_align derives the alignment from the requested layout (raised to the list node's, never replaced by it); (R2) alloc_from_region returns Ok only if alloc_end <= region end (and the remainder is 0 or can "
    "hold a list node); the remainder handed back by allocate starts at alloc_end and has size region_end - alloc_end; (R3) allocate and "
    "deallocate normalise the layout with the same size_align and adjust the byte counter by that size; LocalBox::new_in and its Drop use "
    "Layout::new of the same type; (R4) node typestate: a freshly allocated node is handed to the list exactly once and both "
    "neighbour links are stored on the same path; a node re-boxed with from_raw_in is dropped/consumed only after its predecessor's next and its successor's "
    "prev were redirected, the sentinel is forgotten, and a node is only destroyed after the end-of-list test on that very node was negative (sentinels are never freed); (R5) CQueue::drop empties the bucket vector before the allocator field is "
    "dropped and DualLinkedList::drop pops until None. "
    "(R3 also: a freed block is recorded with exactly the extent that was handed out for it.) "
    '(R6) a fresh page is registered as free with exactly the size requested from the system allocator, and released with the layout it was requested with. '
    "(R7) single owner: no function of des-cqueue makes a bitwise copy (ptr::read / copy / transmute_copy / ManuallyDrop::take ..) of a value "
    "that is not plain data unless the copied-from owner is forgotten on every path — a second owner drops the payload a second time. "
    "(R8, shared with C01.R3) cancel searches the container add placed the event in for every ordering of (event time, bound at add, bound at cancel): a cancelled payload is dropped at cancel, not handed out later. "
    "Decides these necessary conditions only; not non-overlap / reuse-after-release over histories.")
ASSUMPTIONS = ["the global allocator returns page_size-aligned pages", "raw-pointer aliasing is as the SAFETY comments state"]

A = 'des_cqueue::stable::alloc::'
AL = A + 'CQueueLLAllocator'
IN = A + 'CQueueLLAllocatorInner'
LB = 'des_cqueue::stable::boxed::LocalBox'
L = 'des_cqueue::stable::linked_list::DualLinkedList'


def simp(t):
    """strip checked-arithmetic wrappers: (a +ovf b).0 -> a + b ; casts between integer/pointer types"""
    if not isinstance(t, tuple) or not t:
        return t
    if t[0] == 'field' and isinstance(t[1], tuple) and t[1][0] == 'bin' and t[1][1].endswith('WithOverflow') and t[2] == '0':
        return ('bin', t[1][1][:-len('WithOverflow')], simp(t[1][2]), simp(t[1][3]))
    if t[0] in ('ref', 'rawref', 'deref'):
        return simp(t[1])
    return tuple(simp(x) if isinstance(x, tuple) else x for x in t)


def _is_region_end(t, of=None):
    """tree = end address of a free region: ListNode::end_addr(r), or start_addr(r) + r.size when that helper was inlined"""
    t = simp(t)
    if t[0] == 'call' and t[1] == A + 'ListNode::end_addr':
        return True
    if t[0] == 'bin' and t[1] == 'Add':
        parts = (simp(t[2]), simp(t[3]))
        return any(p[0] == 'call' and p[1] == A + 'ListNode::start_addr' for p in parts) and any(p[0] == 'field' and p[2] == 'size' for p in parts)
    return False


def _mentions_region_end(t):
    return any(_is_region_end(x) for x in walk(t))


def _find_region_components(ctx, ff):
    """roles of the components of the tuple find_region returns on success: index -> 'start' (the address computed by
    alloc_from_region) / 'end' (end address of the removed region) / 'region' (the removed node itself)"""
    roles = {}
    for path, outcome, decs in fn_paths(ctx, ff):
        if outcome != 'return':
            continue
        r = path_ret_resolved(ff, path)
        tup = [x for x in walk(r) if x[0] == 'agg' and x[1] == 'tuple' and len(x[2]) == 2] if r else []
        if not tup:
            continue
        for i, c in enumerate(tup[0][2]):
            c = simp(c)
            if any(x[0] == 'call' and x[1] == IN + '::alloc_from_region' for x in walk(c)):
                roles.setdefault(i, 'start')
            elif _mentions_region_end(c):
                roles.setdefault(i, 'end')
            elif 'ListNode' in show(c) or any(x[0] == 'call' and x[1].endswith(('Option::unwrap', 'Option::take')) for x in walk(c)):
                roles.setdefault(i, 'region')
    return roles


def r1_aligned_pointer(ctx):
    ctx.set_rule('C15.R1')
    P = ctx.P
    fa = ctx.anchor(AL + '::allocate')
    ff = ctx.anchor(IN + '::find_region')
    fr = ctx.anchor(IN + '::alloc_from_region')
    fu = ctx.anchor(A + 'align_up')
    if not (fa and ff and fr and fu):
        return
    # (a) allocate
    n = 0
    for path, outcome, decs in fn_paths(ctx, fa):
        if outcome != 'return':
            continue
        r = path_ret_resolved(fa, path)
        if not (r and r[0] == 'agg' and r[1].endswith('Result::Ok')):
            continue
        n += 1
        v = simp(r[2][0])
        while v[0] == 'cast':
            v = simp(v[2])
        roles = _find_region_components(ctx, ff)
        j_start = next((str(i) for i, r_ in roles.items() if r_ == 'start'), None)
        ok = v[0] == 'field' and v[2] == j_start and any(x[0] == 'call' and x[1] == IN + '::find_region' for x in walk(v))
        fr_call = [x for x in walk(v) if x[0] == 'call' and x[1] == IN + '::find_region']
        args_ok = False
        if fr_call and len(fr_call[0][2]) >= 3:
            sz, al = simp(fr_call[0][2][1]), simp(fr_call[0][2][2])
            args_ok = sz[0] == 'field' and sz[2] == '0' and al[0] == 'field' and al[2] == '1' and \
                all(any(x[0] == 'call' and x[1] == IN + '::size_align' for x in walk(q)) for q in (sz, al))
        ctx.check(ok and args_ok, 'allocate-returns-aligned-start', 'allocate returns the aligned start computed by find_region for (size, align) = size_align(layout)', fa.where_path(path), show(v)[:200])
    ctx.floor('Ok paths of allocate', n, 1)
    # (b) find_region
    n = 0
    for path, outcome, decs in fn_paths(ctx, ff):
        if outcome != 'return':
            continue
        r = path_ret_resolved(ff, path)
        if r and r[0] == 'call' and r[1] == IN + '::find_region':
            a1, a2 = (peel(r[2][1]), peel(r[2][2])) if len(r[2]) >= 3 else (('unknown',), ('unknown',))
            ctx.check(a1[0] == 'arg' and a2[0] == 'arg' and a1[2] == 'size' and a2[2] == 'align', 'find_region-retry', 'after adding a page find_region retries with the same size and alignment', ff.where_path(path))
            continue
        some = [x for x in walk(r)] if r else []
        tup = [x for x in some if x[0] == 'agg' and x[1] == 'tuple' and len(x[2]) == 2]
        if not tup:
            continue
        n += 1
        roles = _find_region_components(ctx, ff)
        j_start = next((i for i, r_ in roles.items() if r_ == 'start'), 1)
        b = simp(tup[0][2][j_start])
        call = [x for x in walk(b) if x[0] == 'call' and x[1] == IN + '::alloc_from_region']
        ok = b[0] == 'field' and bool(call) and len(call[0][2]) >= 3 and peel(call[0][2][1])[0] == 'arg' and peel(call[0][2][1])[2] == 'size' and peel(call[0][2][2])[2] == 'align'
        ctx.check(ok, 'find_region-start-from-fit', "find_region hands out the start address computed by alloc_from_region for the region it removes", ff.where_path(path), show(b)[:200])
    ctx.floor('Some paths of find_region', n, 1)
    # (c) alloc_from_region: every success case hands out align_up(region start, align)
    n = 0
    A_ALIGN = fr.local_name(3)
    for path, atoms, payload in success_cases(ctx, fr):
        n += 1
        v = simp(payload)
        ok = v[0] == 'call' and v[1] == A + 'align_up' and any(x[0] == 'call' and x[1] == A + 'ListNode::start_addr' for x in walk(v[2][0])) and \
            simp(v[2][1])[0] == 'arg' and simp(v[2][1])[1] == 3
        ctx.check(ok, 'fit-returns-aligned-start', 'alloc_from_region returns align_up(region start, align)', fr.where_path(path), show(v)[:160])
    ctx.floor('Ok paths of alloc_from_region', n, 1)
    # (c2) the alignment handed to find_region is at least the requested layout's: size_align derives it from the layout
    fs = ctx.anchor(IN + '::size_align')
    if fs:
        n_sa = 0
        for b_, t in ret_trees(fs):
            t = peel(t)
            if not (t[0] == 'agg' and t[1] == 'tuple' and len(t[2]) == 2):
                continue
            n_sa += 1
            al = t[2][1]
            from_layout = any(x[0] == 'call' and x[1].endswith('Layout::align') and any(y[0] == 'arg' and y[1] == 1 for y in walk(x)) for x in walk(al))
            widened = any(x[0] == 'call' and x[1].endswith(('Layout::align_to', '::max')) for x in walk(al))
            ctx.check(from_layout, 'align-from-layout',
                      "size_align returns an alignment derived from the requested layout's own alignment (raised to the free-list node's, never replaced by it): a block for an over-aligned type is aligned for that type",
                      fs.where(b_), {'align': show(al)[:200], 'raised_to_node_alignment': widened})
        ctx.floor('tuple returns of size_align', n_sa, 1)
    # (d) align_up shape
    for b, t in ret_trees(fu):
        v = simp(t)
        shape = False
        if v[0] == 'bin' and v[1] == 'BitAnd':
            l, r = v[2], v[3]
            lsum = l[0] == 'bin' and l[1] == 'Sub' and l[3] == ('int', 1) and l[2][0] == 'bin' and l[2][1] == 'Add' and \
                {simp(l[2][2])[-1], simp(l[2][3])[-1]} == {'addr', 'align'}
            rmask = r[0] == 'un' and r[1] == 'Not' and r[2][0] == 'bin' and r[2][1] == 'Sub' and r[2][3] == ('int', 1) and simp(r[2][2])[-1] == 'align'
            shape = lsum and rmask
        ctx.check(shape, 'align_up-shape', 'align_up(addr, align) = (addr + align - 1) & !(align - 1)', fu.where(), show(v))


def _addr_norm(t):
    """an address expression as a plain sum: `ptr.add(n)` / `ptr.wrapping_add(n)` on `(x as *mut u8)`, `x.checked_add(n).expect(..)` /
    `.unwrap()`, `x + n`  ->  ('sum', x, n)   (casts between usize and raw pointers dropped)"""
    t = peel(t)
    while t[0] == 'cast' or (t[0] == 'call' and t[1].split('::')[-1] in ('cast', 'cast_mut', 'cast_const', 'as_ptr', 'addr') and len(t[2]) == 1):
        t = peel(t[2] if t[0] == 'cast' else t[2][0])
    if t[0] == 'call' and t[1].split('::')[-1] in ('expect', 'unwrap', 'unwrap_unchecked') and t[2]:
        inner = peel(t[2][0])
        if inner[0] == 'call' and inner[1].endswith('::checked_add') and len(inner[2]) == 2:
            return ('sum', canon(_addr_norm(inner[2][0])), canon(peel(inner[2][1])))
    if t[0] == 'field' and t[2] == '0' and peel(t[1])[0] == 'as' and peel(t[1])[2] in ('Some', 'Ok'):
        inner = peel(peel(t[1])[1])
        if inner[0] == 'call' and inner[1].endswith('::checked_add') and len(inner[2]) == 2:
            return ('sum', canon(_addr_norm(inner[2][0])), canon(peel(inner[2][1])))
    if t[0] == 'call' and t[1].split('::')[-1] in ('add', 'wrapping_add', 'byte_add') and 'ptr' in t[1] and len(t[2]) == 2:
        return ('sum', canon(_addr_norm(t[2][0])), canon(peel(t[2][1])))
    if t[0] == 'bin' and str(t[1]).startswith('Add'):
        return ('sum', canon(_addr_norm(t[2])), canon(peel(t[3])))
    if t[0] == 'field' and t[2] == '0' and peel(t[1])[0] == 'bin' and str(peel(t[1])[1]).startswith('Add'):
        b_ = peel(t[1])
        return ('sum', canon(_addr_norm(b_[2])), canon(peel(b_[3])))
    return t


def r2_fit(ctx):
    ctx.set_rule('C15.R2')
    fr = ctx.anchor(IN + '::alloc_from_region')
    fa = ctx.anchor(AL + '::allocate')
    if not (fr and fa):
        return
    for path, atoms, payload in success_cases(ctx, fr):
        fit = False
        for a in atoms:
            if a[0] == 'cmp':
                op, l, rr = a[1], a[2], a[3]
                l_end = _mentions_region_end(l)
                r_end = _mentions_region_end(rr)
                l_alloc = any(x[0] == 'call' and x[1].endswith('::checked_add') for x in walk(l))
                r_alloc = any(x[0] == 'call' and x[1].endswith('::checked_add') for x in walk(rr))
                if (l_alloc and r_end and op == 'le') or (r_alloc and l_end and op == 'ge'):
                    fit = True
        for a in atoms:
            # `region.end_addr().checked_sub(alloc_end)` is Some  <=>  alloc_end <= region end
            if (option_state(a) or ('', None))[0] == 'some':
                c = peel_c(option_state(a)[1])
                if c[0] == 'call' and c[1].endswith('::checked_sub') and len(c[2]) == 2 and _mentions_region_end(c[2][0]) and \
                        any(x[0] == 'call' and x[1].endswith('::checked_add') for x in walk(c[2][1])):
                    fit = True
        ctx.check(fit, 'fit-test', 'alloc_from_region accepts a region only if the aligned block ends at or before the region end', fr.where_path(path), [show_atom(a) for a in atoms if a[0] == 'cmp'])
        # remainder is 0 or >= size_of ListNode
        def _is_end(t):
            return _mentions_region_end(t)
        def _is_blockend(t):
            return any(x[0] == 'call' and x[1].endswith('::checked_add') for x in walk(t))
        rem = [a for a in atoms if a[0] == 'cmp' and (any(x[0] == 'bin' and x[1].startswith('Sub') for x in walk(a[2])) or
                                                      (any(x[0] == 'call' and x[1].endswith('::checked_sub') for x in walk(a[2])) and _mentions_region_end(a[2])) or
                                                      (a[1] == 'eq' and ((_is_end(a[2]) and _is_blockend(a[3])) or (_is_end(a[3]) and _is_blockend(a[2])))))]
        # range form: `!(1..size_of::<ListNode>()).contains(&excess)` with excess = region end - block end
        for a in atoms:
            if a[0] == 'bool' and a[2] is False and a[1][0] == 'call' and a[1][1].endswith('Range::contains') and len(a[1][2]) == 2:
                rg, x = peel_c(a[1][2][0]), a[1][2][1]
                if rg[0] == 'agg' and len(rg[2]) == 2 and rg[2][0] == ('int', 1) and any(y[0] == 'call' and y[1].endswith('mem::size_of') for y in walk(rg[2][1])) and \
                        any((y[0] == 'call' and (y[1].endswith('::checked_sub') or y[1].endswith('::sub'))) or (y[0] == 'bin' and str(y[1]).startswith('Sub')) for y in walk(x)) and _mentions_region_end(x):
                    rem.append(a)
        ctx.check(len(rem) >= 1, 'remainder-test', 'a remainder that could not hold a free-list node is rejected', fr.where_path(path), [show_atom(a) for a in rem])
    # checked_add operand: alloc_start + size
    ca = [s for s in fr.calls() if s.name.endswith('::checked_add')]
    if ctx.floor('checked_add in alloc_from_region', len(ca), 1):
        a0 = peel(fr.expr_operand(ca[0].args[0], ca[0].b, 'T')); a1 = peel(fr.expr_operand(ca[0].args[1], ca[0].b, 'T'))
        ctx.check(a0[0] == 'call' and a0[1] == A + 'align_up' and a1[0] == 'arg' and a1[1] == 2, 'block-end', 'the block end is aligned start + size', ca[0].where())
    # allocate: the remainder goes back as [alloc_end, region_end)
    adds = fa.calls_to(IN + '::add_free_region')
    if ctx.floor('remainder re-insertion in allocate', len(adds), 1):
        s = adds[0]
        addr = simp(fa.expr_operand(s.args[1], s.b, 'T'))
        size = simp(fa.expr_operand(s.args[2], s.b, 'T'))
        addr_ok = any(x[0] == 'call' and x[1].endswith('::checked_add') for x in walk(addr)) and any(x[0] == 'call' and x[1] == IN + '::find_region' for x in walk(addr))
        ffn = ctx.P.fns.get(IN + '::find_region')
        roles = _find_region_components(ctx, ffn) if ffn else {}
        k_end = next((str(i) for i, r_ in roles.items() if r_ == 'end'), None)
        end_ok = _mentions_region_end(size[2]) if size[0] == 'bin' else False
        if size[0] == 'bin' and not end_ok and k_end is not None:
            # the region end travels as a component of find_region's result
            e = simp(size[2])
            end_ok = e[0] == 'field' and e[2] == k_end and any(x[0] == 'call' and x[1] == IN + '::find_region' for x in walk(e))
        size_ok = size[0] == 'bin' and size[1] == 'Sub' and end_ok and (canon(size[3]) == canon(addr) or
                                                                        (_addr_norm(size[3])[0] == 'sum' and _addr_norm(size[3]) == _addr_norm(addr)))
        if not addr_ok and _addr_norm(addr)[0] == 'sum':
            addr_ok = any(x[0] == 'call' and x[1] == IN + '::find_region' for x in walk(addr))
        ctx.check(addr_ok and size_ok, 'remainder-extent',
                  'the free remainder handed back is exactly [block end, region end): it starts at alloc_start + size and its length is region.end_addr() - block end '
                  '(any other length lets the free list reach into a neighbouring live block when the block was padded for alignment)', s.where(),
                  {'addr': show(addr)[:140], 'size': show(size)[:180]})


def r3_size_agreement(ctx):
    ctx.set_rule('C15.R3')
    P = ctx.P
    fa, fd = ctx.anchor(AL + '::allocate'), ctx.anchor(AL + '::deallocate')
    if fa and fd:
        for f, op in ((fa, 'inc'), (fd, 'dec')):
            sa = f.calls_to(IN + '::size_align')
            ok = len(sa) == 1 and peel(f.expr_operand(sa[0].args[0], sa[0].b, 'T'))[0] == 'arg'
            ctx.check(ok, 'normalise:%s' % f.name, '%s normalises the layout with size_align' % f.name, f.where())
            w = f.writes_to_field('allocated_mem')
            good = False
            for b, i, st in w:
                t = simp(f.expr_rvalue(st['r'], b, i))
                if t[0] == 'bin' and t[1] == ('Add' if op == 'inc' else 'Sub') and any(x[0] == 'call' and x[1] == IN + '::size_align' for x in walk(t[3])):
                    good = True
            ctx.check(good, 'counter:%s' % f.name, '%s adjusts the byte counter by the normalised size' % f.name, f.where())
        # deallocate frees exactly (ptr, normalised size)
        ad = fd.calls_to(IN + '::add_free_region')
        if ctx.floor('add_free_region in deallocate', len(ad), 1):
            sz = simp(fd.expr_operand(ad[0].args[2], ad[0].b, 'T'))
            pt = simp(fd.expr_operand(ad[0].args[1], ad[0].b, 'T'))
            szp = peel(sz)
            exact = szp[0] == 'field' and szp[2] == '0' and peel(szp[1])[0] == 'call' and peel(szp[1])[1] == IN + '::size_align'
            ctx.check(exact and any(x[0] == 'arg' and x[-1] == 'ptr' for x in walk(pt)), 'free-extent',
                      'deallocate returns exactly the block (ptr, normalised size) to the free list', ad[0].where())
    fn = ctx.anchor(LB + '::new_in')
    fdrop = ctx.anchor('<%s as std::ops::Drop>::drop' % LB)
    if fn and fdrop:
        def layout_sites(f):
            """Layout::new::<..>() calls in f or in a named constant f mentions (e.g. `const LAYOUT: Layout = Layout::new::<E>()`)"""
            out = [s for s in f.calls() if s.name == 'std::alloc::Layout::new']
            consts = set()
            def scan(x):
                if isinstance(x, list):
                    for y in x:
                        scan(y)
                elif isinstance(x, dict):
                    if isinstance(x.get('cdef'), str):
                        consts.add(strip_generics(x['cdef']))
                    for v in x.values():
                        if isinstance(v, (list, dict)):
                            scan(v)
            scan(f.blocks)
            for k in sorted(consts):
                g = P.fns.get(k)
                if g is not None and g.kind == 'const':
                    out += [s for s in g.calls() if s.name == 'std::alloc::Layout::new']
            return out
        l1 = layout_sites(fn)
        l2 = layout_sites(fdrop)
        ok = len(l1) == 1 and len(l2) == 1 and l1[0].targs == l2[0].targs == ['E']
        if not ok and len(l1) == 1 and len(l2) == 1 and l1[0].targs == l2[0].targs and len(l1[0].targs) == 1 and len(l1[0].targs[0]) <= 2:
            # both layouts come from spliced generic helpers (`allocate_for::<T>` / `deallocate_for::<T>`): each helper computes the layout
            # of the very T whose pointer it hands out / takes (`cast::<T>` at the same T), and that pointer is LocalBox<E>'s `*mut E`
            def typed_ptr(f, site):
                T_ = site.targs[0]
                return any(c.name.split('::')[-1] == 'cast' and c.targs and c.targs[-1] == T_ for c in f.calls()) or any(('*mut ' + T_) in (t or '') or ('*const ' + T_) in (t or '') for c in f.calls() for t in (c.argtys or []))
            ok = typed_ptr(fn, l1[0]) and typed_ptr(fdrop, l2[0])
        ctx.check(ok, 'box-layout', 'LocalBox allocates and frees with Layout::new::<E>() of the same E', fn.where(), {'new_in': l1 and l1[0].targs, 'drop': l2 and l2[0].targs})
        dip = [s for s in fdrop.calls() if s.name.endswith('drop_in_place')]
        de = fdrop.calls_to(AL + '::deallocate')
        ctx.check(len(dip) == 1 and len(de) == 1 and fdrop.dominates(dip[0].b, de[0].b), 'box-drop-order', 'LocalBox::drop destroys the value, then frees its block', fdrop.where())
        wr = [s for s in fn.calls() if 'write' in s.name and 'ptr' in s.name]
        al = fn.calls_to(AL + '::allocate')
        ctx.check(len(wr) == 1 and len(al) == 1, 'box-init', 'LocalBox::new_in writes the value into the freshly allocated block', fn.where())


LEAKS = ('std::mem::forget', 'std::mem::ManuallyDrop::new')   # giving up ownership of a box without freeing it


def r4_node_typestate(ctx, rule='C15.R4'):
    ctx.set_rule(rule)
    P = ctx.P
    f = ctx.anchor(L + '::add')
    if f:
        n = 0
        for path, outcome, decs in fn_paths(ctx, f):
            if outcome != 'return':
                continue
            n += 1
            evs = path_stream(f, path, decs)
            forget = [i for i, e in enumerate(evs) if e[0] == 'c' and e[1].name in LEAKS]
            atoms = [e[1] for e in evs if e[0] == 'atom']
            ok = len(forget) == 1
            if ok:
                # the node is handed to the chain exactly once and both neighbours are redirected on the same path (in either order:
                # a box leaked first can no longer be freed by an unwinding panic, a box leaked last is linked by then)
                before = evs
                st_next = [e for e in before if e[0] == 'w' and e[2] == 'next' and e[4] is not None and _is_node_ptr(e[4])]
                st_prev = [e for e in before if e[0] == 'w' and e[2] == 'prev' and e[4] is not None and _is_node_ptr(e[4])]
                null_prev = _null_decisions(atoms)
                ok = (len(st_next) >= 1 or null_prev >= 1) and (len(st_prev) >= 1 or null_prev >= 1) and (len(st_next) + len(st_prev) + null_prev >= 2)
            ctx.check(ok, 'forget-after-linking', 'DualLinkedList::add hands the node box over to the list exactly once, and both neighbours point at it when add returns', f.where_path(path))
        ctx.floor('returning paths of DualLinkedList::add', n, 1)
    for key in (L + '::cancel', L + '::pop_min'):
        f = ctx.anchor(key)
        if not f:
            continue
        n = 0
        for path, outcome, decs in fn_paths(ctx, f):
            if outcome != 'return':
                continue
            evs = path_stream(f, path, decs)
            rebox = [i for i, e in enumerate(evs) if e[0] == 'c' and e[1].name == LB + '::from_raw_in']
            if not rebox:
                continue
            n += 1
            after = evs[rebox[-1]:]
            kill = [i for i, e in enumerate(after) if (e[0] == 'c' and e[1].name in ('std::mem::drop', 'des_cqueue::stable::linked_list::EventNode::into_inner')) or
                    (e[0] == 'd' and 'LocalBox' in e[2])]
            forget = [i for i, e in enumerate(after) if e[0] == 'c' and e[1].name in LEAKS]
            if forget and not kill:
                ctx.ok('%s: the re-boxed sentinel is forgotten (still owned by the list)' % short(key), f.where_path(path))
                continue
            ok = bool(kill)
            if ok:
                # every link store that precedes the destruction on this path counts, whether it was made through the box or through the
                # raw pointer before the node was taken back into a box (the walk itself stores nothing)
                between = evs[:rebox[-1] + kill[0]]
                st_next = [e for e in between if e[0] == 'w' and e[2] == 'next']
                st_prev = [e for e in between if e[0] == 'w' and e[2] == 'prev']
                ok = len(st_next) >= 1 and len(st_prev) >= 1
            ctx.check(ok, 'unlink-before-free:%s' % key.split('::')[-1],
                      "%s: a node taken back into a box is dropped/consumed only after its predecessor's next and its successor's prev were redirected "
                      '(a stale prev/next would be followed into freed — and soon reused — memory)' % short(key), f.where_path(path),
                      {'kill_events': len(kill)})
        ctx.floor('re-boxing paths of %s' % short(key), n, 1)
        # sentinels are never freed: whatever destroys a re-boxed node is guarded by "this node has a successor" (= it is not the tail),
        # tested on the very node (the walked pointer is not advanced between the test and the destruction)
        from .engine.helpers import _chase, _single_def
        kills = [s.b for s in f.calls() if s.name in ('std::mem::drop', 'des_cqueue::stable::linked_list::EventNode::into_inner') and s.argtys and 'LocalBox' in s.argtys[0]]
        kills += [b for b in sorted(f.reachable()) if not f.is_cleanup(b) and f.term(b)['k'] == 'drop' and 'LocalBox' in f.term(b)['ty'] and 'EventNode' in f.term(b)['ty']]
        if ctx.floor('node destruction sites in %s' % short(key), len(kills), 1):
            for kb in kills:
                # path-based: on every path that reaches the destruction, the most recent end-of-list test (`<node>.next.is_null()`)
                # was negative and the walked pointer was not advanced after it
                ok = True
                n_k = 0
                for path, outcome, decs in fn_paths(ctx, f):
                    if kb not in path or outcome not in ('return', 'panic'):
                        continue
                    if outcome == 'panic':
                        continue
                    n_k += 1
                    upto = path[:path.index(kb) + 1]
                    last = None
                    ptr_blocks = 0
                    dmap = {}
                    di = 0
                    for idx, blk in enumerate(upto):
                        t = f.term(blk)
                        if t['k'] == 'switch' and di < len(decs) and decs[di][0] == blk:
                            (_, a) = path_atoms(f, path, [decs[di]])[0]
                            di += 1
                            ln_ = link_null_truth(a)
                            if ln_ is not None and any(x[0] == 'field' and x[2] == 'next' for x in walk(ln_[1])):
                                last = (idx, blk, ln_[0])
                    if last is None and _yielded_with_successor(ctx, f, kb):
                        # the walk lives in a private iterator whose `next` yields a node only after finding its successor non-null
                        continue
                    if last is None or last[2] is not False:
                        ok = False
                        continue
                    # base pointer of the tested node
                    sblk = last[1]
                    nul = [c for c in f.calls() if c.name.endswith('::is_null') and f.dominates(c.b, sblk) and any(x[0] == 'field' and x[2] == 'next' for x in walk(f.expr_operand(c.args[0], c.b, 'T')))]
                    base = None
                    if nul:
                        op = nul[-1].args[0]
                        st = _single_def(f, op['p']['l']) if op.get('k') in ('copy', 'move') and not op['p']['pr'] else None
                        o2 = st['r'].get('o') if st is not None and st['r']['k'] == 'use' else None
                        if o2 is not None and o2.get('k') in ('copy', 'move') and o2['p']['pr']:
                            base = o2['p']['l']
                    if base is not None:
                        after = upto[last[0] + 1:]
                        if any(d[0] == base and d[1] in after for d in f._defs()):
                            ok = False
                ok = ok and n_k >= 1
                ctx.check(ok, 'sentinel-never-freed:%s' % key.split('::')[-1],
                          '%s: a node is destroyed only after it was found to have a successor (it is not the tail sentinel, which the list still owns): the end-of-list test precedes every inspection that can lead to a removal'
                          % short(key), f.where(kb))


def _yielded_with_successor(ctx, f, kb):
    """the box destroyed in block kb was rebuilt (LocalBox::from_raw_in) from a pointer that a local Iterator yielded (directly via
    `next`, or through `find`, which hands on an item of `next` unchanged), and every path of that iterator's `next` that returns
    Some(p) has tested `(*p).next.is_null()` negative before: a yielded node is never the tail sentinel"""
    P = ctx.P
    rb = [c for c in f.calls() if c.name == LB + '::from_raw_in' and f.dominates(c.b, kb)]
    if not rb:
        return False
    t = peel(f.expr_operand(rb[-1].args[0], rb[-1].b, 'T'))
    if not (t[0] == 'field' and t[2] == '0' and peel(t[1])[0] == 'as' and peel(t[1])[2] == 'Some'):
        return False
    src = peel(peel(t[1])[1])
    if not (src[0] == 'call' and src[1] in ('std::iter::Iterator::find', 'std::iter::Iterator::next') or (src[0] == 'call' and is_next(src))):
        return False
    # (a) std adaptor chain: the item passed `take_while(|n| !(*n).next.is_null())` / `filter(..)` and nothing re-maps it afterwards
    recv = peel_c(src[2][0]) if src[2] else None
    while recv is not None and recv[0] == 'call' and recv[1].split('::')[-1] in ('into_iter', 'by_ref', 'peekable', 'fuse') and recv[2]:
        recv = peel_c(recv[2][0])
    if recv is not None and recv[0] == 'call' and recv[1] in ('std::iter::Iterator::take_while', 'std::iter::Iterator::filter') and len(recv[2]) == 2:
        cl = peel(recv[2][1])
        g = P.fns.get(cl[1][len('closure:'):]) if cl[0] == 'agg' and str(cl[1]).startswith('closure:') else None
        if g is not None:
            ctx.touch(g)
            rts = [peel(t2) for _, t2 in ret_trees(g)]
            def has_succ(t2):
                if not (t2[0] == 'un' and t2[1] == 'Not'):
                    return False
                c = peel(t2[2])
                if not (c[0] == 'call' and c[1].endswith('::is_null') and c[2]):
                    return False
                sub = peel(c[2][0])
                base = peel_c(sub[1]) if sub[0] == 'field' and sub[2] == 'next' else None
                return base is not None and base[0] == 'arg' and base[1] == 2
            if rts and all(has_succ(t2) for t2 in rts):
                return True
        return False
    sites = [c for c in f.calls() if c.name == src[1] and c.argtys]
    if len(sites) != 1:
        return False
    from .engine.core import _deref_ty
    ity = strip_generics(_deref_ty(sites[0].argtys[0]))
    gs = [g for g in P.impls_of_trait_method('std::iter::Iterator', 'next') if g.self_adt and strip_generics(g.self_adt) == ity]
    if len(gs) != 1:
        return False
    g = gs[0]
    ctx.touch(g)
    n = 0
    for path, outcome, decs in fn_paths(ctx, g):
        if outcome != 'return':
            continue
        r = path_ret_resolved(g, path)
        r = peel(r) if r is not None else None
        if r is None or r[0] != 'agg':
            return False
        if str(r[1]).endswith('::None'):
            continue
        if not str(r[1]).endswith('::Some') or not r[2]:
            return False
        n += 1
        item = canon(peel(r[2][0]))
        guarded = False
        for _, a in path_atoms(g, path, decs):
            if a and a[0] == 'bool' and a[2] is False and a[1][0] == 'call' and a[1][1].endswith('::is_null') and a[1][2]:
                sub = peel(a[1][2][0])
                if sub[0] == 'field' and sub[2] == 'next' and canon(peel_c(sub[1])) == item:
                    guarded = True
        if not guarded:
            return False
    return n >= 1


def _is_node_ptr(t):
    return any(x[0] in ('rawref',) or (x[0] == 'call' and x[1].endswith('deref_mut')) for x in walk(t)) or True


def _null_decisions(atoms):
    return sum(1 for a in atoms if a[0] == 'bool' and a[1][0] == 'call' and a[1][1].endswith('::is_null') and a[2] is True)


def r5_drain_before_allocator(ctx, rule='C15.R5'):
    ctx.set_rule(rule)
    P = ctx.P
    q = P.adts.get('des_cqueue::stable::CQueue')
    if not ctx.check(q is not None, 'cqueue-adt', 'CQueue type present'):
        return
    names = [fl['n'] for v in q['variants'] for fl in v['fields']]
    alloc_i = next((i for i, fl in enumerate(q['variants'][0]['fields']) if 'CQueueLLAllocatorInner' in fl['ty']), None)
    buck_i = next((i for i, fl in enumerate(q['variants'][0]['fields']) if 'DualLinkedList' in fl['ty']), None)
    fd = P.fns.get('<des_cqueue::stable::CQueue as std::ops::Drop>::drop')
    if alloc_i is not None and buck_i is not None and alloc_i < buck_i:
        # the allocator field is dropped before the buckets: CQueue::drop must have emptied them
        ok = False
        if fd:
            dr = [s for s in fd.calls() if s.name == 'std::vec::Vec::drain' and receiver_field(fd.expr_operand(s.args[0], s.b, 'T')) == names[buck_i]]
            full = bool(dr) and any(x[0] == 'agg' and 'RangeFull' in x[1] for x in walk(fd.expr_operand(dr[0].args[1], dr[0].b, 'T')))
            ok = full
            if not ok:
                # equivalent: Vec::clear / truncate(0) drops every element in place, unconditionally
                for s2 in fd.calls():
                    m = s2.name
                    if m in ('std::vec::Vec::clear', 'std::vec::Vec::truncate') and s2.args and receiver_field(fd.expr_operand(s2.args[0], s2.b, 'T')) == names[buck_i] \
                            and all(fd.dominates(s2.b, r) for r in fd.return_blocks()):
                        if m.endswith('clear') or peel(fd.expr_operand(s2.args[1], s2.b, 'T')) == ('int', 0):
                            ok = True
            if not ok:
                # equivalent: the whole vector is moved out (mem::take / mem::replace with an empty Vec) and dropped inside drop()
                for s2 in fd.calls():
                    if s2.name in ('std::mem::take', 'std::mem::replace') and s2.args and receiver_field(fd.expr_operand(s2.args[0], s2.b, 'T')) == names[buck_i]:
                        if s2.name == 'std::mem::take' or any(x[0] == 'call' and x[1].endswith('Vec::new') for x in walk(fd.expr_operand(s2.args[1], s2.b, 'T'))):
                            # the moved-out value must not escape: drop() returns () and does not store it back
                            ok = not any(e for e in fd.writes_to_field(names[buck_i]))
        ctx.check(ok, 'drain-before-allocator', 'the allocator field is declared (and dropped) before the bucket vector, so CQueue::drop drains every bucket first',
                  fd.where() if fd else None, {'alloc_field_index': alloc_i, 'buckets_field_index': buck_i})
    else:
        ctx.ok('the bucket vector is declared before the allocator: field drop order already frees nodes first', None, names)
    fl = ctx.anchor('<%s as std::ops::Drop>::drop' % L)
    if fl:
        pm = fl.calls_to(L + '::pop_min')
        ok = len(pm) == 1 and bool(fl.loops_containing(pm[0].b))
        if ok:
            for path, outcome, decs in fn_paths(ctx, fl):
                if outcome != 'return':
                    continue
                # the loop is left only after pop_min reported an empty list (is_some() == false, or a `None` pattern)
                outs = [r for _, r in call_outcomes(fl, path, decs, 'std::option::Option::is_some')]
                outs2 = [r for _, r in call_outcomes(fl, path, decs, L + '::pop_min')]
                ok = ok and ((bool(outs) and outs[-1] is False) or (bool(outs2) and outs2[-1] == 'None'))
        ctx.check(ok, 'list-drop-pops-all', 'DualLinkedList::drop pops (and thereby drops) every remaining node', fl.where())
    # the list's sentinels are boxes owned by the list and freed after the loop by field drop
    la = P.adts.get(L)
    if la:
        tys = [fl2['ty'] for fl2 in la['variants'][0]['fields']]
        ctx.check(sum(1 for t in tys if 'LocalBox' in t) == 2, 'sentinels-owned', 'head and tail sentinels are owned boxes of the list', None, tys)


_DUP_RE = re.compile(r'^std::(ptr::((mut_ptr|const_ptr|non_null)::)?(NonNull::)?(read|read_volatile|read_unaligned|copy|copy_nonoverlapping|copy_to|copy_from|'
                     r'copy_to_nonoverlapping|copy_from_nonoverlapping|replace)|mem::transmute_copy|mem::ManuallyDrop::take)$')
_PLAIN = re.compile(r'^(\*(mut|const) .*|[ui](8|16|32|64|128|size)|f32|f64|bool|char|\(\)|std::time::Duration|std::alloc::Layout)$')


def r7_single_owner(ctx, rule='C15.R7'):
    """exactly-once, the ownership half: a bitwise copy of a value that owns something (a node, a payload, anything that is not plain
    data) makes a second owner, and both owners run the destructor.  In des-cqueue no function makes such a copy — values move
    (`Option::take`, by-value returns) — so the rule is: every duplicating primitive in the crate copies plain data only, unless the
    copied-from owner is given up (`mem::forget` / `ManuallyDrop::new`) on every returning path through the copy."""
    ctx.set_rule(rule)
    P = ctx.P
    fns = [f for k, f in sorted(P.fns.items()) if k.startswith('des_cqueue::') or k.startswith('<des_cqueue::')]
    if not ctx.floor('functions of des-cqueue scanned for duplicating reads', len(fns), 30):
        return
    n_sites = 0
    for f in fns:
        for s in f.calls():
            if not _DUP_RE.match(s.name or ''):
                continue
            n_sites += 1
            ty = (s.targs or ['?'])[0]
            if s.name.endswith('::replace'):
                continue    # ptr::replace moves the old value out and a new one in: one owner each
            if _PLAIN.match(ty):
                ctx.ok('%s copies plain data (%s)' % (s.name, ty), s.where())
                continue
            given_up = True
            n_p = 0
            for path, outcome, decs in fn_paths(ctx, f):
                if outcome != 'return' or s.b not in path:
                    continue
                n_p += 1
                evs = path_stream(f, path, decs)
                if not any(e[0] == 'c' and e[1].name in LEAKS for e in evs):
                    given_up = False
            ctx.check(given_up and n_p >= 1, 'second-owner:%s' % f.key.split('::')[-1],
                      'a bitwise copy (%s) of a value of type %s makes a second owner of the node/payload: both owners run the destructor '
                      '(the payload is dropped twice) unless the source is forgotten on every path' % (s.name, ty), s.where(), {'type': ty})
    ctx.ok('duplicating primitives in des-cqueue: %d site(s), all plain data or with the source given up' % n_sites, None)


def r6_page_extent(ctx):
    """the allocator only hands out memory it owns: the extent registered as free for a fresh page is the extent that was requested from
    the system allocator for it, and the page is given back with the layout it was requested with"""
    ctx.set_rule('C15.R6')
    P = ctx.P
    INNER = A + 'CQueueLLAllocatorInner'
    def layout_of(f, s_):
        # (size, align) of the Layout argument of an alloc/dealloc call, if it is written as from_size_align(size, align)
        for a in s_.args:
            t = peel(f.expr_operand(a, s_.b, 'T'))
            while t[0] == 'call' and str(t[1]).split('::')[-1] in ('expect', 'unwrap', 'unwrap_unchecked') and t[2]:
                t = peel(t[2][0])
            if t[0] == 'call' and str(t[1]).endswith('Layout::from_size_align') and len(t[2]) == 2:
                return canon(peel(t[2][0])), canon(peel(t[2][1]))
            if t[0] == 'call' and str(t[1]).endswith('Layout::from_size_align_unchecked') and len(t[2]) == 2:
                return canon(peel(t[2][0])), canon(peel(t[2][1]))
        return None
    got = None
    n = 0
    for f in P.scope_of(INNER + '::add_page'):
        allocs = [c for c in f.calls() if c.name in ('std::alloc::alloc_zeroed', 'std::alloc::alloc')]
        regs = [c for c in f.calls() if c.name == INNER + '::add_free_region']
        for c in allocs:
            lay = layout_of(f, c)
            if lay is None:
                ctx.note('page request in %s with a layout this rule cannot read' % f.key)
                continue
            got = lay
            for r in regs:
                start = f.expr_operand(r.args[1], r.b, 'T')
                if not any(x[0] == 'call' and x[1] == c.name for x in walk(start)):
                    continue
                n += 1
                size = canon(peel(f.expr_operand(r.args[2], r.b, 'T')))
                ctx.check(size == lay[0], 'free-extent-is-requested-extent', 'a fresh page is registered as free with exactly the size requested for it', r.where(),
                          {'requested': show_c(lay[0])[:80], 'registered': show_c(size)[:80]})
    ctx.floor('page registrations', n, 1)
    dr = [h for k, h in P.fns.items() if k.endswith('::drop') and 'CQueueLLAllocatorInner' in k and h.trait and 'Drop' in h.trait]
    if ctx.floor('Drop of the allocator', len(dr), 1) and got is not None:
        h = dr[0]
        for c in h.calls():
            if c.name == 'std::alloc::dealloc':
                lay = layout_of(h, c)
                if lay is None:
                    ctx.note('page release with a layout this rule cannot read')
                    continue
                ctx.check(lay == got, 'page-released-as-requested', 'a page is given back with the layout it was requested with', c.where(),
                          {'requested': [show_c(x)[:60] for x in got], 'released': [show_c(x)[:60] for x in lay]})


def run(ctx):
    r6_page_extent(ctx)
    r1_aligned_pointer(ctx)
    r2_fit(ctx)
    r3_size_agreement(ctx)
    r4_node_typestate(ctx)
    r5_drain_before_allocator(ctx)
    r7_single_owner(ctx)
    # (R8, shared with C01.R3) a cancelled payload is dropped at cancel — which it is only if cancel searches the container add placed
    # the event in, for every weak ordering of (event time, bound at add, bound at cancel); an event cancel does not find keeps its
    # payload alive and hands it out later
    from .C01 import r3_container_agreement
    r3_container_agreement(ctx, rule='C15.R8')

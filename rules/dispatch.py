"""Shared view of the runtime's dispatch step (used by C02, C10, C11).

On the pinned tree one step is the private function `Runtime::dispatch_event` (returns true = stop), called in the loop of
`Runtime::dispatch_all`.  A maintainer may inline it into that loop (or split it into helpers, which the engine splices back);
the rules therefore quantify over *iterations*: paths of dispatch_event, or — when that function no longer exists — paths through
one turn of the loop of dispatch_all that contains the Event::handle call (back to the loop header = continue, leaving = stop)."""
from .engine.helpers import *

RT = 'des::runtime::Runtime'
HANDLE = 'des::runtime::event::types::Event::handle'


class Iteration:
    def __init__(self, f, path, decs, stops):
        self.f, self.path, self.decs, self.stops = f, path, decs, stops
        self._atoms = None
        self._effs = None

    @property
    def atoms(self):
        if self._atoms is None:
            self._atoms = [a for _, a in path_atoms(self.f, self.path, self.decs)]
        return self._atoms

    @property
    def effs(self):
        if self._effs is None:
            self._effs = path_effects(self.f, self.path)
        return self._effs

    def stream(self):
        return path_stream(self.f, self.path, self.decs)

    def where(self):
        return self.f.where_path(self.path)


def _continue_test(P):
    """how the dispatch loop reads the step's result: (kind, value) such that the loop goes round again iff
       kind 'bool'    : the returned bool equals value                (`while !self.dispatch_event() {}` -> ('bool', False))
       kind 'variant' : the returned enum is in variant value         (`while let ControlFlow::Continue(()) = ..`, `.is_continue()`)
    None if no loop around a call of the step is found or its test is not about the result alone."""
    step = RT + '::dispatch_event'
    for g in P.fn_list:
        if g.kind == 'promoted':
            continue
        for s in g.calls():
            if s.name != step or not g.loops_containing(s.b):
                continue
            h = innermost_loop(g, s.b)
            found = set()
            for path, outcome, decs in g.enum_paths(start=h, stop_at={h}):
                if outcome != 'stop' or s.b not in path:
                    continue
                for _, a in path_atoms(g, path, decs):
                    subj = a[1] if len(a) > 1 else None
                    if not isinstance(subj, tuple) or not any(x[0] == 'call' and x[1] == step for x in walk(subj)):
                        continue
                    sp = peel_c(subj)
                    if a[0] == 'bool' and sp[0] == 'call' and sp[1] == step:
                        found.add(('bool', a[2]))
                    elif a[0] == 'bool' and sp[0] == 'call' and sp[1].split('::')[-1] in ('is_continue', 'is_break') and sp[2] and peel_c(sp[2][0])[0] == 'call' and peel_c(sp[2][0])[1] == step:
                        is_c = sp[1].endswith('is_continue')
                        found.add(('variant', 'Continue' if a[2] == is_c else 'Break'))
                    elif a[0] == 'is' and sp[0] == 'call' and sp[1] == step and isinstance(a[2], str):
                        found.add(('variant', a[2]))
                    elif a[0] == 'isnot' and sp[0] == 'call' and sp[1] == step:
                        vs = [a[2]] if isinstance(a[2], str) else list(a[2])
                        other = {'Continue': 'Break', 'Break': 'Continue'}
                        if len(vs) == 1 and vs[0] in other:
                            found.add(('variant', other[vs[0]]))
                        else:
                            found.add(('?', None))
                    else:
                        found.add(('?', None))
            if len(found) == 1 and ('?', None) not in found:
                return next(iter(found))
    return None


def _stops(P, f, path, decs, test):
    """does this returning path of the step end the dispatch loop?  (None = cannot tell)"""
    if test is None:
        return None
    kind, want = test
    if kind == 'bool':
        v = path_truth(f, path, decs, path_ret(f, path))
        return None if v is None else (v != want)
    r = path_ret_resolved(f, path)
    r = peel(r) if r is not None else None
    if r is not None and r[0] == 'agg' and isinstance(r[1], str):
        return r[1].split('::')[-1] != want
    return None


def counter_field(ctx, cfg='A'):
    """role: the dispatch counter = the field of Runtime that a dispatching step replaces by its old value + 1 (`itr` on the
    pinned tree); None if there is no such single field"""
    key = ('counter_field', cfg)
    if key in ctx.__dict__.setdefault('_roles', {}):
        return ctx._roles[key]
    f, its, form = dispatch_iterations(ctx, cfg)
    cands = None
    for it in its:
        if not any(e[0] == 'c' and e[1].callee == HANDLE for e in it.effs):
            continue
        here = set()
        for e in it.effs:
            # (a field of Runtime, or of a private record of the runtime module that Runtime embeds: `progress: Progress { limit, dispatched }`)
            if e[0] != 'w':
                continue
            adt = str(e[3] or '')
            if not (adt.startswith(RT) or (adt.startswith('des::runtime::') and 'bench' not in adt and 'Profiler' not in adt)):
                continue
            if e[1] == 'inc':
                here.add(e[2])
                continue
            if e[4] is None:
                continue
            v = peel(e[4])
            v = v[1] if (v[0] == 'field' and v[1][0] == 'bin') else v
            if v[0] == 'bin' and v[1].startswith('Add') and ('int', 1) in (peel(v[2]), peel(v[3])) and \
                    any(peel(x)[0] == 'field' and peel(x)[2] == e[2] for x in (v[2], v[3])):
                here.add(e[2])
        cands = here if cands is None else (cands & here)
    res = next(iter(cands)) if cands and len(cands) == 1 else None
    ctx._roles[key] = res
    return res


def limit_fields(ctx, cfg='A'):
    """role: where the governing limit lives.  Returns (base, override): the dispatch step asks `self.<base>` (pinned: `limit`), or — after
    a private representation change — `self.<override>.as_ref().unwrap_or(&self.<base>)` with `<override>: Option<RuntimeLimit>` holding
    the limit of the step that is executing.  (None, None) if the receiver of the limit test has neither shape."""
    key = ('limit_fields', cfg)
    if key in ctx.__dict__.setdefault('_roles', {}):
        return ctx._roles[key]
    f, its, form = dispatch_iterations(ctx, cfg)
    res = (None, None)
    if f is not None:
        for s in f.calls_to('des::runtime::limit::RuntimeLimit::applies'):
            r = peel(f.expr_operand(s.args[0], s.b, 'T'))
            if r[0] == 'field':
                res = (r[2], None)
            elif r[0] == 'call' and r[1] == 'std::option::Option::unwrap_or' and len(r[2]) == 2:
                o, b = peel_c(r[2][0]), peel_c(r[2][1])
                while o[0] == 'call' and o[1].split('::')[-1] in ('as_ref', 'as_deref') and o[2]:
                    o = peel_c(o[2][0])
                if o[0] == 'field' and b[0] == 'field':
                    res = (b[2], o[2])
            break
    ctx._roles[key] = res
    return res


def dispatch_iterations(ctx, cfg='A'):
    """(function holding the step, [Iteration], form) ; form = 'function' | 'loop' ; (None, [], None) if unresolvable"""
    P = ctx.progs[cfg]
    f = P.fns.get(RT + '::dispatch_event')
    if f is not None:
        its = []
        test = _continue_test(P)
        for path, outcome, decs in fn_paths(ctx, f):
            if outcome != 'return':
                continue
            its.append(Iteration(f, path, decs, _stops(P, f, path, decs, test)))
        return f, its, 'function'
    for g in P.scope_of(RT + '::dispatch_event'):
        hs = [s for s in g.calls() if s.callee == HANDLE and g.loops_containing(s.b)]
        if not hs:
            continue
        h = innermost_loop(g, hs[0].b)
        its = []
        for path, outcome, decs in g.enum_paths(start=h, stop_at={h}):
            if not consistent(g, path, decs):
                continue
            if outcome == 'stop':
                its.append(Iteration(g, path, decs, False))
            elif outcome == 'return':
                its.append(Iteration(g, path, decs, True))
        ctx.paths += len(its)
        return g, its, 'loop'
    return None, [], None


def frame_component(P, t):
    """which part of a fetched frame a projection denotes: ('time'|'event', frame tree) or None.  The frame is the (event, time)
    tuple fetch_next returns, or a private two-field record with exactly one SimTime field (`Scheduled { event, time }`)"""
    t = peel(t)
    if t[0] != 'field':
        return None
    if t[2] in ('0', '1') and (len(t) < 4 or not str(t[3]).startswith('des')):
        return ('time' if t[2] == '1' else 'event', _some_payload(peel(t[1])))
    adt = P.adts.get(strip_generics(t[3])) if len(t) > 3 and t[3] else None
    if adt is None or len(adt.get('variants', [])) != 1:
        return None
    fs = adt['variants'][0]['fields']
    times = [x for x in fs if x['ty'] == 'des::time::SimTime']
    if len(fs) != 2 or len(times) != 1:
        return None
    return ('time' if t[2] == times[0]['n'] else 'event', _some_payload(peel(t[1])))


def _some_payload(fr):
    """the frame behind `(x as Some).0`: fetch_next may hand the frame out as Option (None for an exhausted set, the emptiness test moved
    into the callee)"""
    if fr[0] == 'field' and fr[2] == '0':
        y = peel(fr[1])
        if y[0] == 'as' and y[2] == 'Some':
            return peel(y[1])
    return fr

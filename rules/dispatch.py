"""Shared view of the runtime's dispatch step (used by C02, C10, C11).

On the pinned tree one step is the private function `Runtime::dispatch_event` (returns true = stop), called in the loop of
`Runtime::dispatch_all`.  A maintainer may inline it into that loop (or split it into helpers, which the engine splices back);
the rules therefore quantify over *iterations*: paths of dispatch_event, or — when that function no longer exists — paths through
one turn of the loop of dispatch_all that contains the Event::handle call (back to the loop header = continue, leaving = stop)."""
from .engine.helpers import *

RT = 'des::runtime::Runtime'
HANDLE = 'des::runtime::event::types::Event::handle'


class Iteration:
    def __init__(self, f, path, decs, stops):
        self.f, self.path, self.decs, self.stops = f, path, decs, stops
        self._atoms = None
        self._effs = None

    @property
    def atoms(self):
        if self._atoms is None:
            self._atoms = [a for _, a in path_atoms(self.f, self.path, self.decs)]
        return self._atoms

    @property
    def effs(self):
        if self._effs is None:
            self._effs = path_effects(self.f, self.path)
        return self._effs

    def stream(self):
        return path_stream(self.f, self.path, self.decs)

    def where(self):
        return self.f.where_path(self.path)


def dispatch_iterations(ctx, cfg='A'):
    """(function holding the step, [Iteration], form) ; form = 'function' | 'loop' ; (None, [], None) if unresolvable"""
    P = ctx.progs[cfg]
    f = P.fns.get(RT + '::dispatch_event')
    if f is not None:
        its = []
        for path, outcome, decs in fn_paths(ctx, f):
            if outcome != 'return':
                continue
            its.append(Iteration(f, path, decs, path_truth(f, path, decs, path_ret(f, path))))
        return f, its, 'function'
    for g in P.scope_of(RT + '::dispatch_event'):
        hs = [s for s in g.calls() if s.callee == HANDLE and g.loops_containing(s.b)]
        if not hs:
            continue
        h = innermost_loop(g, hs[0].b)
        its = []
        for path, outcome, decs in g.enum_paths(start=h, stop_at={h}):
            if not consistent(g, path, decs):
                continue
            if outcome == 'stop':
                its.append(Iteration(g, path, decs, False))
            elif outcome == 'return':
                its.append(Iteration(g, path, decs, True))
        ctx.paths += len(its)
        return g, its, 'loop'
    return None, [], None

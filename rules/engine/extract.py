"""Obtain MIR facts for a repository tree + feature configuration (cached by content hash)."""
import fcntl, hashlib, os, shutil, subprocess, sys, time

VERIF = os.path.dirname(os.path.dirname(os.path.dirname(os.path.abspath(__file__))))
CACHE = os.path.join(VERIF, '.cache')
DRIVER = os.path.join(VERIF, 'driver', 'target', 'release', 'desfacts')
MEMBERS = ['des', 'des-cqueue', 'des-net-utils', 'des-macros-core']
CRATES = ['des', 'des_cqueue', 'des_net_utils', 'des_macros_core']

CONFIGS = {
    # name: (cargo args for the des package, description)
    'A': ([], 'default features (full): cqueue event set, async, net, macros'),
    'B': (['--no-default-features', '-F', 'des/net,des/async,des/macros,des/serde,des/tracing,des/unstable-tokio-enable-time'],
          'BinaryHeap event set (cqueue feature off)'),
}


class ExtractError(Exception):
    pass


def _sysroot():
    return subprocess.check_output(['rustc', '+nightly', '--print', 'sysroot'], text=True).strip()


def tree_hash(repo):
    """sha256 over every source/config file cargo would look at (tracked or not), excluding target/"""
    h = hashlib.sha256()
    files = []
    for root, dirs, fs in os.walk(repo):
        dirs[:] = sorted(d for d in dirs if d not in ('target', '.git', 'node_modules'))
        for f in sorted(fs):
            if f.endswith(('.rs', '.toml', '.lock', '.yml', '.yaml')):
                files.append(os.path.join(root, f))
    for p in files:
        h.update(os.path.relpath(p, repo).encode())
        h.update(b'\0')
        try:
            with open(p, 'rb') as fh:
                h.update(fh.read())
        except OSError:
            pass
        h.update(b'\0')
    try:
        with open(DRIVER, 'rb') as fh:
            h.update(hashlib.sha256(fh.read()).digest())
    except OSError:
        pass
    return h.hexdigest()[:24]


def build_driver():
    if os.path.exists(DRIVER):
        src_m = max(os.path.getmtime(os.path.join(VERIF, 'driver', 'src', f)) for f in os.listdir(os.path.join(VERIF, 'driver', 'src')))
        if os.path.getmtime(DRIVER) >= src_m:
            return
    env = dict(os.environ, CARGO_NET_OFFLINE='true')
    r = subprocess.run(['cargo', '+nightly', 'build', '--release', '--offline'], cwd=os.path.join(VERIF, 'driver'),
                       env=env, stdout=subprocess.PIPE, stderr=subprocess.STDOUT, text=True)
    if r.returncode != 0:
        raise ExtractError('driver build failed:\n' + r.stdout[-3000:])


def get_facts(repo='/repo', cfg='A', verbose=False):
    """returns (fact_dir, info) ; raises ExtractError if the configuration does not build"""
    os.makedirs(CACHE, exist_ok=True)
    # DESFACTS_SLOT (development only: tools/regress.py --jobs) selects a private lock + cargo target directory, so that several
    # scratch trees can be extracted in parallel; callers must not request the same tree from two slots at once
    sfx = ('-s' + os.environ['DESFACTS_SLOT']) if os.environ.get('DESFACTS_SLOT') else ''
    lock = open(os.path.join(CACHE, 'extract.lock' + sfx), 'w')
    fcntl.flock(lock, fcntl.LOCK_EX)
    try:
        build_driver()
        key = tree_hash(repo)
        out = os.path.join(CACHE, 'facts', key, cfg)
        marker = os.path.join(out, '.complete')
        if os.path.exists(marker):
            try:
                os.utime(os.path.join(CACHE, 'facts', key))
            except OSError:
                pass
            return out, {'cached': True, 'key': key}
        failed = os.path.join(out, '.failed')
        if os.path.exists(failed):
            raise ExtractError(open(failed).read())
        shutil.rmtree(out, ignore_errors=True)
        os.makedirs(out)
        target = os.path.join(CACHE, 'target-' + cfg + sfx)
        # cargo's freshness cache would skip the wrapper for unchanged members: drop their fingerprints
        fp = os.path.join(target, 'debug', '.fingerprint')
        if os.path.isdir(fp):
            for d in os.listdir(fp):
                if d.startswith(('des-', 'benches-', 'examples-')):
                    shutil.rmtree(os.path.join(fp, d), ignore_errors=True)
        env = dict(os.environ)
        env.update({
            'LD_LIBRARY_PATH': _sysroot() + '/lib' + (':' + env['LD_LIBRARY_PATH'] if env.get('LD_LIBRARY_PATH') else ''),
            'RUSTFLAGS': '--cfg tokio_unstable -Zmir-opt-level=0 -Awarnings',
            'RUSTC_WORKSPACE_WRAPPER': DRIVER,
            'DESFACTS_OUT': out,
            'DESFACTS_CRATES': ','.join(CRATES),
            'CARGO_TARGET_DIR': target,
            'CARGO_NET_OFFLINE': 'true',
            'CARGO_INCREMENTAL': '0',
        })
        env.pop('RUSTC_WRAPPER', None)
        cmd = ['cargo', '+nightly', 'check', '--offline', '--locked']
        for m in MEMBERS:
            cmd += ['-p', m]
        cmd += CONFIGS[cfg][0]
        t0 = time.time()
        r = subprocess.run(cmd, cwd=repo, env=env, stdout=subprocess.PIPE, stderr=subprocess.STDOUT, text=True)
        if verbose:
            sys.stderr.write(r.stdout[-2000:])
        missing = [c for c in CRATES if not os.path.exists(os.path.join(out, c + '.json'))]
        if r.returncode != 0 or missing:
            msg = 'configuration %s of %s is not analysable (cargo check exit %d, missing facts: %s)\n%s' % (
                cfg, repo, r.returncode, missing, r.stdout[-4000:])
            with open(failed, 'w') as fh:
                fh.write(msg)
            raise ExtractError(msg)
        with open(marker, 'w') as fh:
            fh.write('%.1f\n' % (time.time() - t0))
        _prune(os.path.join(CACHE, 'facts'), keep=key)
        return out, {'cached': False, 'key': key, 'seconds': time.time() - t0}
    finally:
        fcntl.flock(lock, fcntl.LOCK_UN)
        lock.close()


def _prune(root, keep, max_entries=None):
    max_entries = max_entries or int(os.environ.get('DESFACTS_CACHE_MAX', '48'))
    try:
        ents = [(os.path.getmtime(os.path.join(root, d)), d) for d in os.listdir(root) if d != keep]
    except OSError:
        return
    ents.sort()
    while len(ents) > max_entries:
        _, d = ents.pop(0)
        shutil.rmtree(os.path.join(root, d), ignore_errors=True)


if __name__ == '__main__':
    repo = sys.argv[1] if len(sys.argv) > 1 else '/repo'
    cfg = sys.argv[2] if len(sys.argv) > 2 else 'A'
    print(get_facts(repo, cfg, verbose=True))


def get_witness_facts(repo='/repo'):
    """MIR facts of the witness crate (derive witnesses): returns fact dir containing des_witness.json"""
    if repo != '/repo':
        raise ExtractError('witness crate names /repo by path; skipped for scratch repositories')
    os.makedirs(CACHE, exist_ok=True)
    lock = open(os.path.join(CACHE, 'extract.lock'), 'w')
    fcntl.flock(lock, fcntl.LOCK_EX)
    try:
        build_driver()
        wdir = os.path.join(VERIF, 'witness')
        h = hashlib.sha256(tree_hash(repo).encode())
        for root, dirs, fs in os.walk(os.path.join(wdir, 'src')):
            for f in sorted(fs):
                h.update(open(os.path.join(root, f), 'rb').read())
        key = h.hexdigest()[:24]
        out = os.path.join(CACHE, 'facts-witness', key)
        if os.path.exists(os.path.join(out, 'des_witness.json')):
            return out
        shutil.rmtree(os.path.join(CACHE, 'facts-witness'), ignore_errors=True)
        os.makedirs(out)
        target = os.path.join(CACHE, 'target-witness-facts')
        fp = os.path.join(target, 'debug', '.fingerprint')
        if os.path.isdir(fp):
            for d in os.listdir(fp):
                if d.startswith('des-witness'):
                    shutil.rmtree(os.path.join(fp, d), ignore_errors=True)
        env = dict(os.environ)
        env.update({
            'LD_LIBRARY_PATH': _sysroot() + '/lib',
            'RUSTFLAGS': '--cfg tokio_unstable -Zmir-opt-level=0 -Awarnings',
            'RUSTC_WORKSPACE_WRAPPER': DRIVER,
            'DESFACTS_OUT': out,
            'DESFACTS_CRATES': 'des_witness',
            'CARGO_TARGET_DIR': target,
            'CARGO_NET_OFFLINE': 'true',
            'CARGO_INCREMENTAL': '0',
        })
        r = subprocess.run(['cargo', '+nightly', 'check', '--offline'], cwd=wdir, env=env, stdout=subprocess.PIPE, stderr=subprocess.STDOUT, text=True)
        if r.returncode != 0 or not os.path.exists(os.path.join(out, 'des_witness.json')):
            raise ExtractError('witness crate not analysable: ' + r.stdout[-2000:])
        return out
    finally:
        fcntl.flock(lock, fcntl.LOCK_UN)
        lock.close()

"""Compile-fail witnesses (thorough tier): `cargo +nightly test --doc` in /verif/witness."""
import os, re, subprocess
from .extract import VERIF, CACHE


def run_witnesses(prefixes, repo='/repo'):
    """returns dict name -> 'ok' | 'FAILED' | 'missing' for doc tests whose item name starts with one of prefixes"""
    if repo != '/repo':
        return {'_skipped': 'witnesses name /repo by path; skipped for scratch repositories'}
    wdir = os.path.join(VERIF, 'witness')
    env = dict(os.environ, CARGO_TARGET_DIR=os.path.join(CACHE, 'target-witness'), CARGO_NET_OFFLINE='true')
    env.pop('RUSTFLAGS', None)
    # keep the lock file in step with the repository's
    try:
        src = open(os.path.join(repo, 'Cargo.lock')).read()
        if not os.path.exists(os.path.join(wdir, 'Cargo.lock')):
            open(os.path.join(wdir, 'Cargo.lock'), 'w').write(src)
    except OSError:
        pass
    r = subprocess.run(['cargo', '+nightly', 'test', '--doc', '--offline'], cwd=wdir, env=env, stdout=subprocess.PIPE, stderr=subprocess.STDOUT, text=True)
    out = {}
    for m in re.finditer(r'^test src/lib\.rs - (\w+) \(line \d+\)( - compile fail)? \.\.\. (\w+)', r.stdout, re.M):
        name, cf, res = m.group(1), m.group(2), m.group(3)
        if any(name.startswith(p) for p in prefixes):
            out[name] = 'ok' if res == 'ok' else 'FAILED'
    if not out:
        out['_error'] = 'no witness ran: ' + r.stdout[-800:]
    return out


def check_witnesses(ctx, rule, prefixes, expected, repo='/repo'):
    """adds one obligation per expected witness (compile-fail + twin)"""
    ctx.set_rule(rule)
    res = run_witnesses(prefixes, repo)
    if '_skipped' in res:
        ctx.note(res['_skipped'])
        return res
    for name in expected:
        st = res.get(name, 'missing')
        ctx.check(st == 'ok', 'witness:%s' % name,
                  'compile-fail witness %s (%s)' % (name, 'violating program is rejected by the type checker' if not name.endswith('Twin') else 'twin without the offending line compiles'),
                  'witness/src/lib.rs', st if st != 'missing' else res.get('_error', 'missing'))
    return res

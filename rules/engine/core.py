"""Rule-engine core: fact loading, CFG, dominators, reaching definitions, expression
trees (provenance), branch guards, path enumeration, call graph, type graph.

Everything here works on the JSON facts written by driver/ (drop-elaborated,
borrow-checked MIR with resolved callees).  Nothing executes des code.
"""
import json, os, re, sys
from collections import defaultdict, deque
from functools import lru_cache

sys.setrecursionlimit(10000)

# --------------------------------------------------------------------------- names

def strip_generics(path):
    """'a::B::<T>::f' -> 'a::B::f';  '<a::B<T> as c::D>::f' -> '<a::B as c::D>::f'"""
    out = []
    i = 0
    n = len(path)
    depth_skip = 0
    qual = []  # stack of kinds for '<': 'q' (qualified path, keep) or 'g' (generic, drop)
    while i < n:
        c = path[i]
        if c == '<':
            prev = path[i - 1] if i > 0 else ''
            is_q = (i == 0) or prev in ' (,&<[*' or (prev == ':' and False)
            if depth_skip == 0 and is_q:
                qual.append('q')
                out.append(c)
            else:
                qual.append('g')
                depth_skip += 1
                # drop a '::' that introduced the generic list ('::<')
                if depth_skip == 1 and len(out) >= 2 and out[-1] == ':' and out[-2] == ':':
                    out.pop(); out.pop()
            i += 1
            continue
        if c == '>' and not (i > 0 and path[i - 1] == '-'):
            if qual:
                k = qual.pop()
                if k == 'g':
                    depth_skip -= 1
                else:
                    if depth_skip == 0:
                        out.append(c)
            i += 1
            continue
        if depth_skip == 0:
            out.append(c)
        i += 1
    return ''.join(out)


CMP_METHODS = {
    'std::cmp::PartialOrd::lt': 'lt', 'std::cmp::PartialOrd::le': 'le',
    'std::cmp::PartialOrd::gt': 'gt', 'std::cmp::PartialOrd::ge': 'ge',
    'std::cmp::PartialEq::eq': 'eq', 'std::cmp::PartialEq::ne': 'ne',
}
CMP_BINOPS = {'Lt': 'lt', 'Le': 'le', 'Gt': 'gt', 'Ge': 'ge', 'Eq': 'eq', 'Ne': 'ne'}
NEG = {'lt': 'ge', 'le': 'gt', 'gt': 'le', 'ge': 'lt', 'eq': 'ne', 'ne': 'eq'}
SWAP = {'lt': 'gt', 'le': 'ge', 'gt': 'lt', 'ge': 'le', 'eq': 'eq', 'ne': 'ne'}

PANIC_CALLEES = (
    'core::panicking::', 'std::rt::begin_panic', 'std::rt::panic_fmt',
    'core::option::expect_failed', 'core::option::unwrap_failed',
    'core::result::unwrap_failed', 'std::option::expect_failed', 'std::option::unwrap_failed',
    'std::result::unwrap_failed', 'std::panicking::', 'core::slice::index::slice_',
    'core::str::slice_error_fail', 'std::process::abort', 'core::cell::panic_already',
    'std::cell::panic_already',
)

# --------------------------------------------------------------------------- facts


class Site:
    """a call site"""
    __slots__ = ('fn', 'b', 'term', 'callee', 'res', 'resk', 'trait', 'args', 'dest', 'line',
                 'exp', 'target', 'targs', 'argtys', 'raw_callee')

    def __init__(self, fn, b, term):
        self.fn = fn
        self.b = b
        self.term = term
        self.raw_callee = term.get('callee')
        self.callee = strip_generics(term['callee']) if term.get('callee') else None
        self.res = strip_generics(term['res']) if term.get('res') else None
        self.resk = term.get('resk')
        self.trait = term.get('trait')
        self.args = term['args']
        self.argtys = term.get('argtys', [])
        self.dest = term['dest']
        self.line = term.get('ln')
        self.exp = term.get('exp')
        self.target = term.get('t')
        self.targs = term['f'].get('targs', []) if isinstance(term.get('f'), dict) else []

    @property
    def name(self):
        """best resolved callee key"""
        return self.res or self.callee or ''

    def names(self):
        return {x for x in (self.res, self.callee) if x}

    def is_diverging(self):
        return self.target is None

    def where(self):
        return '%s:%s' % (self.fn.file, self.line)

    def __repr__(self):
        return '<call %s @%s bb%d>' % (self.name, self.where(), self.b)


class Fn:
    def __init__(self, j, crate, promoted_of=None, pidx=None):
        self.j = j
        self.crate = crate
        self.path = j['path'] if promoted_of is None else '%s::{promoted#%d}' % (promoted_of.path, pidx)
        self.key = strip_generics(self.path)
        self.kind = j.get('kind', 'promoted')
        self.file = j.get('file') if promoted_of is None else promoted_of.file
        self.line = j.get('line') if promoted_of is None else promoted_of.line
        self.vis = j.get('vis')
        self.name = j.get('name')
        self.unsafe = j.get('unsafe', False)
        self.trait = j.get('trait')
        self.self_adt = j.get('self_adt')
        self.self_ty = j.get('self_ty')
        self.parent = strip_generics(j['parent']) if j.get('parent') else None
        self.root = strip_generics(j['root']) if j.get('root') else None
        body = j['body'] if promoted_of is None else j
        self.argc = body['argc']
        self.locals = body['locals']
        self.blocks = body['blocks']
        self.dbg = body['dbg']
        self.promoted = []
        if promoted_of is None:
            for i, pb in enumerate(j.get('promoted', [])):
                self.promoted.append(Fn(pb, crate, promoted_of=self, pidx=i))
        self._names = {}
        for d in self.dbg:
            if not d['p']['pr']:
                self._names.setdefault(d['p']['l'], d['n'])
        self._upvar_names = {}
        for d in self.dbg:
            pr = d['p']['pr']
            if d['p']['l'] == 1 and pr:
                # closure capture: (*_1).N or _1.N
                fld = [e for e in pr if e['k'] == 'field']
                if fld:
                    self._upvar_names[fld[0]['i']] = d['n']
        self._cache = {}

    # ---- basic access
    def where(self, b=None):
        if b is None:
            return '%s:%s' % (self.file, self.line)
        return '%s:%s' % (self.file, self.blocks[b]['t'].get('ln'))

    def where_path(self, path):
        for b in reversed(path):
            ln = self.blocks[b]['t'].get('ln')
            if ln:
                return '%s:%s' % (self.file, ln)
        return self.where()

    def local_name(self, l):
        if l == 0:
            return 'ret'
        return self._names.get(l, '_%d' % l)

    def local_ty(self, l):
        return self.locals[l]['ty']

    def term(self, b):
        return self.blocks[b]['t']

    def stmts(self, b):
        return self.blocks[b]['s']

    def is_cleanup(self, b):
        return self.blocks[b]['cleanup']

    # ---- CFG
    def succs(self, b, unwind=False):
        t = self.blocks[b]['t']
        k = t['k']
        out = []
        if k == 'goto':
            out = [t['t']]
        elif k == 'switch':
            out = [x[1] for x in t['vals']] + [t['otherwise']]
        elif k in ('drop', 'assert'):
            out = [t['t']]
        elif k == 'call':
            out = [t['t']] if t['t'] is not None else []
        elif k == 'yield':
            out = [t['t']]
        if unwind and t.get('u') is not None:
            out = out + [t['u']]
        # dedupe, keep order
        seen = []
        for x in out:
            if x not in seen:
                seen.append(x)
        return seen

    def preds(self):
        if 'preds' not in self._cache:
            p = defaultdict(list)
            for b in range(len(self.blocks)):
                for s in self.succs(b):
                    p[s].append(b)
            self._cache['preds'] = p
        return self._cache['preds']

    def reachable(self):
        if 'reach' not in self._cache:
            seen = {0}
            st = [0]
            while st:
                b = st.pop()
                for s in self.succs(b):
                    if s not in seen:
                        seen.add(s); st.append(s)
            self._cache['reach'] = seen
        return self._cache['reach']

    def rpo(self):
        if 'rpo' not in self._cache:
            seen = set(); order = []
            def dfs(b):
                stack = [(b, iter(self.succs(b)))]
                seen.add(b)
                while stack:
                    n, it = stack[-1]
                    adv = False
                    for s in it:
                        if s not in seen:
                            seen.add(s); stack.append((s, iter(self.succs(s)))); adv = True; break
                    if not adv:
                        order.append(n); stack.pop()
            dfs(0)
            order.reverse()
            self._cache['rpo'] = order
        return self._cache['rpo']

    def dominators(self):
        """dom[b] = set of blocks dominating b (normal edges only)"""
        if 'dom' not in self._cache:
            rpo = self.rpo()
            preds = self.preds()
            allb = set(rpo)
            dom = {b: set(allb) for b in rpo}
            dom[0] = {0}
            changed = True
            while changed:
                changed = False
                for b in rpo:
                    if b == 0:
                        continue
                    ps = [p for p in preds[b] if p in dom]
                    new = set(allb)
                    for p in ps:
                        new &= dom[p]
                    new = new | {b}
                    if new != dom[b]:
                        dom[b] = new; changed = True
            self._cache['dom'] = dom
        return self._cache['dom']

    def dominates(self, a, b):
        d = self.dominators()
        return b in d and a in d[b]

    def return_blocks(self):
        return [b for b in self.reachable() if self.term(b)['k'] == 'return']

    def can_reach_return(self):
        if 'crr' not in self._cache:
            preds = self.preds()
            seen = set(self.return_blocks())
            st = list(seen)
            while st:
                b = st.pop()
                for p in preds[b]:
                    if p not in seen:
                        seen.add(p); st.append(p)
            self._cache['crr'] = seen
        return self._cache['crr']

    def postdominators(self):
        """pdom[b] = set of blocks post-dominating b on paths that reach a Return.
        Panicking / diverging paths are ignored (properties are about normal executions)."""
        if 'pdom' not in self._cache:
            live = self.can_reach_return() & self.reachable()
            EXIT = -1
            succ = {b: [s for s in self.succs(b) if s in live] for b in live}
            for b in live:
                if self.term(b)['k'] == 'return':
                    succ[b] = [EXIT]
            nodes = set(live) | {EXIT}
            pdom = {b: set(nodes) for b in nodes}
            pdom[EXIT] = {EXIT}
            changed = True
            while changed:
                changed = False
                for b in live:
                    new = set(nodes)
                    for s in succ[b]:
                        new &= pdom[s]
                    new |= {b}
                    if new != pdom[b]:
                        pdom[b] = new; changed = True
            self._cache['pdom'] = pdom
        return self._cache['pdom']

    def postdominates(self, a, b):
        """a post-dominates b (w.r.t. returning paths)"""
        p = self.postdominators()
        return b in p and a in p[b]

    def reach_from(self, b):
        """blocks reachable from b over normal edges (excluding b itself unless on a cycle)"""
        key = ('rf', b)
        if key not in self._cache:
            seen = set()
            st = list(self.succs(b))
            while st:
                x = st.pop()
                if x in seen:
                    continue
                seen.add(x)
                st.extend(self.succs(x))
            self._cache[key] = seen
        return self._cache[key]

    def back_edges(self):
        dom = self.dominators()
        out = set()
        for b in self.reachable():
            for s in self.succs(b):
                if s in dom.get(b, ()):
                    out.add((b, s))
        return out

    def loops(self):
        """natural loops: header -> set(body blocks)"""
        if 'loops' not in self._cache:
            preds = self.preds()
            loops = defaultdict(set)
            for (t, h) in self.back_edges():
                body = {h, t}
                st = [t]
                while st:
                    x = st.pop()
                    if x == h:
                        continue
                    for p in preds[x]:
                        if p not in body:
                            body.add(p); st.append(p)
                loops[h] |= body
            self._cache['loops'] = dict(loops)
        return self._cache['loops']

    def postdominates_entry(self, b):
        """b executes on every returning path of the function"""
        return b in self.postdominators().get(0, set())

    def loops_containing(self, b):
        return [h for h, body in self.loops().items() if b in body]

    # ---- call sites
    def calls(self):
        if 'calls' not in self._cache:
            out = []
            for b in sorted(self.reachable()):
                t = self.term(b)
                if t['k'] == 'call':
                    out.append(Site(self, b, t))
            self._cache['calls'] = out
        return self._cache['calls']

    def calls_to(self, *names, suffix=None):
        out = []
        for s in self.calls():
            ns = s.names()
            if any(n in ns for n in names):
                out.append(s)
            elif suffix and any(n.endswith(suffix) for n in ns):
                out.append(s)
        return out

    def closures_created(self):
        """def keys of closures whose aggregate is built in this body"""
        out = []
        for b in sorted(self.reachable()):
            for i, st in enumerate(self.stmts(b)):
                if st['k'] == 'assign' and st['r']['k'] == 'agg' and st['r'].get('ak') == 'closure':
                    out.append((b, i, strip_generics(st['r']['def'])))
        return out

    def fn_items_passed(self):
        """keys of functions named as values (not called) in call arguments or assignments of this body"""
        out = []
        def ops_of(x):
            if isinstance(x, dict):
                if x.get('k') == 'const' and x.get('fn'):
                    out.append(strip_generics(x['fn']))
                for v in x.values():
                    if isinstance(v, (dict, list)):
                        ops_of(v)
            elif isinstance(x, list):
                for y in x:
                    ops_of(y)
        for b in sorted(self.reachable()):
            for st in self.stmts(b):
                if st['k'] == 'assign':
                    ops_of(st['r'])
            t = self.term(b)
            if t['k'] == 'call':
                ops_of(t['args'])
        return out

    # ---- reaching definitions
    def _defs(self):
        """list of def sites: (local, b, i, kind, partial) ; i = stmt index or 'T' for terminator"""
        if 'defs' not in self._cache:
            defs = []
            for b in range(len(self.blocks)):
                for i, st in enumerate(self.stmts(b)):
                    if st['k'] == 'assign':
                        defs.append((st['p']['l'], b, i, bool(st['p']['pr'])))
                    elif st['k'] == 'setdiscr':
                        defs.append((st['p']['l'], b, i, True))
                t = self.term(b)
                if t['k'] == 'call':
                    defs.append((t['dest']['l'], b, 'T', bool(t['dest']['pr'])))
            self._cache['defs'] = defs
        return self._cache['defs']

    def reaching(self):
        """IN[b] : dict local -> frozenset of def ids (index in _defs) ; -1 = function entry (argument)"""
        if 'rd' not in self._cache:
            defs = self._defs()
            by_block = defaultdict(list)
            for di, (l, b, i, partial) in enumerate(defs):
                by_block[b].append((i if i != 'T' else 10 ** 9, di, l, partial))
            for b in by_block:
                by_block[b].sort()
            nb = len(self.blocks)
            IN = [dict() for _ in range(nb)]
            OUT = [None] * nb
            entry = {l: frozenset([-1]) for l in range(1, self.argc + 1)}
            IN[0] = entry

            def transfer(b, inn):
                cur = dict(inn)
                for (_, di, l, partial) in by_block.get(b, []):
                    if partial:
                        cur[l] = cur.get(l, frozenset()) | {di}
                    else:
                        cur[l] = frozenset([di])
                return cur

            work = deque(self.rpo())
            inq = set(work)
            allsucc = lambda b: self.succs(b, unwind=True)
            while work:
                b = work.popleft(); inq.discard(b)
                out = transfer(b, IN[b])
                if OUT[b] == out:
                    continue
                OUT[b] = out
                for s in allsucc(b):
                    # a call's destination is not defined on the unwind edge; fine to over-approximate
                    merged = dict(IN[s])
                    ch = False
                    for l, ds in out.items():
                        old = merged.get(l)
                        new = ds if old is None else (old | ds)
                        if new != old:
                            merged[l] = new; ch = True
                    if ch or OUT[s] is None:
                        IN[s] = merged
                        if s not in inq:
                            work.append(s); inq.add(s)
            self._cache['rd'] = (IN, by_block)
        return self._cache['rd']

    def defs_at(self, l, b, i):
        """def ids of local l reaching program point just before (b, i) ; i = stmt idx or 'T'"""
        IN, by_block = self.reaching()
        cur = IN[b].get(l, frozenset())
        lim = i if i != 'T' else 10 ** 9
        for (pos, di, dl, partial) in by_block.get(b, []):
            if pos >= lim:
                break
            if dl == l:
                cur = (cur | {di}) if partial else frozenset([di])
        return cur

    # ---- expression trees (provenance)
    def expr_operand(self, op, b, i, depth=80):
        k = op['k']
        if k == 'const':
            return self._const_tree(op)
        if k in ('copy', 'move'):
            return self.expr_place(op['p'], b, i, depth)
        return ('unknown', op.get('s', ''))

    def _const_tree(self, op):
        if 'fn' in op:
            return ('fnitem', strip_generics(op['fn']), tuple(op.get('targs', [])))
        if 'static' in op:
            return ('ref', ('static', strip_generics(op['static'])))
        if 'promoted' in op:
            idx = op['promoted']
            if idx < len(self.promoted):
                pf = self.promoted[idx]
                rb = pf.return_blocks()
                if len(rb) == 1:
                    t = pf.expr_local(0, rb[0], 'T')
                    if not any(x[0] in ('local', 'arg', 'phi', 'var') for x in walk(t)):
                        return t
            return ('promoted', idx)
        if 'int' in op:
            return ('int', op['int'])
        if 'cdef' in op:
            key = strip_generics(op['cdef'])
            prog = getattr(self, 'program', None)
            cf = prog.fns.get(key) if prog is not None else None
            if cf is not None and cf.kind == 'const' and cf is not self:
                # a named constant of the workspace: use its (closed) value
                rb = cf.return_blocks()
                if len(rb) == 1:
                    t = cf.expr_local(0, rb[0], 'T')
                    if not any(x[0] in ('local', 'arg', 'phi', 'var', 'constdef') for x in walk(t)):
                        return t
            return ('constdef', key)
        return ('const', op.get('v', ''), op.get('ty', ''))

    def expr_place(self, place, b, i, depth=80):
        base = self.expr_local(place['l'], b, i, depth)
        return self._apply_proj(base, place['pr'], b, i, depth)

    def _apply_proj(self, base, pr, b, i, depth):
        cur = base
        for e in pr:
            k = e['k']
            if k == 'deref':
                if cur[0] in ('ref', 'rawref'):
                    cur = cur[1]
                else:
                    cur = ('deref', cur)
            elif k == 'field':
                nm = e.get('n', str(e['i']))
                if '{closure' in e.get('adt', ''):
                    nm = str(e['i'])  # closure captures are addressed by position (matches the closure aggregate's operands)
                red = self._reduce_some_payload(cur, depth) if (e['i'] == 0 and cur[0] == 'as' and cur[2] == 'Some') else None
                if red is None and e['i'] == 0 and cur[0] == 'as' and cur[2] == 'Continue':
                    src_ = cur[1]
                    while src_[0] in ('ref', 'deref'):
                        src_ = src_[1]
                    if src_[0] == 'call' and src_[1].endswith('std::ops::Try>::branch') and src_[2]:
                        # `x?` yields the payload of x: (Try::branch(x) as Continue).0 == (x as Some|Ok).0
                        v_ = 'Some' if 'option::Option' in src_[1] else ('Ok' if 'result::Result' in src_[1] else None)
                        if v_:
                            inner = ('as', src_[2][0], v_)
                            red = (self._reduce_some_payload(inner, depth) if v_ == 'Some' else None) or ('field', inner, '0', 'std::option::Option' if v_ == 'Some' else 'std::result::Result')
                # field of a known aggregate -> the operand
                if red is not None:
                    cur = red
                elif cur[0] == 'agg' and e['i'] < len(cur[2]) and cur[1] in ('tuple',) :
                    cur = cur[2][e['i']]
                elif cur[0] == 'agg' and str(cur[1]).startswith('adt:') and len(cur) > 3 and nm in cur[3] and len(cur[3]) == len(cur[2]) \
                        and e.get('adt', '') and str(cur[1])[4:].startswith(strip_generics(e['adt']).split('<')[0]):
                    cur = cur[2][list(cur[3]).index(nm)]   # field of a struct value built right here (a small record returned by a helper)
                elif cur[0] == 'agg' and str(cur[1]).startswith('closure:') and e['i'] < len(cur[2]) and '{closure' in e.get('adt', ''):
                    cur = cur[2][e['i']]   # capture of a known closure value (inlined closure body)
                elif cur[0] == 'deref' and cur[1][0] == 'agg' and str(cur[1][1]).startswith('closure:') and e['i'] < len(cur[1][2]) and '{closure' in e.get('adt', ''):
                    cur = cur[1][2][e['i']]
                else:
                    cur = ('field', cur, nm, e.get('adt', ''))
            elif k == 'index':
                cur = ('index', cur, self.expr_local(e['l'], b, i, depth - 1))
            elif k == 'cindex':
                cur = ('index', cur, ('int', e['o'] if not e['from_end'] else -e['o']))
            elif k == 'downcast':
                cur = ('as', cur, e['v'])
            elif k == 'subslice':
                cur = ('subslice', cur, e['from'], e['to'], e['from_end'])
            else:
                cur = (k, cur)
        return cur

    def _reduce_some_payload(self, cur, depth):
        """payload of `(X as Some)` where X is a data-level construction whose payload is known:
        c.then(|| e) -> e ; c.then_some(v) -> v ; x.map(|a| e) -> e[a := (x as Some).0] ; Some(v) -> v"""
        src = cur[1]
        while src[0] in ('ref', 'deref'):
            src = src[1]
        if src[0] == 'agg' and str(src[1]).endswith('Option::Some') and src[2]:
            return src[2][0]
        if src[0] == 'phi':
            # a merge of None and Some(..) alternatives viewed `as Some`: only the Some alternatives can be meant
            def is_none(x):
                # the literal None, or what `x?` builds on the failure branch of an Option
                return (x[0] == 'agg' and str(x[1]).endswith('Option::None')) or \
                    (x[0] == 'call' and x[1].endswith('FromResidual>::from_residual') and 'option::Option' in x[1])
            somes = [x for x in src[1] if not is_none(x)]
            if len(somes) == 1 and somes[0][0] == 'agg' and str(somes[0][1]).endswith('Option::Some') and somes[0][2]:
                return somes[0][2][0]
            if len(somes) == 1 and len(src[1]) > 1 and somes[0][0] == 'call':
                # `None` merged with an Option-valued call (a spliced helper's `if c { return None } x.pop()`): viewed as Some it is the call's
                return ('field', ('as', somes[0], 'Some'), '0', 'std::option::Option')
            return None
        if src[0] != 'call' or not src[2]:
            return None
        name = src[1]
        if name.endswith('bool::then_some') and len(src[2]) == 2:
            return src[2][1]
        if name.endswith('bool::then') and len(src[2]) == 2:
            return self._beta(src[2][1], [], depth)
        if name == 'std::option::Option::map' and len(src[2]) == 2:
            return self._beta(src[2][1], [('field', ('as', src[2][0], 'Some'), '0', 'std::option::Option')], depth)
        if name == 'std::option::Option::filter' and len(src[2]) == 2:
            # x.filter(p) is Some(v) only for x = Some(v)
            return ('field', ('as', src[2][0], 'Some'), '0', 'std::option::Option')
        return None

    def _beta(self, clo, args, depth):
        """value of calling the closure aggregate `clo` with `args` (trees in this frame): its single return tree with captures and
        parameters substituted; None if unknown"""
        while clo[0] in ('ref', 'deref'):
            clo = clo[1]
        prog = getattr(self, 'program', None)
        if clo[0] == 'fnitem' and isinstance(clo[1], str):
            # a function named as the callback (`.map(Cfg::new)`): the call itself
            return ('call', clo[1], tuple(args), -1)
        if prog is None or clo[0] != 'agg' or not str(clo[1]).startswith('closure:') or depth < 10:
            return None
        g = prog.fns.get(clo[1][len('closure:'):])
        if g is None or g is self:
            return None
        rbs = g.return_blocks()
        if len(rbs) != 1:
            return None
        body = g.expr_local(0, rbs[0], 'T')
        if any(x[0] in ('phi', 'local', 'var') for x in walk(body)):
            return None
        caps = clo[2]

        def sub(t):
            if not isinstance(t, tuple) or not t:
                return t
            if t[0] == 'field' and str(t[2]).isdigit() and '{closure' in str(t[3] if len(t) > 3 else ''):
                base = t[1]
                while base[0] in ('deref', 'ref'):
                    base = base[1]
                if base[0] == 'arg' and base[1] == 1 and int(t[2]) < len(caps):
                    return caps[int(t[2])]
            if t[0] == 'arg' and t[1] >= 2:
                if t[1] - 2 < len(args):
                    return args[t[1] - 2]
                return ('unknown', 'closure-arg')
            return tuple(sub(x) if isinstance(x, tuple) else x for x in t)
        return sub(body)

    def expr_local(self, l, b, i, depth=80):
        key = ('el', l, b, i)
        if key in self._cache:
            return self._cache[key]
        if depth <= 0:
            return ('local', l)
        self._cache[key] = ('local', l)  # recursion guard (loops)
        ds = self.defs_at(l, b, i)
        res = None
        if not ds:
            if 1 <= l <= self.argc:
                res = ('arg', l, self.local_name(l))
            else:
                res = ('local', l)
        elif ds == frozenset([-1]):
            res = ('arg', l, self.local_name(l))
        else:
            defs = self._defs()
            whole = [d for d in ds if d >= 0 and not defs[d][3]]
            partial = [d for d in ds if d >= 0 and defs[d][3]]
            if len(whole) == 1 and -1 not in ds and not partial:
                res = self._def_tree(whole[0], depth)
            elif len(whole) == 1 and -1 not in ds:
                # a whole def refined by field writes (struct built field by field)
                res = ('upd', self._def_tree(whole[0], depth), tuple(sorted(partial)))
            elif not whole and -1 in ds:
                res = ('arg', l, self.local_name(l))
            elif not whole and partial:
                res = ('var', l, self.local_name(l))
            else:
                trees = []
                for d in sorted(whole):
                    t = self._def_tree(d, depth - 1)
                    if t not in trees:
                        trees.append(t)
                if -1 in ds:
                    trees.append(('arg', l, self.local_name(l)))
                res = trees[0] if len(trees) == 1 else ('phi', tuple(trees), self.local_name(l))
        self._cache[key] = res
        return res

    def expr_operand_on_path(self, op, path, idx, i='T'):
        """like expr_operand at block path[idx], but a plain local merged from several definitions (phi) is resolved to the
        definition that is the last one executed on `path` (copy chains are followed along the path)"""
        for _ in range(12):
            if not (op['k'] in ('copy', 'move')):
                break
            pr = op['p']['pr']
            comp = None
            if pr:
                # `(x as V).i` / `x.i` where the definition of x executed on this path is an aggregate: take that component
                flds = [e for e in pr if e['k'] == 'field']
                if len(flds) == 1 and all(e['k'] in ('field', 'downcast') for e in pr):
                    comp = flds[0]['i']
                else:
                    break
            l = op['p']['l']
            found = None
            j = idx
            lim = i
            while j >= 0 and found is None:
                b = path[j]
                stmts = self.stmts(b)
                hi = len(stmts) if lim == 'T' else lim
                if lim == 'T' and j != idx:
                    t = self.term(b)
                    if t['k'] == 'call' and t['dest']['l'] == l:
                        found = (j, 'T', None if t['dest']['pr'] else t)
                        break
                for k in range(hi - 1, -1, -1):
                    st = stmts[k]
                    if st['k'] in ('assign', 'setdiscr') and st['p']['l'] == l:
                        found = (j, k, st if (st['k'] == 'assign' and not st['p']['pr']) else None)
                        break
                j -= 1
                lim = 'T'
            if found is None or found[2] is None:
                break
            j, k, st = found
            if k == 'T' and comp is not None:
                break     # a component of a call result: the generic projection tree below is exact
            if k == 'T':
                return self._def_tree(next(di for di, d in enumerate(self._defs()) if d[1] == path[j] and d[2] == 'T'), 80)
            r = st['r']
            if comp is not None:
                if r['k'] == 'agg' and comp < len(r['ops']) and (r.get('ak') in ('adt', 'tuple', None) or True) and r['ops'][comp].get('k') in ('copy', 'move', 'const'):
                    if r['ops'][comp]['k'] == 'const':
                        return self.expr_operand(r['ops'][comp], path[j], k)
                    op, idx, i = r['ops'][comp], j, k
                    continue
                if r['k'] == 'use' and r['o']['k'] in ('copy', 'move') and not r['o']['p']['pr']:
                    op = {'k': 'copy', 'p': {'l': r['o']['p']['l'], 'pr': pr}}
                    idx, i = j, k
                    continue
                break
            if r['k'] == 'use' and r['o']['k'] in ('copy', 'move') and not r['o']['p']['pr']:
                op, idx, i = r['o'], j, k
                continue
            if r['k'] == 'use' and r['o']['k'] in ('copy', 'move') and all(e['k'] in ('field', 'downcast') for e in r['o']['p']['pr']) \
                    and len([e for e in r['o']['p']['pr'] if e['k'] == 'field']) == 1:
                op, idx, i = r['o'], j, k
                continue
            return self.expr_rvalue(r, path[j], k)
        return self.expr_operand(op, path[idx], i)

    def _def_tree(self, di, depth):
        l, b, i, partial = self._defs()[di]
        if i == 'T':
            t = self.term(b)
            site = Site(self, b, t)
            args = tuple(self.expr_operand(a, b, 'T', depth - 1) for a in t['args'])
            if site.callee is None:
                f = self.expr_operand(t['f'], b, 'T', depth - 1)
                return ('callind', f, args, b)
            return ('call', site.name, args, b)
        st = self.stmts(b)[i]
        return self.expr_rvalue(st['r'], b, i, depth - 1)

    def expr_rvalue(self, r, b, i, depth=80):
        k = r['k']
        if k == 'use':
            return self.expr_operand(r['o'], b, i, depth)
        if k == 'ref':
            return ('ref', self.expr_place(r['p'], b, i, depth))
        if k == 'rawptr':
            return ('rawref', self.expr_place(r['p'], b, i, depth))
        if k == 'binop':
            return ('bin', r['op'], self.expr_operand(r['a'], b, i, depth), self.expr_operand(r['b'], b, i, depth))
        if k == 'unop':
            return ('un', r['op'], self.expr_operand(r['a'], b, i, depth))
        if k == 'cast':
            return ('cast', r['ck'], self.expr_operand(r['o'], b, i, depth), r['ty'], r.get('from', ''))
        if k == 'discr':
            vs = tuple((v[0], v[1]) for v in r.get('variants', []))
            return ('discr', self.expr_place(r['p'], b, i, depth), r.get('adt', ''), vs)
        if k == 'agg':
            ak = r.get('ak')
            if ak == 'adt':
                ak = 'adt:%s::%s' % (strip_generics(r['adt']), r['variant'])
            elif ak == 'closure':
                ak = 'closure:%s' % strip_generics(r['def'])
            ops = tuple(self.expr_operand(o, b, i, depth) for o in r['ops'])
            return ('agg', ak, ops, tuple(r.get('fields', [])))
        if k == 'repeat':
            return ('repeat', self.expr_operand(r['o'], b, i, depth), r['n'])
        if k == 'tlref':
            return ('static', strip_generics(r['def']))
        return ('unknown', k)

    # ---- guards
    def edge_dominates(self, s, t, b):
        """edge s->t dominates block b"""
        if not self.dominates(t, b):
            return False
        for p in self.preds()[t]:
            if p == s:
                continue
            if not self.dominates(t, p):
                return False
        # s must have exactly this edge leading to t among its (distinct) successors: fine
        return True

    def guards(self, b):
        """list of (switch_block, cond_tree, value, negated_values) facts that hold whenever b executes.
        For a switch edge to a listed value v: ('eq', v); for the otherwise edge: ('ne', [all listed])."""
        key = ('guards', b)
        if key in self._cache:
            return self._cache[key]
        out = []
        for s in sorted(self.dominators().get(b, ())):
            if s == b:
                continue
            t = self.term(s)
            if t['k'] == 'switch':
                cond = self.expr_operand(t['d'], s, 'T')
                listed = [v for v, _ in t['vals']]
                tgt_count = defaultdict(int)
                for v, tg in t['vals']:
                    tgt_count[tg] += 1
                tgt_count[t['otherwise']] += 1
                for v, tg in t['vals']:
                    if tgt_count[tg] == 1 and self.edge_dominates(s, tg, b):
                        out.append((s, cond, ('eq', v)))
                if tgt_count[t['otherwise']] == 1 and self.edge_dominates(s, t['otherwise'], b):
                    out.append((s, cond, ('ne', tuple(listed))))
            elif t['k'] == 'assert':
                if self.edge_dominates(s, t['t'], b):
                    cond = self.expr_operand(t['c'], s, 'T')
                    out.append((s, cond, ('eq', 1 if t['expected'] else 0)))
        self._cache[key] = out
        return out

    def switch_ty(self, b):
        """type of the value a switch block branches on (plain locals only)"""
        t = self.term(b)
        d = t.get('d') if t['k'] == 'switch' else None
        if d and d['k'] in ('copy', 'move') and not d['p']['pr']:
            return self.local_ty(d['p']['l'])
        if d and d['k'] in ('copy', 'move') and d['p']['pr'][-1]['k'] == 'field':
            return d['p']['pr'][-1].get('ty')
        return None

    def guard_atoms(self, b, derived=False):
        """guards(b) normalised to atoms (see atom_of); with derived=True the facts implied by combinator chains and local predicate
        getters (derived_atoms) are appended — opt-in, because rules that enumerate "no other condition" must see the decisions only"""
        out = []
        for (s, cond, val) in self.guards(b):
            if self.term(s)['k'] == 'assert':
                continue  # compiler-inserted overflow / bounds / division checks carry no program logic
            a = atom_of(cond, val, self.switch_ty(s))
            if a is not None:
                a = untry(a)
                out.append((s, a))
                if derived:
                    for d in self.derived_atoms(a):
                        out.append((s, d))
        return out

    def derived_atoms(self, a, depth=4):
        """facts implied by a variant test of a combinator chain (appended after the atom itself):
           x.and_then(f) is Some  =>  x is Some, f((x as Some).0) is Some
           x.filter(p)   is Some  =>  x is Some
        (closure bodies are substituted; the derived atoms are normalised and expanded in turn)"""
        out = []
        if depth > 0 and a and a[0] == 'bool' and a[1][0] == 'call' and getattr(self, 'program', None) is not None and a[1][1] in self.program.fns:
            # a local predicate getter (`self.is_elapsed()` = `self.deadline <= SimTime::now()`): the fact it computes, with the
            # arguments substituted
            g = self.program.fns[a[1][1]]
            if g is not self and g.kind in ('fn', 'assocfn') and len(g.blocks) <= 6 and g.local_ty(0) == 'bool' and len(a[1][2]) == g.argc:
                rbs = g.return_blocks()
                body = g.expr_local(0, rbs[0], 'T') if len(rbs) == 1 else None
                if body is not None and not any(x[0] in ('phi', 'local', 'var') for x in walk(body)):
                    args = a[1][2]

                    def sub(t):
                        if not isinstance(t, tuple) or not t:
                            return t
                        if t[0] == 'arg' and isinstance(t[1], int) and 1 <= t[1] <= len(args):
                            return args[t[1] - 1]
                        return tuple(sub(x) if isinstance(x, tuple) else x for x in t)
                    b2 = atom_of(canon(sub(body)), ('eq', 1 if a[2] else 0))
                    if b2 is not None and b2[0] in ('cmp', 'is', 'isnot'):
                        b2 = untry(b2)
                        out.append(b2)
                        out.extend(self.derived_atoms(b2, depth - 1))
            return out
        if depth > 0 and a and a[0] == 'bool' and a[2] is True and a[1][0] == 'call' and a[1][1] == 'std::option::Option::is_some_and' and len(a[1][2]) == 2:
            # x.is_some_and(p)  =>  x is Some, p((x as Some).0)
            x, clo = a[1][2]
            out.append(untry(('is', x, 'Some')))
            body = self._beta(clo, [('field', ('as', x, 'Some'), '0', 'std::option::Option')], 80)
            if body is not None:
                b2 = atom_of(canon(body), ('eq', 1))
                if b2 is not None:
                    b2 = untry(b2)
                    out.append(b2)
                    out.extend(self.derived_atoms(b2, depth - 1))
            return out
        if depth <= 0 or not (a and a[0] == 'is' and a[2] == 'Some' and a[1][0] == 'call' and len(a[1][2]) == 2):
            return out
        n = a[1][1]
        x, clo = a[1][2]
        nxt = []
        if n == 'std::option::Option::and_then':
            nxt.append(untry(('is', x, 'Some')))
            body = self._beta(clo, [('field', ('as', x, 'Some'), '0', 'std::option::Option')], 80)
            if body is not None:
                nxt.append(untry(('is', canon(body), 'Some')))
        elif n == 'std::option::Option::filter':
            nxt.append(untry(('is', x, 'Some')))
        for d in nxt:
            out.append(d)
            out.extend(self.derived_atoms(d, depth - 1))
        return out

    # ---- paths
    def enum_paths(self, start=0, max_paths=20000, stop_at=None, edge_limit=1):
        """enumerate normal paths from `start`; every CFG edge is taken at most `edge_limit`+... times:
        back edges at most once. Boolean/integer locals assigned constants are propagated so that
        elaborated drop flags do not create infeasible paths.
        Yields (blocks, outcome, decisions) ; outcome in 'return','panic','unreachable','stop'
        decisions: list of (switch_block, value-taken | ('otherwise', listed))"""
        back = self.back_edges()
        results = []
        count = [0]

        def const_of(op, store):
            if op['k'] == 'const':
                return op.get('int')
            if op['k'] in ('copy', 'move') and not op['p']['pr']:
                return store.get(op['p']['l'])
            return None

        def step_store(b, store):
            """constant propagation along the path: integer/bool constants of plain locals, and the variant of a local that was
            assigned an enum aggregate (so that a later `discriminant(local)` test is decided instead of forked)"""
            st2 = None
            for s in self.stmts(b):
                if s['k'] == 'assign' and not s['p']['pr']:
                    l = s['p']['l']
                    r = s['r']
                    val = None
                    var = None
                    cur = st2 if st2 is not None else store
                    if r['k'] == 'use':
                        val = const_of(r['o'], cur)
                        o = r['o']
                        if o['k'] in ('copy', 'move') and not o['p']['pr']:
                            var = cur.get(('v', o['p']['l']))
                    elif r['k'] == 'unop' and r['op'] == 'Not':
                        v = const_of(r['a'], cur)
                        if v is not None and self.local_ty(l) == 'bool':
                            val = 0 if v else 1
                    elif r['k'] == 'agg' and r.get('ak') == 'adt' and r.get('variant'):
                        var = r['variant']
                    elif r['k'] == 'discr' and not r['p']['pr']:
                        known = cur.get(('v', r['p']['l']))
                        if known is not None:
                            for dv, nm in r.get('variants', []):
                                if nm == known:
                                    val = dv
                    if st2 is None:
                        st2 = dict(store)
                    if val is None:
                        st2.pop(l, None)
                    else:
                        st2[l] = val
                    if var is None:
                        st2.pop(('v', l), None)
                    else:
                        st2[('v', l)] = var
                elif s['k'] in ('assign', 'setdiscr') and s['p']['pr'] or s['k'] == 'setdiscr':
                    if ('v', s['p']['l']) in (st2 if st2 is not None else store):
                        if st2 is None:
                            st2 = dict(store)
                        st2.pop(('v', s['p']['l']), None)
                if s['k'] == 'assign' and s['r']['k'] in ('ref', 'rawptr') and s['r'].get('mut') and not s['r']['p']['pr']:
                    # a mutable borrow of the whole local may change its variant later
                    if ('v', s['r']['p']['l']) in (st2 if st2 is not None else store):
                        if st2 is None:
                            st2 = dict(store)
                        st2.pop(('v', s['r']['p']['l']), None)
            t = self.term(b)
            if t['k'] == 'call' and not t['dest']['pr']:
                if st2 is None:
                    st2 = dict(store)
                arg_var = None
                if t['args'] and t['args'][0].get('k') in ('copy', 'move') and not t['args'][0]['p']['pr']:
                    arg_var = st2.get(('v', t['args'][0]['p']['l']))
                st2.pop(t['dest']['l'], None)
                st2.pop(('v', t['dest']['l']), None)
                # `x?` on the failure branch: from_residual always builds the failure variant
                rn = strip_generics(t.get('res') or '')
                if rn.endswith('std::ops::Try>::branch') and arg_var is not None and ('option::Option' in rn or 'result::Result' in rn):
                    # `x?` on a value whose variant this path already fixed (a spliced helper's `Some(..)` / `None`)
                    if arg_var in ('Some', 'Ok'):
                        st2[('v', t['dest']['l'])] = 'Continue'
                    elif arg_var in ('None', 'Err'):
                        st2[('v', t['dest']['l'])] = 'Break'
                # variant-preserving combinators: the result is Some/Ok exactly when the receiver is
                if arg_var is not None and ((('result::Result' in rn) and rn.split('::')[-1] in ('map_err', 'map', 'inspect', 'inspect_err', 'as_ref', 'as_mut', 'copied', 'cloned')) or
                                            (('option::Option' in rn) and rn.split('::')[-1] in ('map', 'inspect', 'as_ref', 'as_mut', 'copied', 'cloned', 'as_deref', 'as_deref_mut'))):
                    st2[('v', t['dest']['l'])] = arg_var
                if rn.endswith('std::ops::FromResidual>::from_residual'):
                    if 'option::Option' in rn:
                        st2[('v', t['dest']['l'])] = 'None'
                    elif 'result::Result' in rn:
                        st2[('v', t['dest']['l'])] = 'Err'
            return st2 if st2 is not None else store

        stack = [(start, (start,), (), {}, frozenset())]
        while stack:
            b, path, decs, store, used_back = stack.pop()
            if count[0] >= max_paths:
                raise TooManyPaths(self.key)
            store = step_store(b, store)
            t = self.term(b)
            k = t['k']
            if stop_at is not None and b in stop_at and len(path) > 1:
                count[0] += 1
                yield (path, 'stop', decs); continue
            if k == 'return':
                count[0] += 1
                yield (path, 'return', decs); continue
            if k in ('unreachable', 'resume', 'abort'):
                count[0] += 1
                yield (path, 'unreachable', decs); continue
            if k == 'call' and t['t'] is None:
                count[0] += 1
                yield (path, 'panic', decs); continue
            nexts = []
            if k == 'switch':
                c = const_of(t['d'], store)
                if c is not None:
                    tgt = t['otherwise']
                    for v, tg in t['vals']:
                        if v == c:
                            tgt = tg
                    nexts = [(tgt, None)]
                else:
                    for v, tg in t['vals']:
                        nexts.append((tg, (b, v)))
                    nexts.append((t['otherwise'], (b, ('otherwise', tuple(v for v, _ in t['vals'])))))
            elif k == 'assert':
                nexts = [(t['t'], None)]
            else:
                nexts = [(s, None) for s in self.succs(b)]
            for (s, d) in reversed(nexts):
                ub = used_back
                if (b, s) in back:
                    if (b, s) in used_back:
                        continue
                    ub = used_back | {(b, s)}
                stack.append((s, path + (s,), decs + ((d,) if d else ()), store, ub))

    def path_events(self, path):
        """ordered events along a path: ('assign', b, i, stmt) / ('call', Site) / ('drop', b, term)"""
        for b in path:
            for i, st in enumerate(self.stmts(b)):
                if st['k'] == 'assign':
                    yield ('assign', b, i, st)
            t = self.term(b)
            if t['k'] == 'call':
                yield ('call', b, 'T', Site(self, b, t))
            elif t['k'] == 'drop':
                yield ('drop', b, 'T', t)

    # ---- misc
    def writes_to_field(self, field, adt=None):
        """assignment statements whose destination's *last* field projection is `field`"""
        out = []
        for b in sorted(self.reachable()):
            for i, st in enumerate(self.stmts(b)):
                if st['k'] != 'assign':
                    continue
                fl = [e for e in st['p']['pr'] if e['k'] == 'field']
                if fl and fl[-1].get('n') == field and (adt is None or fl[-1].get('adt') == adt):
                    out.append((b, i, st))
                elif not fl and st['p']['pr'] and st['p']['pr'][0]['k'] == 'deref':
                    # store through a reference held in a local: `*r = v` with r = &mut x.field  /  r = x.field (a &mut field)
                    t = self.expr_place(st['p'], b, i)
                    while t[0] in ('deref', 'ref'):
                        t = t[1]
                    if t[0] == 'field' and t[2] == field and (adt is None or strip_generics(t[3]) == adt):
                        out.append((b, i, st))
        return out

    def field_mut_borrows(self, field, adt=None):
        out = []
        for b in sorted(self.reachable()):
            for i, st in enumerate(self.stmts(b)):
                if st['k'] == 'assign' and st['r']['k'] in ('ref', 'rawptr') and st['r'].get('mut'):
                    fl = [e for e in st['r']['p']['pr'] if e['k'] == 'field']
                    if fl and fl[-1].get('n') == field and (adt is None or fl[-1].get('adt') == adt):
                        out.append((b, i, st))
        return out


class TooManyPaths(Exception):
    pass


# --------------------------------------------------------------------------- trees


def strip_refs(t):
    while t and t[0] in ('ref', 'rawref'):
        t = t[1]
    return t


def peel(t):
    """remove refs / derefs / copies / clones / trivial casts to reach the underlying value"""
    while True:
        if t[0] in ('ref', 'rawref', 'deref'):
            t = t[1]; continue
        if t[0] == 'call' and t[1] in ('std::clone::Clone::clone', 'std::ops::Deref::deref', 'std::ops::DerefMut::deref_mut',
                                     'std::convert::Into::into', 'std::convert::From::from',
                                     'std::borrow::Borrow::borrow', 'std::convert::AsRef::as_ref') and len(t[2]) == 1:
            t = t[2][0]; continue
        return t


def show(t, depth=0):
    if depth > 14:
        return '…'
    k = t[0]
    if k == 'arg':
        return t[2]
    if k == 'local':
        return '_%d' % t[1]
    if k == 'var':
        return t[2]
    if k == 'int':
        return str(t[1])
    if k == 'const':
        return t[1].replace('const ', '')
    if k == 'fnitem':
        return t[1]
    if k == 'promoted':
        return 'promoted[%d]' % t[1]
    if k == 'constdef':
        return t[1]
    if k == 'static':
        return 'static(%s)' % t[1]
    if k in ('ref', 'rawref'):
        return '&' + show(t[1], depth + 1)
    if k == 'deref':
        return '*' + show(t[1], depth + 1)
    if k == 'field':
        return '%s.%s' % (show(t[1], depth + 1), t[2])
    if k == 'index':
        return '%s[%s]' % (show(t[1], depth + 1), show(t[2], depth + 1))
    if k == 'as':
        return '(%s as %s)' % (show(t[1], depth + 1), t[2])
    if k == 'bin':
        return '(%s %s %s)' % (show(t[2], depth + 1), t[1], show(t[3], depth + 1))
    if k == 'un':
        return '%s(%s)' % (t[1], show(t[2], depth + 1))
    if k == 'cast':
        return '(%s as %s)' % (show(t[2], depth + 1), t[3])
    if k == 'discr':
        return 'discr(%s)' % show(t[1], depth + 1)
    if k == 'agg':
        return '%s{%s}' % (t[1], ', '.join(show(x, depth + 1) for x in t[2]))
    if k == 'call':
        return '%s(%s)' % (short(t[1]), ', '.join(show(x, depth + 1) for x in t[2]))
    if k == 'callind':
        return '(%s)(%s)' % (show(t[1], depth + 1), ', '.join(show(x, depth + 1) for x in t[2]))
    if k == 'phi':
        return 'phi[%s](%s)' % (t[2], ' | '.join(show(x, depth + 1) for x in t[1]))
    if k == 'upd':
        return 'upd(%s)' % show(t[1], depth + 1)
    if k == 'repeat':
        return '[%s; %s]' % (show(t[1], depth + 1), t[2])
    return str(t)


def short(name):
    """last two path segments"""
    parts = name.split('::')
    return '::'.join(parts[-2:]) if len(parts) > 2 else name


def walk(t):
    """all subtrees"""
    yield t
    if isinstance(t, tuple):
        for x in t[1:]:
            if isinstance(x, tuple) and x and isinstance(x[0], str):
                yield from walk(x)
            elif isinstance(x, tuple):
                for y in x:
                    if isinstance(y, tuple) and y and isinstance(y[0], str):
                        yield from walk(y)


def tree_calls(t):
    return [x for x in walk(t) if x[0] == 'call']


def tree_has_call(t, *names):
    return any(x[1] in names for x in tree_calls(t))


def tree_fields(t):
    return [x for x in walk(t) if x[0] == 'field']


_OP_CALL = re.compile(r'^<(u8|u16|u32|u64|u128|usize|i8|i16|i32|i64|i128|isize|f32|f64) as std::ops::(Add|Sub|Mul|Div|Rem|BitAnd|BitOr|BitXor|Shl|Shr)>::[a-z]+$')


def canon(t):
    """canonical form for structural equality: drop block ids of calls, arg indices -> names, refs"""
    k = t[0]
    if k in ('ref', 'rawref'):
        return canon(t[1])
    if k == 'deref':
        return canon(t[1])
    if k == 'call':
        if len(t[2]) == 2 and t[1].endswith(('::index', '::index_mut')) and 'std::ops::Index' in t[1]:
            return ('index', canon(t[2][0]), canon(t[2][1]))
        # operator traits on primitive integers/floats: `a.rem(b)` is `a % b`
        m = _OP_CALL.match(t[1])
        if m and len(t[2]) == 2:
            return ('bin', m.group(2), canon(t[2][0]), canon(t[2][1]))
        return ('call', t[1], tuple(canon(x) for x in t[2]))
    if k == 'arg':
        return ('arg', t[2]) if len(t) > 2 else t     # idempotent
    if k == 'field':
        return ('field', canon(t[1]), t[2])
    if k == 'bin':
        return ('bin', t[1], canon(t[2]), canon(t[3]))
    if k == 'un':
        return ('un', t[1], canon(t[2]))
    if k == 'cast':
        if len(t) == 3:
            return ('cast', canon(t[1]), t[2])     # already canonical
        return ('cast', canon(t[2]), t[3])
    if k == 'index':
        return ('index', canon(t[1]), canon(t[2]))
    if k == 'as':
        return ('as', canon(t[1]), t[2])
    if k == 'agg':
        return ('agg', t[1], tuple(canon(x) for x in t[2]))
    if k == 'phi':
        return ('phi', tuple(sorted((canon(x) for x in t[1]), key=repr)))
    if k == 'discr':
        return ('discr', canon(t[1]))
    if k == 'upd':
        return canon(t[1])
    return t


_ORD_IS = {'Less': 'lt', 'Equal': 'eq', 'Greater': 'gt'}
_ORD_ISNOT = {'Less': 'ge', 'Equal': 'ne', 'Greater': 'le'}
VARIANT_PRESERVING = ('std::option::Option::map', 'std::option::Option::as_ref', 'std::option::Option::as_mut', 'std::option::Option::cloned',
                      'std::option::Option::copied', 'std::option::Option::inspect', 'std::option::Option::as_deref', 'std::option::Option::as_deref_mut',
                      'std::result::Result::map', 'std::result::Result::map_err', 'std::result::Result::as_ref', 'std::result::Result::as_mut',
                      'std::result::Result::inspect', 'std::result::Result::inspect_err')


def untry(a):
    """normalise the subject of a variant test: `x?` tests `Try::branch(x)` (Continue/Break of an Option is Some/None of x, of a
    Result Ok/Err); `x.map(f)`, `x.as_ref()` ... are in the same variant as x"""
    if a and a[0] == 'bool' and a[1][0] == 'call' and a[1][1] == 'std::time::Duration::is_zero' and len(a[1][2]) == 1:
        # d.is_zero()  <=>  d == Duration::ZERO
        x = a[1][2][0]
        while isinstance(x, tuple) and x and x[0] in ('ref', 'deref'):
            x = x[1]
        return ('cmp', 'eq' if a[2] else 'ne', x, ('constdef', 'std::time::Duration::ZERO'))
    for _ in range(6):
        if not (a and a[0] == 'is' and a[1][0] == 'call' and a[1][2]):
            return a
        n = a[1][1]
        if n.endswith('std::ops::Try>::branch'):
            if 'Option' in n:
                a = ('is', a[1][2][0], {'Continue': 'Some', 'Break': 'None'}.get(a[2], a[2]))
                continue
            if 'Result' in n:
                a = ('is', a[1][2][0], {'Continue': 'Ok', 'Break': 'Err'}.get(a[2], a[2]))
                continue
        if n in VARIANT_PRESERVING:
            a = ('is', a[1][2][0], a[2])
            continue
        if n in ('std::option::Option::ok_or', 'std::option::Option::ok_or_else') and a[2] in ('Ok', 'Err'):
            a = ('is', a[1][2][0], 'Some' if a[2] == 'Ok' else 'None')
            continue
        if n == 'std::result::Result::ok' and a[2] in ('Some', 'None'):
            a = ('is', a[1][2][0], 'Ok' if a[2] == 'Some' else 'Err')
            continue
        if n == 'std::result::Result::err' and a[2] in ('Some', 'None'):
            a = ('is', a[1][2][0], 'Err' if a[2] == 'Some' else 'Ok')
            continue
        if n.endswith(('bool::then_some', 'bool::then')) and a[2] in ('Some', 'None'):
            # c.then_some(v) is Some exactly when c holds
            c = a[1][2][0]
            truth = a[2] == 'Some'
            while c[0] == 'un' and c[1] == 'Not':
                c = c[2]; truth = not truth
            return ('bool', c, truth)
        return a
    return a




INT_TYS = {'u8', 'u16', 'u32', 'u64', 'u128', 'usize', 'i8', 'i16', 'i32', 'i64', 'i128', 'isize', 'char'}


def atom_of(cond, val, ty=None):
    """Normalise a branch fact (cond tree, ('eq',v)|('ne',(vs))) to an atom:
       ('cmp', op, lhs, rhs)  – op in lt le gt ge eq ne, operands stripped of refs
       ('is', tree, variant)/('isnot', tree, variants) for enum discriminants
       ('bool', tree, True/False) for other boolean values
    """
    truth = None
    if val[0] == 'eq':
        v = val[1]
        truth = bool(v)
    else:
        listed = val[1]
        if listed == (0,):
            truth = True
        elif listed == (1,):
            truth = False
    c = cond
    # Not(...)
    while c[0] == 'un' and c[1] == 'Not':
        c = c[2]
        if truth is not None:
            truth = not truth
    if c[0] == 'discr':
        names = dict(c[3])
        if val[0] == 'eq':
            a = ('is', canon(c[1]), names.get(val[1], str(val[1])))
        else:
            rest = [n for d, n in c[3] if d not in val[1]]
            if len(rest) == 1:
                a = ('is', canon(c[1]), rest[0])
            else:
                a = ('isnot', canon(c[1]), tuple(names.get(x, str(x)) for x in val[1]))
        # a three-way comparison: `match a.cmp(&b) { Less => .., Equal => .., Greater => .. }`
        subj = a[1]
        if subj[0] == 'call' and len(subj[2]) == 2 and subj[1].endswith('std::cmp::Ord>::cmp'):
            l, r = subj[2][0], subj[2][1]
            if a[0] == 'is' and a[2] in _ORD_IS:
                return ('cmp', _ORD_IS[a[2]], l, r)
            if a[0] == 'isnot' and len(a[2]) == 1 and a[2][0] in _ORD_ISNOT:
                return ('cmp', _ORD_ISNOT[a[2][0]], l, r)
        return a
    if ty in INT_TYS and c is cond:
        # `match n { 0 => .., k => .. }` on an integer: an equality test against the listed value
        if val[0] == 'eq':
            return ('cmp', 'eq', canon(strip_refs(c)), ('int', val[1]))
        if len(val[1]) == 1:
            return ('cmp', 'ne', canon(strip_refs(c)), ('int', val[1][0]))
        return ('switch', canon(c), val)
    if truth is None:
        return ('switch', canon(c), val)
    if c[0] == 'call' and c[1] in CMP_METHODS and len(c[2]) == 2:
        op = CMP_METHODS[c[1]]
        if not truth:
            op = NEG[op]
        return ('cmp', op, canon(strip_refs(c[2][0])), canon(strip_refs(c[2][1])))
    if c[0] == 'call' and len(c[2]) == 2 and c[1].startswith('<') and c[1].split('>::')[-1] in ('lt', 'le', 'gt', 'ge', 'eq', 'ne') \
            and ('std::cmp::PartialOrd' in c[1] or 'std::cmp::PartialEq' in c[1]):
        op = c[1].split('>::')[-1]
        if not truth:
            op = NEG[op]
        return ('cmp', op, canon(strip_refs(c[2][0])), canon(strip_refs(c[2][1])))
    if c[0] == 'bin' and c[1] in CMP_BINOPS:
        op = CMP_BINOPS[c[1]]
        if not truth:
            op = NEG[op]
        return ('cmp', op, canon(c[2]), canon(c[3]))
    return ('bool', canon(c), truth)


# --------------------------------------------------------------------------- program


def _is_static_key(base_all, k):
    """is the pinned key `k` a static (its pinned entry is a single type, and no function/ADT of that name is pinned)?"""
    st = base_all.get('statics')
    if st is not None:
        return k in st
    last = k.rsplit('::', 1)[-1]
    return last.isupper() or (last.replace('_', '').isupper())


class Program:
    def __init__(self, fact_dir, cfg='A'):
        self.cfg = cfg
        self.crates = {}
        self.fns = {}          # key -> Fn   (first wins; duplicates recorded)
        self.fn_list = []
        self.adts = {}
        self.statics = []
        self.impls = []
        bp = os.path.join(os.path.dirname(os.path.dirname(os.path.abspath(__file__))), 'baseline_fns.json')
        base_all = json.load(open(bp)) if os.path.exists(bp) and not os.environ.get('DES_NO_BASELINE') else None
        loaded = []
        for fn in sorted(os.listdir(fact_dir)):
            if fn.endswith('.json'):
                loaded.append(json.load(open(os.path.join(fact_dir, fn))))
        self.name_map = {'adts': {}, 'fields': {}, 'variants': {}}
        if isinstance(base_all, dict) and base_all.get('adts'):
            loaded, self.name_map = _normalise_names(loaded, base_all['adts'])
            # a static moved into a nested / enclosing module under the same name and type (`runtime::RNG` -> `runtime::rng::RNG`)
            bf = base_all.get('fns', {})
            cur_paths = {strip_generics(f['path']) for d in loaded for f in d['fns']} | {strip_generics(x['path']) for d in loaded for x in d['statics']}
            sren = {}
            for d in loaded:
                for x in d['statics']:
                    n = strip_generics(x['path'])
                    if n in bf or '__CALLSITE' in n:
                        continue
                    body = next((f for f in d['fns'] if f.get('kind') == 'static' and strip_generics(f['path']) == n), None)
                    sty = [body['body']['locals'][0]['ty']] if body else [x['ty']]
                    ks = [k for k in bf if k not in cur_paths and k.rsplit('::', 1)[-1] == n.rsplit('::', 1)[-1] and bf[k] == sty
                          and (n.rsplit('::', 1)[0].startswith(k.rsplit('::', 1)[0] + '::') or k.rsplit('::', 1)[0].startswith(n.rsplit('::', 1)[0] + '::'))]
                    if not ks:
                        # a private static renamed in place: same module, same type, and exactly one pinned static of that type in
                        # that module has disappeared
                        ks = [k for k in bf if k not in cur_paths and bf[k] == sty and k.rsplit('::', 1)[0] == n.rsplit('::', 1)[0]
                              and base_all.get('kinds', {}).get(k, 'static') == 'static' and _is_static_key(base_all, k)]
                    if not ks:
                        # moved to a sibling module and renamed (`time::sleep::SLEEP_ID` -> `time::driver::NEXT_TIMER_ID`, possibly nested
                        # in a function there): same type, and the only static of that type that left / entered this family of modules
                        def fam(key):
                            ps = key.split('::')
                            return '::'.join(ps[:2]) if len(ps) > 2 else ps[0]
                        gone = [k for k in bf if k not in cur_paths and bf[k] == sty and fam(k) == fam(n) and _is_static_key(base_all, k)]
                        fresh = [strip_generics(y['path']) for d2 in loaded for y in d2['statics'] if strip_generics(y['path']) not in bf and '__CALLSITE' not in y['path']
                                 and fam(strip_generics(y['path'])) == fam(n) and
                                 ([next((f_['body']['locals'][0]['ty'] for f_ in d2['fns'] if f_.get('kind') == 'static' and strip_generics(f_['path']) == strip_generics(y['path'])), y['ty'])] == sty)]
                        if len(gone) == 1 and len(set(fresh)) == 1:
                            ks = gone
                    if not ks:
                        # renamed and re-typed at once (`SIMTIME: (AtomicU64, AtomicU32)` -> `SIM_CLOCK: SimClock`): the only static that
                        # disappeared from this module and the only new one in it
                        gone = [k for k in bf if k not in cur_paths and k.rsplit('::', 1)[0] == n.rsplit('::', 1)[0] and _is_static_key(base_all, k) and len(bf[k]) == 1]
                        fresh = [strip_generics(y['path']) for d2 in loaded for y in d2['statics'] if strip_generics(y['path']) not in bf and '__CALLSITE' not in y['path']
                                 and strip_generics(y['path']).rsplit('::', 1)[0] == n.rsplit('::', 1)[0]]
                        if len(gone) == 1 and len(set(fresh)) == 1:
                            ks = gone
                    if len(ks) == 1:
                        sren[n] = ks[0]
            if sren and len(set(sren.values())) == len(sren):
                loaded, _ = _apply_adt_renames(loaded, sren)
                self.name_map['statics'] = sren
        for d in loaded:
            self.crates[d['crate']] = d
            for fj in d['fns']:
                f = Fn(fj, d['crate'])
                self.fn_list.append(f)
                self.fns.setdefault(f.key, f)
                for p in f.promoted:
                    self.fn_list.append(p)
                    self.fns.setdefault(p.key, p)
            for a in d['adts']:
                self.adts[strip_generics(a['path'])] = a
            for s in d['statics']:
                s = dict(s); s['crate'] = d['crate']
                self.statics.append(s)
            for im in d['impls']:
                im = dict(im); im['crate'] = d['crate']
                self.impls.append(im)
        self._callers = None
        for f in self.fn_list:
            f.program = self
        self.inlined = []
        self.renamed = {}
        bp = os.path.join(os.path.dirname(os.path.dirname(os.path.abspath(__file__))), 'baseline_fns.json')
        if os.path.exists(bp) and not os.environ.get('DES_NO_BASELINE'):
            base = json.load(open(bp))
            self.baseline_callers = base.get('callers', {}) if isinstance(base, dict) and 'fns' in base else {}
            if isinstance(base, dict) and cfg in (base.get('callers_by_cfg') or {}):
                self.baseline_callers = base['callers_by_cfg'][cfg]
            self.baseline_fp = base.get('fp', {}) if isinstance(base, dict) else {}
            self.baseline_adts = base.get('adts') if isinstance(base, dict) else None
            if isinstance(base, dict) and 'fns' in base:
                base = base['fns']
            if isinstance(base, list):
                base = {k: None for k in base}
            self.baseline = base
            self.renamed = apply_renames(self, base)
            self.duals = normalise_duals(self, set(base))
            self.inlined = inline_new_helpers(self, set(base))

    def scope_of(self, key, depth=2):
        """the bodies that contain the code of pinned function `key` today: the function itself, or — when a small private helper was
        inlined into its callers and deleted — the current versions of the functions that called it on the pinned tree"""
        f = self.fns.get(key)
        if f is not None:
            return [f]
        if depth <= 0:
            return []
        out = []
        for c in getattr(self, 'baseline_callers', {}).get(key, []):
            for g in self.scope_of(c, depth - 1):
                if g not in out:
                    out.append(g)
        return out

    def fn(self, key):
        f = self.fns.get(key)
        if f is None:
            raise MissingAnchor(key)
        return f

    def find(self, suffix=None, regex=None):
        out = []
        for f in self.fn_list:
            if suffix and f.key.endswith(suffix):
                out.append(f)
            elif regex and re.search(regex, f.key):
                out.append(f)
        return out

    def one(self, suffix):
        fs = self.find(suffix=suffix)
        if len(fs) != 1:
            raise MissingAnchor('%s (found %d)' % (suffix, len(fs)))
        return fs[0]

    def closures_of(self, f, transitive=True):
        out = []
        for g in self.fn_list:
            if g.kind == 'closure' and (g.parent == f.key or (transitive and g.root == f.key and g.key != f.key)):
                out.append(g)
        # closures whose aggregate is built in these bodies although they were written in an inlined helper
        seen = {g.key for g in out} | {f.key}
        work = [f] + list(out)
        base = getattr(self, 'baseline', None)
        while work:
            h = work.pop()
            if base is not None:
                # a NEW private function handed over as a callback (`self.access(Entry::accepts::<T>)`) plays the role of the closure
                # `|e| e.accepts::<T>()` it replaced
                for ck in h.fn_items_passed():
                    g = self.fns.get(ck)
                    if g is not None and ck not in base and g.key not in seen and g.kind not in ('closure', 'promoted'):
                        seen.add(g.key)
                        out.append(g)
                        if transitive:
                            work.append(g)
            for (_, _, ck) in h.closures_created():
                g = self.fns.get(ck)
                if g is not None and g.key not in seen:
                    seen.add(g.key)
                    out.append(g)
                    if transitive:
                        work.append(g)
                        for g2 in self.fn_list:
                            if g2.kind == 'closure' and g2.root == g.root and g2.key.startswith(g.key + '::') and g2.key not in seen:
                                seen.add(g2.key); out.append(g2); work.append(g2)
        return out

    def impls_of_trait_method(self, trait, method):
        out = []
        for f in self.fn_list:
            if f.trait and strip_generics(f.trait) == trait and f.name == method:
                out.append(f)
        return out

    def has_impl(self, trait, adt):
        return any(strip_generics(i['trait']) == trait and i.get('self_adt') and strip_generics(i['self_adt']) == adt
                   for i in self.impls)

    # call graph --------------------------------------------------------
    def callees_of(self, f):
        """set of local fn keys f may call: resolved static calls, closures it creates, every local impl
        for calls through a trait method that did not resolve to a concrete item"""
        key = ('callees', f.key)
        c = getattr(self, '_cg', None)
        if c is None:
            c = self._cg = {}
        if f.key in c:
            return c[f.key]
        out = set()
        for s in f.calls():
            n = s.name
            if n in self.fns:
                out.add(n)
            if s.callee and s.callee in self.fns and s.callee != n:
                out.add(s.callee)
            if s.trait and (s.res is None or s.res == s.callee or s.resk == 'virtual'):
                # unresolved trait call: all local impls of that method
                m = s.callee.split('::')[-1]
                cands = self.impls_of_trait_method(strip_generics(s.trait), m)
                # when the Self type of the call is a concrete type, only its own impl can be the callee
                st = strip_generics(s.targs[0].lstrip('&').replace('mut ', '')) if s.targs else ''
                if '::' in st and not st.startswith('<'):
                    exact = [g for g in cands if strip_generics((g.self_ty or '').lstrip('&')) == st]
                    cands = exact
                for g in cands:
                    out.add(g.key)
            # formatting machinery: Argument::new_display::<T>(&x) / x.to_string() call <T as Display>::fmt through
            # a function pointer created inside std
            last = n.split('::')[-1]
            if last in ('new_display', 'new_debug', 'to_string', 'new_lower_hex', 'new_upper_hex') and s.targs:
                tr = 'std::fmt::Debug' if last == 'new_debug' else 'std::fmt::Display'
                ty = strip_generics(s.targs[0].lstrip('&').replace('mut ', ''))
                for g in self.fmt_impls().get((tr, ty), []):
                    out.add(g)
        for (_, _, ck) in f.closures_created():
            if ck in self.fns:
                out.add(ck)
        # fn items used as values (passed as callbacks)
        for b in sorted(f.reachable()):
            for st in f.stmts(b):
                if st['k'] == 'assign':
                    for op in _operands_of_rvalue(st['r']):
                        if op.get('k') == 'const' and 'fn' in op:
                            k2 = strip_generics(op['fn'])
                            if k2 in self.fns:
                                out.add(k2)
            t = f.term(b)
            if t['k'] == 'call':
                for op in t['args']:
                    if op.get('k') == 'const' and 'fn' in op:
                        k2 = strip_generics(op['fn'])
                        if k2 in self.fns:
                            out.add(k2)
        c[f.key] = out
        return out

    def fmt_impls(self):
        c = getattr(self, '_fmt', None)
        if c is None:
            c = self._fmt = {}
            for g in self.fn_list:
                if g.name == 'fmt' and g.trait and g.kind == 'assocfn':
                    tr = strip_generics(g.trait)
                    ty = strip_generics((g.self_ty or '').lstrip('&'))
                    c.setdefault((tr, ty), []).append(g.key)
        return c

    def callers_of(self, key):
        if self._callers is None:
            self._callers = defaultdict(set)
            for f in self.fn_list:
                for c in self.callees_of(f):
                    self._callers[c].add(f.key)
        return self._callers[key]

    def call_sites_of(self, *names):
        """all call sites (in any local body) whose resolved or declared callee is one of names"""
        out = []
        for f in self.fn_list:
            for s in f.calls():
                if s.names() & set(names):
                    out.append(s)
        return out

    def reachable_from(self, roots):
        seen = set()
        st = [r for r in roots]
        parent = {}
        while st:
            k = st.pop()
            if k in seen or k not in self.fns:
                continue
            seen.add(k)
            for c in self.callees_of(self.fns[k]):
                if c not in seen:
                    parent.setdefault(c, k)
                    st.append(c)
        return seen, parent

    def writers_of_field(self, field, adt):
        """functions containing a direct assignment to adt.field, or taking &mut of it"""
        out = []
        for f in self.fn_list:
            w = f.writes_to_field(field, adt)
            m = f.field_mut_borrows(field, adt)
            if w or m:
                out.append((f, w, m))
        return out

    # type graph --------------------------------------------------------
    def strong_graph(self):
        """edges ADT -> ADT through owning fields (Box/Vec/Arc/Rc/RefCell/Option/... all owning
        containers are transparent); Weak<...> and raw pointers/references end the walk."""
        g = defaultdict(set)
        why = {}
        WEAK = ('std::sync::Weak', 'std::rc::Weak', 'alloc::sync::Weak', 'alloc::rc::Weak')

        def targets(tj, acc):
            k = tj.get('k')
            if k == 'adt':
                p = strip_generics(tj['p'])
                if p in WEAK:
                    return
                if p in self.adts:
                    acc.add(p)
                for a in tj.get('a', []):
                    targets(a, acc)
            elif k == 'tuple':
                for a in tj.get('a', []):
                    targets(a, acc)
            elif k == 'seq':
                targets(tj['t'], acc)
            elif k == 'dyn':
                acc.add('dyn ' + tj['p'])
            # refs and raw pointers do not own
        for p, a in self.adts.items():
            for v in a['variants']:
                for fld in v['fields']:
                    acc = set()
                    targets(fld['tyj'], acc)
                    for tgt in acc:
                        g[p].add(tgt)
                        why.setdefault((p, tgt), '%s.%s: %s' % (p.split('::')[-1], fld['n'], fld['ty']))
        return g, why


def _operands_of_rvalue(r):
    k = r['k']
    if k in ('use', 'repeat', 'cast'):
        return [r['o']]
    if k == 'binop':
        return [r['a'], r['b']]
    if k == 'unop':
        return [r['a']]
    if k == 'agg':
        return r['ops']
    return []


class MissingAnchor(Exception):
    pass


def sccs(graph):
    """Tarjan; graph: dict node -> iterable of nodes"""
    index = {}
    low = {}
    onstack = set()
    stack = []
    out = []
    counter = [0]
    nodes = set(graph.keys())
    for vs in list(graph.values()):
        nodes |= set(vs)

    def strong(v):
        work = [(v, iter(graph.get(v, ())))]
        index[v] = low[v] = counter[0]; counter[0] += 1
        stack.append(v); onstack.add(v)
        while work:
            n, it = work[-1]
            adv = False
            for w in it:
                if w not in index:
                    index[w] = low[w] = counter[0]; counter[0] += 1
                    stack.append(w); onstack.add(w)
                    work.append((w, iter(graph.get(w, ()))))
                    adv = True
                    break
                elif w in onstack:
                    low[n] = min(low[n], index[w])
            if not adv:
                work.pop()
                if work:
                    p = work[-1][0]
                    low[p] = min(low[p], low[n])
                if low[n] == index[n]:
                    comp = []
                    while True:
                        w = stack.pop(); onstack.discard(w); comp.append(w)
                        if w == n:
                            break
                    out.append(comp)
    for v in sorted(nodes):
        if v not in index:
            strong(v)
    return out


# --------------------------------------------------------------------------- inlining of new private helpers
#
# Rules anchor on the functions that exist on the pinned tree (rules/baseline_fns.json).  A behaviour-preserving
# "extract method" refactoring moves part of an anchored function into a NEW private helper; to keep path, dominance
# and provenance rules meaningful, every call to a local function that is not in the baseline is inlined into its
# caller (MIR splice: renamed locals/blocks, arguments become assignments, returns become an assignment + goto).

import copy


def _rename(x, loff, boff, poff):
    """deep-copy a facts JSON fragment of the callee with locals, block targets and promoted indices shifted"""
    if isinstance(x, list):
        return [_rename(y, loff, boff, poff) for y in x]
    if not isinstance(x, dict):
        return x
    out = {}
    for k, v in x.items():
        if k == 'l' and isinstance(v, int):
            out[k] = v + loff
        elif k == 'promoted' and isinstance(v, int):
            out[k] = v + poff
        else:
            out[k] = _rename(v, loff, boff, poff)
    return out


def _retarget_term(t, boff):
    t = dict(t)
    k = t['k']
    if k in ('goto', 'drop', 'assert', 'yield') and t.get('t') is not None:
        t['t'] = t['t'] + boff
    if k == 'call' and t.get('t') is not None:
        t['t'] = t['t'] + boff
    if k == 'switch':
        t['vals'] = [[v, tg + boff] for v, tg in t['vals']]
        t['otherwise'] = t['otherwise'] + boff
    if t.get('u') is not None:
        t['u'] = t['u'] + boff
    if k == 'yield' and t.get('drop') is not None:
        t['drop'] = t['drop'] + boff
    return t


def _apply_adt_renames(crates, adt_ren):
    pats = [(re.compile(re.escape(n) + r'(?![A-Za-z0-9_])'), k) for n, k in sorted(adt_ren.items(), key=lambda x: -len(x[0]))]
    out = []
    for d in crates:
        txt = json.dumps(d)
        for rx, k in pats:
            txt = rx.sub(lambda m, k=k: k, txt)
        out.append(json.loads(txt))
    crates = out
    cur = {}
    for d in crates:
        for a in d['adts']:
            cur.setdefault(strip_generics(a['path']), a)
            # a struct's single variant carries the struct's short name
            for n, k in adt_ren.items():
                if strip_generics(a['path']) == k:
                    for v in a.get('variants', []):
                        if v.get('n') == n.rsplit('::', 1)[-1]:
                            v['n'] = k.rsplit('::', 1)[-1]
    return crates, cur


def _normalise_names(crates, badts):
    """Private types, fields and enum variants renamed since the pinned tree are mapped back to their pinned names, so that rules
    (which speak about the pinned program) read a renamed program exactly as they read the original.  Detection is structural:
      * a pinned ADT that is gone + exactly one new ADT of the same module with the same shape (kind, per variant the field types
        in order, own name abstracted)                          -> type rename;
      * same ADT, same number of variants/fields with the same types position by position, a name that exists on one side only
                                                                -> field / variant rename.
    Returns (rewritten crates, {'adts': {new: old}, 'fields': {(adt, new): old}, 'variants': {(adt, new): old}})."""
    cur = {}
    for d in crates:
        for a in d['adts']:
            cur.setdefault(strip_generics(a['path']), a)

    def par(k):
        return k.rsplit('::', 1)[0]

    def shape_cur(a, own):
        return (a.get('kind'), tuple(tuple(f['ty'].replace(own, 'Self') for f in v['fields']) for v in a.get('variants', [])))

    def shape_base(a, own):
        return (a.get('kind'), tuple(tuple(ty.replace(own, 'Self') for _, ty in v[1]) for v in a.get('variants', [])))
    adt_ren = {}
    for _round in range(3):
        missing = [k for k in badts if k not in cur]
        new = [k for k in cur if k not in badts]
        cand = {}

        def related(a, b):
            return a == b or a.startswith(b + '::') or b.startswith(a + '::')
        for k in missing:
            if not badts[k].get('variants') or not any(v[1] for v in badts[k]['variants']):
                continue   # field-less types have no shape to recognise them by
            cs = [n for n in new if par(n) == par(k) and shape_cur(cur[n], n) == shape_base(badts[k], k)]
            if not cs:
                # the type moved into a nested / enclosing module (same short name or not), e.g. `body::VTable` -> `body::erased::VTable`
                cs = [n for n in new if related(par(n), par(k)) and shape_cur(cur[n], n) == shape_base(badts[k], k)]
                same = [n for n in cs if n.rsplit('::', 1)[-1] == k.rsplit('::', 1)[-1]]
                cs = same if len(same) == 1 else cs
            if not cs:
                # the type moved to another module of the same crate under its own name (`linked_list::EventNode` -> `node::EventNode`)
                cs = [n for n in new if n.split('::', 1)[0] == k.split('::', 1)[0] and n.rsplit('::', 1)[-1] == k.rsplit('::', 1)[-1]
                      and shape_cur(cur[n], n) == shape_base(badts[k], k)]
                if not cs:
                    # ... together with the types it refers to (a group of mutually referring types moved into one new module): compare
                    # the shapes with the new module's path read as the old one
                    def shape_moved(a, own, frm, to):
                        return (a.get('kind'), tuple(tuple(f['ty'].replace(own, 'Self').replace(frm + '::', to + '::') for f in v['fields']) for v in a.get('variants', [])))
                    cs = [n for n in new if n.split('::', 1)[0] == k.split('::', 1)[0] and n.rsplit('::', 1)[-1] == k.rsplit('::', 1)[-1]
                          and shape_moved(cur[n], n, par(n), par(k)) == shape_base(badts[k], k)]
            if len(cs) == 1:
                cand[k] = cs[0]
        used = defaultdict(list)
        for k, n in cand.items():
            used[n].append(k)
        step = {n: k for k, n in cand.items() if len(used[n]) == 1}
        if not step:
            break
        adt_ren.update(step)
        crates, cur = _apply_adt_renames(crates, step)
    fren, vren = {}, {}
    for k, b in badts.items():
        a = cur.get(k)
        if a is None or a.get('kind') != b.get('kind') or len(a.get('variants', [])) != len(b.get('variants', [])):
            continue
        bv, av = b['variants'], a['variants']
        if not all(len(x[1]) == len(y['fields']) and all(bf[1] == af['ty'] for bf, af in zip(x[1], y['fields'])) for x, y in zip(bv, av)):
            continue
        if a.get('kind') == 'enum':
            bn, an = [x[0] for x in bv], [y.get('n') for y in av]
            for o, n in zip(bn, an):
                if o != n and o not in an and n not in bn:
                    vren[(k, n)] = o
        for x, y in zip(bv, av):
            bn, an = [f[0] for f in x[1]], [f['n'] for f in y['fields']]
            for o, n in zip(bn, an):
                if o != n and o not in an and n not in bn and not str(o).isdigit():
                    fren[(k, n)] = o
    if fren or vren:
        def rw(x):
            if isinstance(x, list):
                for y in x:
                    rw(y)
            elif isinstance(x, dict):
                adt = x.get('adt')
                if isinstance(adt, str):
                    ak = strip_generics(adt)
                    if x.get('k') == 'field' and (ak, x.get('n')) in fren:
                        x['n'] = fren[(ak, x['n'])]
                    if x.get('k') == 'agg' and isinstance(x.get('fields'), list):
                        x['fields'] = [fren.get((ak, n), n) for n in x['fields']]
                    for fld in ('v', 'variant'):
                        if isinstance(x.get(fld), str) and (ak, x[fld]) in vren:
                            x[fld] = vren[(ak, x[fld])]
                    if isinstance(x.get('variants'), list):
                        x['variants'] = [[i, vren.get((ak, n), n)] for i, n in x['variants']]
                for v in x.values():
                    if isinstance(v, (list, dict)):
                        rw(v)
        for d in crates:
            rw(d['fns'])
            for a in d['adts']:
                ak = strip_generics(a['path'])
                for v in a.get('variants', []):
                    if (ak, v.get('n')) in vren:
                        v['n'] = vren[(ak, v['n'])]
                    for f in v['fields']:
                        if (ak, f['n']) in fren:
                            f['n'] = fren[(ak, f['n'])]
    return crates, {'adts': adt_ren, 'fields': {'%s.%s' % k: o for k, o in fren.items()}, 'variants': {'%s::%s' % k: o for k, o in vren.items()}}


def fn_signature(f):
    """[return type, argument types...] of a body"""
    return [f.locals[i]['ty'] for i in range(0, f.argc + 1)]


def _local_callees(P, f):
    out = set()
    for blk in f.blocks:
        t = blk['t']
        if t['k'] == 'call':
            c = strip_generics(t['res']) if t.get('res') else (strip_generics(t['callee']) if t.get('callee') else None)
            if c:
                out.add(c)
    return out


def _callees_with_closures(P, f):
    """callees of f and of the closures written in it (the baseline attributes a closure's calls to its root function)"""
    out = set(_local_callees(P, f))
    for g in P.fn_list:
        if g.kind == 'closure' and g.root == f.key:
            out |= _local_callees(P, g)
    return out


def _callees_through_new(P, f, base, depth=3):
    """callees of f (with its closures), looking through functions that are not pinned (new private helpers): what f still calls when
    part of its body was extracted"""
    out = set()
    seen = set()
    todo = [f]
    for _ in range(depth + 1):
        nxt = []
        for g in todo:
            if g.key in seen:
                continue
            seen.add(g.key)
            cs = _callees_with_closures(P, g)
            out |= cs
            for c in cs:
                h = P.fns.get(c)
                if h is not None and c not in base and h.kind in ('fn', 'assocfn'):
                    nxt.append(h)
        todo = nxt
    return out


def apply_renames(P, base):
    """A function of the pinned tree that no longer exists while exactly one NEW function with the same parent path and the
    same signature appeared is treated as renamed: the new function answers to the old key (rules anchor on pinned names).
    Returns {new key: old key}."""
    present = {f.key for f in P.fn_list if f.kind not in ('closure', 'promoted')}
    missing = [k for k in base if k not in present and base[k] is not None]
    new = [f for f in P.fn_list if f.kind in ('fn', 'assocfn') and f.key not in base]   # (constants / statics are never a renamed function)
    def parent(k):
        return k.rsplit('::', 1)[0]
    # a pinned name that was given a new signature while a NEW function of the same parent has exactly the pinned signature and is what
    # the re-signed one delegates to (`incoming_upstream(Option<Message>)` -> `upstream(Option<Message>)` + a thin
    # `incoming_upstream(Message)`): the new function answers to the pinned key, the thin one becomes a new helper
    taken = {}
    for k, sig in base.items():
        f0 = P.fns.get(k)
        if sig is None or f0 is None or f0.kind not in ('fn', 'assocfn') or fn_signature(f0) == sig or len(sig) < 2:
            continue
        cs = [f for f in new if parent(f.key) == parent(k) and fn_signature(f) == sig and f.key in _local_callees(P, f0)]
        if len(cs) == 1 and len(f0.blocks) <= 8:
            taken[k] = cs[0]
    if (not missing or not new) and not taken:
        return {}
    cand = {}
    for k in missing:
        cs = [f for f in new if parent(f.key) == parent(k) and fn_signature(f) == base[k]]
        if not cs:
            # a nested fn moved out to the enclosing impl/module (or a helper moved into its only user): the scopes are nested
            cs = [f for f in new if fn_signature(f) == base[k] and parent(f.key) != parent(k) and
                  (parent(k).startswith(parent(f.key) + '::') or parent(f.key).startswith(parent(k) + '::'))]
        if not cs:
            # an inherent method whose impl block was moved to another module (or next to its type): rustc names it after the module
            # of the impl block (`a::m::<impl a::B>::f`) resp. after the type (`a::B::f`) — same name, same full signature, same type
            last = k.rsplit('::', 1)[-1]
            cs = [f for f in new if f.key.rsplit('::', 1)[-1] == last and fn_signature(f) == base[k] and len(base[k]) > 1 and f.self_adt
                  and not f.trait and (strip_generics(f.self_adt) == parent(k) or strip_generics(f.self_adt) == parent(f.key) or '<impl ' in f.j.get('path', ''))]
            if len(cs) != 1 or sum(1 for k2 in missing if k2.rsplit('::', 1)[-1] == last and base[k2] == base[k]) != 1:
                cs = []
        if not cs:
            # a free function moved to another module of the same crate under its own name (`props::yaml::compartmentalize_map` ->
            # `props::wildcard::compartmentalize_map`): same name, same full signature, unique on both sides, and it still calls every
            # pinned function the old one called
            last = k.rsplit('::', 1)[-1]
            if not last[:1].isupper() and not parent(k).rsplit('::', 1)[-1][:1].isupper():
                old_callees_ = {c for c, callers in getattr(P, 'baseline_callers', {}).items() if k in callers and c in P.fns and c != k}
                cs = [f for f in new if f.kind == 'fn' and f.key.rsplit('::', 1)[-1] == last and fn_signature(f) == base[k] and len(base[k]) > 1
                      and f.key.split('::', 1)[0] == k.split('::', 1)[0] and old_callees_ <= (_callees_through_new(P, f, base) | {f.key})]
                if len(cs) != 1 or sum(1 for k2 in missing if k2.rsplit('::', 1)[-1] == last and base[k2] == base[k]) != 1:
                    cs = []
        if not cs:
            # an associated function moved to a sibling type / to module level of the same module (`Inner::alloc_from_region(node, ..)`
            # -> `ListNode::fit(&self, ..)`): same full signature, still calls what the old one called, and a pinned caller of the
            # old function calls it now
            def module_of(key):
                ps = key.split('::')
                while len(ps) > 1 and (ps[-1][:1].isupper() or ps[-1].startswith('<')):
                    ps = ps[:-1]
                return '::'.join(ps)
            old_callees = {c for c, callers in getattr(P, 'baseline_callers', {}).items() if k in callers and c in P.fns}
            old_callers = set(getattr(P, 'baseline_callers', {}).get(k, []))
            cs = [f for f in new if fn_signature(f) == base[k] and len(base[k]) > 1 and module_of(parent(f.key)) == module_of(parent(k))
                  and old_callees <= _callees_with_closures(P, f)
                  and any(f.key in _callees_with_closures(P, P.fns[c]) for c in old_callers if c in P.fns)]
        if not cs and len(base[k]) > 1:
            # a type was split (`Harness` -> `Harness` + `Outcome`): a method keeps its name, module, result and other parameters, only its
            # receiver is the NEW type; it still calls what the old one called and a pinned caller of the old method calls it now
            def module_of2(key):
                ps = key.split('::')
                while len(ps) > 1 and (ps[-1][:1].isupper() or ps[-1].startswith('<')):
                    ps = ps[:-1]
                return '::'.join(ps)
            badts = getattr(P, 'baseline_adts', None)
            last = k.rsplit('::', 1)[-1]
            old_callees = {c for c, callers in getattr(P, 'baseline_callers', {}).items() if k in callers and c in P.fns}
            old_callers = set(getattr(P, 'baseline_callers', {}).get(k, []))
            def is_new_type(f):
                return badts is not None and f.self_adt and strip_generics(f.self_adt) not in badts
            cs = [f for f in new if f.key.rsplit('::', 1)[-1] == last and not f.trait and is_new_type(f)
                  and module_of2(parent(f.key)) == module_of2(parent(k))
                  and len(fn_signature(f)) == len(base[k]) and fn_signature(f)[0] == base[k][0] and fn_signature(f)[2:] == base[k][2:]
                  and old_callees <= _callees_through_new(P, f, base)
                  and any(f.key in _local_callees(P, P.fns[c]) or any(f.key in _local_callees(P, g) for g in P.fn_list if g.kind == 'closure' and g.root == c)
                          for c in old_callers if c in P.fns)]
            if not cs:
                # ... and was renamed on the way (`Inner::add_free_region(addr, size)` -> `FreeList::push(addr, size)`), possibly into a new
                # module of the same crate: accepted only when it is the single such candidate
                cs = [f for f in new if not f.trait and is_new_type(f) and f.key.split('::', 1)[0] == k.split('::', 1)[0]
                      and len(fn_signature(f)) == len(base[k]) and len(base[k]) > 2 and fn_signature(f)[0] == base[k][0] and fn_signature(f)[2:] == base[k][2:]
                      and old_callees <= _callees_through_new(P, f, base)
                      and any(f.key in _callees_through_new(P, P.fns[c], base) for c in old_callers if c in P.fns)]
                if len(cs) != 1:
                    cs = []
        if not cs and len(base[k]) > 1:
            # a method whose receiver record was unpacked into parameters (`ev.handle_with_sink(sink)` -> `forward_message(ev.con, ev.msg, sink)`):
            # the receiver's field types replace the receiver in the signature; still calls what the old one called, pinned callers call it
            badts2 = getattr(P, 'baseline_adts', None) or {}
            recv = strip_generics(base[k][1].lstrip('&').replace('mut ', '').strip())
            rec = badts2.get(recv)
            if rec and rec.get('kind') == 'struct' and len(rec.get('variants', [])) == 1:
                ftys = sorted(ty for _, ty in rec['variants'][0][1])
                old_callees = {c for c, callers in getattr(P, 'baseline_callers', {}).items() if k in callers and c in P.fns}
                old_callers = set(getattr(P, 'baseline_callers', {}).get(k, []))
                def unpacked(f):
                    sg = fn_signature(f)
                    n = len(ftys)
                    return len(sg) == len(base[k]) - 1 + n and sg[0] == base[k][0] and sorted(sg[1:1 + n]) == ftys and sg[1 + n:] == base[k][2:]
                cs = [f for f in new if unpacked(f) and old_callees <= _callees_with_closures(P, f)
                      and any(f.key in _callees_with_closures(P, P.fns[c]) for c in old_callers if c in P.fns)]
        if not cs:
            # second tier: same argument types, the return type was changed along with the name (Result<T, ()> -> Option<T> ...) —
            # only if the candidate still calls every pinned function the old one called (otherwise it is a new helper that took
            # over a *part* of the old body, and the rest went to the caller)
            old_callees = {c for c, callers in getattr(P, 'baseline_callers', {}).items() if k in callers and c in P.fns}
            cs = [f for f in new if parent(f.key) == parent(k) and fn_signature(f)[1:] == base[k][1:] and len(base[k]) > 1
                  and old_callees <= _callees_with_closures(P, f)]
        if len(cs) > 1 and k in (getattr(P, 'baseline_fp', {}) or {}):
            # several new functions fit by place and signature (the renamed one plus new helpers): the renamed one is the one that still
            # calls what the pinned function called — decided only by a strict best match of the callee fingerprints
            want = set(P.baseline_fp[k]['callees'])
            def _cal(f):
                out = set()
                for g in [f] + [h for h in P.fn_list if h.kind == 'closure' and h.root == f.key]:
                    for blk in g.blocks:
                        t = blk['t']
                        if t['k'] == 'call':
                            c = strip_generics(t['res']) if t.get('res') else (strip_generics(t['callee']) if t.get('callee') else None)
                            if c:
                                out.add(c)
                return out
            sc = sorted(((len(want & _cal(f)) / float(len(want | _cal(f)) or 1), f.key) for f in cs), reverse=True)
            if want and sc[0][0] > 0.5 and sc[0][0] > sc[1][0]:
                cs = [f for f in cs if f.key == sc[0][1]]
        if len(cs) == 1:
            cand[k] = cs[0]
    # several functions of one parent and signature renamed together (`vclone`, `vclone_panic` -> `erased_clone`, `erased_clone_unsupported`):
    # pair them by what they call (pinned callee sets are recorded in the baseline), and by source order when that does not decide
    fps = getattr(P, 'baseline_fp', {}) or {}
    groups = defaultdict(list)
    for k in missing:
        if k not in cand:
            groups[(parent(k), json.dumps(base[k]))].append(k)
    for (par_k, sig), ks in groups.items():
        cs = [f for f in new if parent(f.key) == par_k and json.dumps(fn_signature(f)) == sig]
        if not cs:
            # ... moved together into a nested / enclosing scope (`body::vclone` -> `body::erased::vclone`, `body::vtable` -> `body::VTable::of`)
            cs = [f for f in new if json.dumps(fn_signature(f)) == sig and parent(f.key) != par_k and
                  (parent(f.key).startswith(par_k + '::') or par_k.startswith(parent(f.key) + '::'))]
            cs = [f for f in cs if f.key not in {c.key for c in cand.values()}]
        if len(ks) < 2 or len(cs) != len(ks) or not all(k in fps for k in ks):
            continue
        byname = {k: [f for f in cs if f.key.rsplit('::', 1)[-1] == k.rsplit('::', 1)[-1]] for k in ks}
        if all(len(v) == 1 for v in byname.values()) and len({v[0].key for v in byname.values()}) == len(ks):
            for k, v in byname.items():
                cand[k] = v[0]
            continue
        def callees(f):
            out = set()
            for g in [f] + [h for h in P.fn_list if h.kind == 'closure' and h.root == f.key]:
                for blk in g.blocks:
                    t = blk['t']
                    if t['k'] == 'call':
                        c = strip_generics(t['res']) if t.get('res') else (strip_generics(t['callee']) if t.get('callee') else None)
                        if c:
                            out.add(c)
            return out
        cc = {f.key: callees(f) for f in cs}
        def sim(k, f):
            a, b = set(fps[k]['callees']), cc[f.key]
            return len(a & b) / float(len(a | b) or 1)
        pairing = {}
        for k in ks:
            sc = sorted(((sim(k, f), f.key) for f in cs), reverse=True)
            if len(sc) > 1 and sc[0][0] == sc[1][0]:
                pairing = None
                break
            pairing[k] = sc[0][1]
        if pairing is None or len(set(pairing.values())) != len(ks):
            # source order
            ko = sorted(ks, key=lambda k: (fps[k]['file'], fps[k]['line']))
            co = sorted(cs, key=lambda f: (f.file, f.line))
            if len({fps[k]['file'] for k in ks}) == 1 and len({f.file for f in cs}) == 1:
                pairing = {k: f.key for k, f in zip(ko, co)}
            else:
                pairing = None
        if pairing:
            for k, nk in pairing.items():
                cand[k] = P.fns[nk]
    # one-to-one only
    used = defaultdict(list)
    for k, f in cand.items():
        used[f.key].append(k)
    ren = {f.key: k for k, f in cand.items() if len(used[f.key]) == 1}
    for k, f in taken.items():
        if f.key not in ren and k not in ren.values():
            ren[f.key] = k
            ren[k] = k + '__outer'
    if not ren:
        return {}
    def map_key(key):
        for n, k in ren.items():
            if key == n:
                return k
            if key.startswith(n + '::'):
                return k + key[len(n):]
        return key
    def map_path(pth):
        if not pth:
            return pth
        sk = strip_generics(pth)
        mk = map_key(sk)
        return mk if mk != sk else pth
    moved = [(f, map_key(f.key)) for f in P.fn_list if map_key(f.key) != f.key]
    for f, nk in moved:
        if P.fns.get(f.key) is f:
            P.fns.pop(f.key, None)
    for f, nk in moved:
        f.key = nk
        f.path = nk
        P.fns.setdefault(nk, f)
    for f in P.fn_list:
        if f.parent:
            f.parent = map_key(f.parent)
        if f.root:
            f.root = map_key(f.root)
        def rewrite(x):
            if isinstance(x, list):
                for y in x:
                    rewrite(y)
            elif isinstance(x, dict):
                for fld in ('res', 'callee', 'def', 'fn'):
                    v = x.get(fld)
                    if isinstance(v, str):
                        x[fld] = map_path(v)
                for v in x.values():
                    if isinstance(v, (list, dict)):
                        rewrite(v)
        rewrite(f.blocks)
    return ren


FN_TRAIT_CALLS = ('std::ops::FnOnce::call_once', 'std::ops::FnMut::call_mut', 'std::ops::Fn::call')


def _reset_fn(f):
    f._cache = {}
    f._names = {}
    for d in f.dbg:
        if not d['p']['pr']:
            f._names.setdefault(d['p']['l'], d['n'])


def _devirtualize(P, f, only_if_new=True):
    """calls through the Fn* traits whose callee value is a known function item or closure (typically a callback handed to
    an inlined helper) become direct calls; returns the number of rewritten sites"""
    n = 0
    for b in range(len(f.blocks)):
        t = f.blocks[b]['t']
        if t['k'] != 'call' or t.get('devirt') or len(t['args']) != 2:
            continue
        if strip_generics(t.get('callee') or '') not in FN_TRAIT_CALLS:
            continue
        r = strip_generics(t['res']) if t.get('res') else None
        tree = None
        if r and r in P.fns and r not in FN_TRAIT_CALLS:
            g0 = P.fns[r]
            # rustc resolved it already; a closure defined in this very function and called directly (`let check = |x| ..; check(a)`)
            # is spliced in as well, so that the analysed body does not depend on whether the expression was named
            if not (g0.kind == 'closure' and (g0.root == f.key or g0.parent == f.key)):
                continue
            tree = ('agg', 'closure:' + r, (), ())
        if tree is None:
            tree = peel(f.expr_operand(t['args'][0], b, 'T'))
        target = None
        env = []
        if tree[0] == 'fnitem' and tree[1] in P.fns:
            target = tree[1]
        elif tree[0] == 'agg' and str(tree[1]).startswith('closure:') and tree[1][len('closure:'):] in P.fns:
            target = tree[1][len('closure:'):]
            env = [t['args'][0]]
        if target is None:
            continue
        tup = t['args'][1]
        if not (tup['k'] in ('copy', 'move') and not tup['p']['pr']):
            continue
        tl = tup['p']['l']
        arity = None
        for st in f.blocks[b]['s']:
            if st['k'] == 'assign' and st['p']['l'] == tl and not st['p']['pr'] and st['r']['k'] == 'agg':
                arity = len(st['r']['ops'])
        if arity is None:
            continue
        args = env + [{'k': 'move', 'p': {'l': tl, 'pr': [{'k': 'field', 'i': j, 'adt': '(tuple)'}]}} for j in range(arity)]
        if len(args) != P.fns[target].argc:
            continue
        nt = dict(t)
        nt['callee'] = target
        nt['res'] = target
        nt['args'] = args
        nt['devirt'] = True
        nt.pop('trait', None)
        f.blocks[b]['t'] = nt
        n += 1
    if n:
        _reset_fn(f)
    return n


def normalise_duals(P, baseline):
    """A pinned predicate h whose body became `!g(same arguments)` for a NEW function g (the De Morgan dual: `applies` = `!admits`)
    keeps its meaning; calls to g elsewhere (and g's own recursion) are rewritten to `!h(..)`, so that rules keep reading facts about h.
    Returns [(g, h)]."""
    out = []
    for h in list(P.fn_list):
        if h.kind not in ('fn', 'assocfn') or h.key not in baseline or h.local_ty(0) != 'bool' or len(h.blocks) > 4:
            continue
        calls = [(b, h.blocks[b]['t']) for b in range(len(h.blocks)) if h.blocks[b]['t']['k'] == 'call']
        if len(calls) != 1:
            continue
        b0, t0 = calls[0]
        gk = strip_generics(t0.get('res') or t0.get('callee') or '')
        g = P.fns.get(gk)
        if g is None or gk in baseline or g is h or g.kind not in ('fn', 'assocfn') or g.argc != h.argc or g.local_ty(0) != 'bool':
            continue
        rts = [peel(t) for _, t in ret_trees_core(h)]
        ok = bool(rts) and all(t[0] == 'un' and t[1] == 'Not' and peel(t[2])[0] == 'call' and peel(t[2])[1] == gk and
                                 all(peel(a)[0] == 'arg' and peel(a)[1] == i + 1 for i, a in enumerate(peel(t[2])[2])) for t in rts)
        if not ok:
            continue
        for f in P.fn_list:
            if f is h or f.kind == 'promoted':
                continue
            for b in range(len(f.blocks)):
                t = f.blocks[b]['t']
                if t['k'] != 'call' or strip_generics(t.get('res') or t.get('callee') or '') != gk or t.get('t') is None or t['dest']['pr']:
                    continue
                tmp = len(f.locals)
                f.locals.append({'ty': 'bool', 'tyj': {'k': 'prim', 's': 'bool'}})
                nb = len(f.blocks)
                f.blocks.append({'s': [{'k': 'assign', 'p': copy.deepcopy(t['dest']), 'r': {'k': 'unop', 'op': 'Not', 'a': {'k': 'move', 'p': {'l': tmp, 'pr': []}}},
                                        'ln': t.get('ln'), 'exp': 'dual'}],
                                 't': {'k': 'goto', 't': t['t'], 'ln': t.get('ln')}, 'cleanup': f.blocks[b]['cleanup']})
                nt = dict(t)
                nt['callee'] = h.path
                nt['res'] = h.path
                nt['dest'] = {'l': tmp, 'pr': []}
                nt['t'] = nb
                f.blocks[b]['t'] = nt
                _reset_fn(f)
        out.append((gk, h.key))
    if out:
        P._cg = None
        P._callers = None
    return out


def ret_trees_core(f):
    out = []
    for b in f.return_blocks():
        out.append((b, f.expr_local(0, b, 'T')))
    return out


def inline_new_helpers(P, baseline, max_depth=4, max_blocks=300):
    """inline calls to local non-closure functions that are not in `baseline` (set of fn keys), then turn callback calls
    with a known target into direct calls (closures given to an inlined helper are inlined as well);
    returns list of (caller, callee)"""
    done = []
    closures_by_parent = defaultdict(list)
    for g in P.fn_list:
        if g.kind == 'closure' and g.parent:
            closures_by_parent[g.parent].append(g)
    for f in list(P.fn_list):
        if f.kind == 'promoted':
            continue
        touched = bool(_devirtualize(P, f)) if any(g.kind == 'closure' and (g.parent == f.key) for g in closures_by_parent.get(f.key, ())) else False
        for _ in range(max_depth):
            sites = []
            for b in range(len(f.blocks)):
                t = f.blocks[b]['t']
                if t['k'] != 'call':
                    continue
                k = strip_generics(t['res']) if t.get('res') else (strip_generics(t['callee']) if t.get('callee') else None)
                g = P.fns.get(k) if k else None
                if g is None or g is f or g.kind == 'promoted':
                    continue
                if g.kind == 'closure':
                    if not t.get('devirt'):
                        continue
                elif k in baseline:
                    continue
                if len(g.blocks) > max_blocks or _self_recursive_new(P, g, baseline):
                    continue
                sites.append((b, g))
            for b, g in sites:
                _inline_site(f, b, g)
                done.append((f.key, g.key))
            if sites:
                touched = True
                _reset_fn(f)
            if not touched:
                break
            if not _devirtualize(P, f) and not sites:
                break
    # a private helper whose every use was inlined is analysed in its callers' context only
    inl = {c for _, c in done}
    if inl:
        still = set()
        def refs(x):
            if isinstance(x, list):
                for y in x:
                    refs(y)
            elif isinstance(x, dict):
                for fld in ('res', 'callee', 'fn'):
                    v = x.get(fld)
                    if isinstance(v, str):
                        still.add(strip_generics(v))
                for v in x.values():
                    if isinstance(v, (list, dict)):
                        refs(v)
        for f in P.fn_list:
            if f.key not in inl:
                refs(f.blocks)
        # references from other inlined helpers only count if those stay
        # (closures: only those that were called directly and spliced — their aggregate is dead afterwards)
        gone = {k for k in inl if k not in still and k in P.fns and (P.fns[k].vis != 'pub' or P.fns[k].kind == 'closure')}
        # a closure that is also handed to someone as a value (`.is_some_and(is_due)`) stays
        for k in sorted(gone):
            g = P.fns[k]
            if g.kind != 'closure':
                continue
            tag = 'closure@%s:%s:' % (g.file, g.line)
            par = P.fns.get(g.parent) if g.parent else None
            for h in ([par] if par else []):
                for blk in h.blocks:
                    t = blk['t']
                    if t['k'] == 'call' and tag in (t.get('sig') or '') + (t.get('fty') or '') + ' '.join(t.get('argtys') or []):
                        gone.discard(k)
        if gone:
            P.fn_list = [f for f in P.fn_list if f.key not in gone]
            for k in gone:
                P.fns.pop(k, None)
            P.absorbed = sorted(gone)
    P._cg = None
    P._callers = None
    return done


def _self_recursive_new(P, g, baseline, depth=6):
    """can the new helper g reach itself through new (non-baseline) functions only?  (a call back into a pinned function is kept
    as a call, so it cannot make the splice recurse)"""
    seen = set()
    st = [(g.key, 0)]
    while st:
        k, d = st.pop()
        h = P.fns.get(k)
        if h is None or d > depth:
            continue
        # (closures written in h — handed to fold/map/.. — are part of h's body for this purpose)
        bodies = [h] + [c_ for c_ in P.fn_list if c_.kind == 'closure' and c_.root == h.key]
        for blk in [b_ for x_ in bodies for b_ in x_.blocks]:
            t = blk['t']
            if t['k'] != 'call':
                continue
            c = strip_generics(t['res']) if t.get('res') else (strip_generics(t['callee']) if t.get('callee') else None)
            if c is None or c not in P.fns or (c in baseline and P.fns[c].kind != 'closure'):
                continue
            if P.fns[c].kind == 'closure' and not t.get('devirt'):
                continue
            if c == g.key:
                return True
            if c not in seen:
                seen.add(c)
                st.append((c, d + 1))
    return False


def _reach_keys(P, g, depth):
    seen = set()
    st = [(g.key, 0)]
    while st:
        k, d = st.pop()
        if k in seen or d > depth or k not in P.fns:
            continue
        seen.add(k)
        for t in P.fns[k].blocks:
            tt = t['t']
            if tt['k'] == 'call':
                c = strip_generics(tt['res']) if tt.get('res') else (strip_generics(tt['callee']) if tt.get('callee') else None)
                if c:
                    st.append((c, d + 1))
    seen.discard(g.key)
    return seen | ({g.key} if any((strip_generics(b['t'].get('res') or b['t'].get('callee') or '') == g.key) for b in g.blocks if b['t']['k'] == 'call') else set())


def _deref_ty(s):
    s = s.strip()
    while s.startswith('&'):
        s = re.sub(r"^&\s*('[a-z_]+\s+)?(mut\s+)?", '', s).strip()
    return s


def _inline_site(f, b, g):
    call = f.blocks[b]['t']
    loff = len(f.locals)
    boff = len(f.blocks)
    poff = len(f.promoted)
    f.locals.extend(copy.deepcopy(g.locals))
    for pf in g.promoted:
        f.promoted.append(pf)
    ln = call.get('ln')
    td = g.j.get('trait_default') if isinstance(getattr(g, 'j', None), dict) else None
    P = getattr(f, 'program', None)
    self_adt = None
    if td and P is not None and call.get('argtys'):
        self_adt = strip_generics(_deref_ty(call['argtys'][0]))
        if self_adt in ('Self', ''):
            self_adt = None
    # callee blocks
    for gb in g.blocks:
        nb = {'s': _rename(gb['s'], loff, boff, poff), 'cleanup': gb['cleanup']}
        t = _rename(gb['t'], loff, boff, poff)
        t = _retarget_term(t, boff)
        if t['k'] == 'return':
            nb['s'] = nb['s'] + [{'k': 'assign', 'p': copy.deepcopy(call['dest']),
                                  'r': {'k': 'use', 'o': {'k': 'move', 'p': {'l': loff, 'pr': []}}}, 'ln': ln, 'exp': 'inlined-return'}]
            if call.get('t') is not None:
                t = {'k': 'goto', 't': call['t'], 'ln': ln}
            else:
                t = {'k': 'unreachable', 'ln': ln}
        if self_adt and t['k'] == 'call' and not t.get('res') and t.get('trait') and strip_generics(t['trait']) == strip_generics(td) \
                and t.get('argtys') and _deref_ty(t['argtys'][0]) == 'Self':
            # a provided trait method spliced for a known Self: sibling trait calls on `self` resolve to that type's impl
            m = (t.get('callee') or '').split('::')[-1]
            cands = [h for h in P.impls_of_trait_method(strip_generics(td), m) if h.self_adt and strip_generics(h.self_adt) == self_adt]
            if len(cands) == 1:
                t['res'] = cands[0].path
            elif not cands and strip_generics(t.get('callee') or '') in P.fns:
                t['res'] = t['callee']
        nb['t'] = t
        f.blocks.append(nb)
    # argument passing, then jump into the callee
    stm = list(f.blocks[b]['s'])
    for i, a in enumerate(call['args']):
        stm.append({'k': 'assign', 'p': {'l': loff + 1 + i, 'pr': []}, 'r': {'k': 'use', 'o': copy.deepcopy(a)}, 'ln': ln, 'exp': 'inlined-arg'})
    f.blocks[b] = {'s': stm, 't': {'k': 'goto', 't': boff, 'ln': ln, 'inlined': g.key}, 'cleanup': f.blocks[b]['cleanup']}
    # a mode handed in as a constant (`self.resolve(OnPanic::Report)`, `helper(true)`): the spliced copy is the helper specialised for
    # that mode — its tests of the parameter are decided
    for i, a in enumerate(call['args']):
        known = None      # ('variant', name) | ('int', n)
        if a.get('k') == 'const' and isinstance(a.get('int'), int):
            known = ('int', a['int'])
        elif a.get('k') in ('move', 'copy') and not a['p']['pr']:
            src = [st for st in f.blocks[b]['s'] if st['k'] == 'assign' and st['p']['l'] == a['p']['l'] and not st['p']['pr']]
            if src and not any(st is not src[-1] and st['k'] == 'assign' and st['p']['l'] == a['p']['l'] for st in f.blocks[b]['s'][f.blocks[b]['s'].index(src[-1]):-len(call['args']) or None]):
                r = src[-1]['r']
                if r['k'] == 'agg' and r.get('ak') == 'adt' and not r.get('ops') and r.get('variant'):
                    known = ('variant', r['variant'])
                elif r['k'] == 'use' and r['o'].get('k') == 'const' and isinstance(r['o'].get('int'), int):
                    known = ('int', r['o']['int'])
        if known is None:
            continue
        pl = 1 + i
        def touches(x):
            # the parameter is written, borrowed mutably or moved somewhere else in the helper
            if isinstance(x, dict):
                if x.get('k') == 'assign' and x['p']['l'] == pl:
                    return True
                if x.get('k') == 'ref' and x.get('mut') and x['p']['l'] == pl:
                    return True
                return any(touches(v) for v in x.values() if isinstance(v, (dict, list)))
            if isinstance(x, list):
                return any(touches(v) for v in x)
            return False
        if touches([gb['s'] for gb in g.blocks]) or any(gb['t']['k'] == 'call' and gb['t']['dest']['l'] == pl for gb in g.blocks):
            continue
        for k, gb in enumerate(g.blocks):
            nb = f.blocks[boff + k]
            t = nb['t']
            if t['k'] != 'switch' or t['d'].get('k') not in ('move', 'copy') or t['d']['p']['pr']:
                continue
            val = None
            dl = t['d']['p']['l']
            if dl == loff + pl and known[0] == 'int':
                val = known[1]
            else:
                defs = [st for st in nb['s'] if st['k'] == 'assign' and st['p']['l'] == dl and not st['p']['pr']]
                if defs:
                    r = defs[-1]['r']
                    if r['k'] == 'discr' and r['p']['l'] == loff + pl and not r['p']['pr'] and known[0] == 'variant':
                        val = next((n for n, nm in r.get('variants', []) if nm == known[1]), None)
                    elif r['k'] == 'use' and r['o'].get('k') in ('move', 'copy') and r['o']['p']['l'] == loff + pl and not r['o']['p']['pr'] and known[0] == 'int':
                        val = known[1]
            if val is None:
                continue
            tgt = next((tb for v, tb in t['vals'] if v == val), t['otherwise'])
            nb['t'] = {'k': 'goto', 't': tgt, 'ln': t.get('ln'), 'specialised': known[1]}
    for d in g.dbg:
        f.dbg.append(_rename(d, loff, boff, poff))

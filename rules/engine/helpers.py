"""Shared rule helpers on top of core: path summaries, ordering tables (P5), small classifiers."""
import itertools
from .core import *


def ret_trees(f):
    """expression trees of the return place at every Return block"""
    out = []
    for b in f.return_blocks():
        out.append((b, f.expr_local(0, b, 'T')))
    return out


def returned_field(f):
    """if f simply returns `self.<field>` (getter), the field name"""
    for b, t in ret_trees(f):
        t = peel(t)
        if t[0] == 'field':
            return t[2]
    return None


def path_atoms(f, path, decs, derived=False):
    """atoms of the branch decisions taken on a path (see core.atom_of); derived=True appends Fn.derived_atoms of each"""
    out = []
    ptr = 0
    for d in decs:
        b, v = d
        t = f.term(b)
        cond = f.expr_operand(t['d'], b, 'T')
        while ptr < len(path) and path[ptr] != b:
            ptr += 1
        if ptr < len(path) and peel(cond)[0] == 'phi':
            # the branch condition is a merged value: use the definition executed on this very path
            cond = f.expr_operand_on_path(t['d'], path, ptr)
        if isinstance(v, tuple) and v and v[0] == 'otherwise':
            val = ('ne', tuple(v[1]))
        else:
            val = ('eq', v)
        a = atom_of(cond, val, f.switch_ty(b))
        if a is not None and a[0] == 'cmp' and (peel_c(a[2])[0] == 'phi' or peel_c(a[3])[0] == 'phi') and ptr < len(path):
            # a comparison with a merged operand (e.g. a flag computed earlier on this path): resolve the operands along the path
            rv = _chase(f, {'k': 'use', 'o': t['d']})
            if rv is not None and rv['k'] == 'binop':
                db = _def_block_of_binop(f, t['d'])
                pidx = max((k for k, bb in enumerate(path[:ptr + 1]) if bb == db), default=None) if db is not None else None
                if pidx is not None:
                    x = f.expr_operand_on_path(rv['a'], path, pidx, 'T')
                    y = f.expr_operand_on_path(rv['b'], path, pidx, 'T')
                    a2 = atom_of(('bin', rv['op'], x, y), val, None)
                    if a2 is not None:
                        a = a2
        if a is not None and a[0] in ('is', 'isnot') and peel_c(a[1])[0] == 'phi' and ptr < len(path):
            # a variant test of a merged value (`match helper()` with the helper spliced in: the result local has one definition per
            # return of the helper): take the definition executed on this very path
            loc = _discr_site(f, t['d'])
            if loc is not None:
                db, di, src = loc
                pidx = max((k for k, bb in enumerate(path[:ptr + 1]) if bb == db), default=None)
                if pidx is not None:
                    x = f.expr_operand_on_path({'k': 'copy', 'p': {'l': src, 'pr': []}}, path, pidx, di)
                    if peel_c(x)[0] != 'phi':
                        a = (a[0], canon(x)) + tuple(a[2:])
        ptr += 1
        a = untry(a)
        out.append((b, a))
        if derived:
            for dv in f.derived_atoms(a):
                out.append((b, dv))
    return out


def _discr_site(f, op):
    """(block, statement index, local) of the `discriminant(local)` statement a switch operand chases to (single definitions only)"""
    for _ in range(10):
        if not (op.get('k') in ('copy', 'move') and not op['p']['pr']):
            return None
        ds = [d for d in f._defs() if d[0] == op['p']['l']]
        if len(ds) != 1 or ds[0][2] == 'T':
            return None
        st = f.stmts(ds[0][1])[ds[0][2]]
        if st['r']['k'] == 'use':
            op = st['r']['o']
            continue
        if st['r']['k'] == 'discr' and not st['r']['p']['pr']:
            return ds[0][1], ds[0][2], st['r']['p']['l']
        return None
    return None


def peel_c(t):
    while isinstance(t, tuple) and t and t[0] in ('ref', 'deref', 'rawref'):
        t = t[1]
    return t


def _def_block_of_binop(f, op):
    """block holding the (single) definition that a switch operand chases to"""
    for _ in range(10):
        if not (op.get('k') in ('copy', 'move') and not op['p']['pr']):
            return None
        ds = [d for d in f._defs() if d[0] == op['p']['l']]
        if len(ds) != 1 or ds[0][2] == 'T':
            return None
        st = f.stmts(ds[0][1])[ds[0][2]]
        if st['r']['k'] == 'use':
            op = st['r']['o']
            continue
        return ds[0][1]
    return None


def classify_write(f, b, i, st):
    """classify an assignment to a field: ('inc', field) / ('dec', field) / ('set', field, tree)"""
    fl = [e for e in st['p']['pr'] if e['k'] == 'field']
    if not fl:
        return None
    name = fl[-1].get('n')
    adt = fl[-1].get('adt')
    t = f.expr_rvalue(st['r'], b, i)
    tt = t
    # x = (x + 1).0  (checked arithmetic)
    if tt[0] == 'field' and tt[1][0] == 'bin':
        tt = tt[1]
    if tt[0] == 'bin':
        op = tt[1]
        a, c = peel(tt[2]), tt[3]
        if a[0] == 'field' and a[2] == name and c == ('int', 1):
            if op.startswith('Add'):
                return ('inc', name, adt)
            if op.startswith('Sub'):
                return ('dec', name, adt)
    return ('set', name, adt, t)


def path_effects(f, path):
    """ordered effects on a path:
       ('w', kind, field, adt, tree|None, b, i)   field write (kind inc/dec/set)
       ('c', Site, [arg trees])                    call
       ('d', place_tree, ty, b)                    drop terminator (elaborated: executes only if its flag is set)
    """
    out = []
    pos = {}
    for idx, b in enumerate(path):
        pos.setdefault(b, idx)
    for ev in f.path_events(path):
        if ev[0] == 'assign':
            _, b, i, st = ev
            c = classify_write(f, b, i, st)
            if c:
                val = c[3] if len(c) > 3 else None
                if val is not None and peel(val)[0] == 'phi' and st['r']['k'] == 'use':
                    # a merged value: take the definition executed on this very path
                    val = f.expr_operand_on_path(st['r']['o'], path, pos.get(b, 0), i)
                out.append(('w', c[0], c[1], c[2], val, b, i))
            elif not st['p']['pr'] and st['p']['l'] == 0:
                out.append(('ret', f.expr_rvalue(st['r'], b, i), b, i))
        elif ev[0] == 'call':
            s = ev[3]
            out.append(('c', s, [f.expr_operand(a, s.b, 'T') for a in s.args]))
        elif ev[0] == 'drop':
            t = ev[3]
            out.append(('d', f.expr_place(t['p'], ev[1], 'T'), t['ty'], ev[1]))
    return out


def receiver_field(argtree):
    """name of the `self.<field>` a call receiver (first arg) is rooted in, looking through refs, derefs,
    index/index_mut calls and iter()/borrow wrappers"""
    t = argtree
    for _ in range(12):
        t = peel(t)
        if t[0] == 'field':
            if not t[2].isdigit() and not (len(t) > 3 and str(t[3]).split('<')[0].endswith('::boxed::LocalBox')):
                return t[2]
            # (tuple position, or the raw pointer inside the crate's own box type = what `&mut *the_box` derefs to)
            t = t[1]
            continue
        if t[0] == 'index':
            t = t[1]; continue
        if t[0] == 'call' and t[2]:
            t = t[2][0]; continue
        if t[0] == 'as':
            t = t[1]; continue
        if t[0] == 'cast':
            t = t[2]; continue
        return None
    return None


# ---------------------------------------------------------------- P5 ordering tables

def weak_orderings(terms):
    """all weak orderings of `terms` as dict term -> rank"""
    n = len(terms)
    seen = set()
    for ranks in itertools.product(range(n), repeat=n):
        # normalise: ranks must be 0..k-1 contiguous
        used = sorted(set(ranks))
        m = {u: i for i, u in enumerate(used)}
        norm = tuple(m[r] for r in ranks)
        if norm in seen:
            continue
        seen.add(norm)
        yield dict(zip(terms, norm))


def eval_cmp(op, a, b):
    return {'lt': a < b, 'le': a <= b, 'gt': a > b, 'ge': a >= b, 'eq': a == b, 'ne': a != b}[op]


def atom_truth(atom, ranks, free=None):
    """truth value of an atom under a rank assignment; None if the atom's terms are not all ranked.
    `free`: dict for non-comparison atoms (canonical tree -> bool)"""
    if atom[0] == 'cmp':
        _, op, l, r = atom
        if l in ranks and r in ranks:
            return eval_cmp(op, ranks[l], ranks[r])
        return None
    if free is not None:
        if atom[0] == 'bool' and atom[1] in free:
            return free[atom[1]] == atom[2]
        if atom[0] == 'is' and atom[1] in free:
            return free[atom[1]] == atom[2]
    return None


def describe_order(ranks, names=None):
    inv = {}
    for t, r in ranks.items():
        inv.setdefault(r, []).append(names.get(t, show_c(t)) if names else show_c(t))
    return ' < '.join(' = '.join(sorted(v)) for _, v in sorted(inv.items()))


def show_c(t):
    """show a canonical tree"""
    k = t[0]
    if k == 'arg':
        return t[1]
    if k == 'field':
        return '%s.%s' % (show_c(t[1]), t[2])
    if k == 'call':
        return '%s(%s)' % (short(t[1]), ', '.join(show_c(x) for x in t[2]))
    if k == 'int':
        return str(t[1])
    if k == 'bin':
        return '(%s %s %s)' % (show_c(t[2]), t[1], show_c(t[3]))
    if k == 'index':
        return '%s[%s]' % (show_c(t[1]), show_c(t[2]))
    if k == 'as':
        return '(%s as %s)' % (show_c(t[1]), t[2])
    if k == 'cast':
        return '(%s as %s)' % (show_c(t[1]), t[2])
    if k == 'discr':
        return 'discr(%s)' % show_c(t[1])
    if k == 'un':
        return '%s(%s)' % (t[1], show_c(t[2]))
    if k == 'agg':
        return '%s{..}' % t[1]
    if k == 'phi':
        return 'phi(%s)' % '|'.join(show_c(x) for x in t[1])
    if k == 'local':
        return '_%d' % t[1]
    if k == 'const':
        return str(t[1])
    if k == 'constdef':
        return t[1].split('::', 1)[-1] if t[1].startswith('std::') else t[1]
    return str(t)


def show_atom(a):
    if a[0] == 'cmp':
        sym = {'lt': '<', 'le': '<=', 'gt': '>', 'ge': '>=', 'eq': '==', 'ne': '!='}[a[1]]
        return '%s %s %s' % (show_c(a[2]), sym, show_c(a[3]))
    if a[0] == 'is':
        return '%s is %s' % (show_c(a[1]), a[2])
    if a[0] == 'isnot':
        return '%s is not %s' % (show_c(a[1]), '/'.join(a[2]))
    if a[0] == 'bool':
        return '%s%s' % ('' if a[2] else '!', show_c(a[1]))
    return str(a)


def subst(t, mapping):
    """replace canonical subtrees according to mapping"""
    if t in mapping:
        return mapping[t]
    if isinstance(t, tuple):
        return tuple(subst(x, mapping) if isinstance(x, tuple) else x for x in t)
    return t


def is_panic_site(s):
    n = s.name or ''
    return s.is_diverging() and any(n.startswith(p) for p in PANIC_CALLEES) or (s.is_diverging() and 'panic' in n)


def consistent(f, path, decs):
    """False if the branch decisions of a path contradict each other on the same value — drop elaboration re-tests discriminants
    that were already decided, which creates syntactic paths no execution can take.  Only results of calls that are not inside a
    loop are considered the same value at both tests."""
    seen = {}
    for d in decs:
        b, v = d
        cond = f.expr_operand(f.term(b)['d'], b, 'T')
        subj = cond
        while subj[0] in ('discr', 'as') or (subj[0] == 'field' and str(subj[2]).isdigit()) or (subj[0] == 'un' and subj[1] == 'Not'):
            subj = subj[2] if subj[0] == 'un' else subj[1]
        subj = peel(subj)
        if subj[0] == 'arg' and f.local_ty(subj[1]).startswith('&') and not f.local_ty(subj[1]).startswith('&mut') and cond[0] == 'discr':
            # the variant of `*arg` behind a shared reference cannot change during the call
            (_, a) = path_atoms(f, path, [d])[0]
            place = repr(a[1])    # the very place whose variant is tested (e.g. `*self`, or `(*self as Queue).0`)
            if a[0] == 'is':
                k = ('isarg', place)
                if k in seen and seen[k] != a[2]:
                    return False
                seen.setdefault(k, a[2])
                if a[2] in seen.get(('notarg', place), ()):
                    return False
            elif a[0] == 'isnot':
                if seen.get(('isarg', place)) in a[2]:
                    return False
                seen.setdefault(('notarg', place), set()).update(a[2])
            continue
        if subj[0] != 'call' or f.loops_containing(subj[3]) or f.loops_containing(b):
            continue
        (_, a) = path_atoms(f, path, [d])[0]
        if a[0] not in ('is', 'bool'):
            continue
        k = (a[0], a[1], subj[3])
        if k in seen and seen[k] != a[2]:
            return False
        seen.setdefault(k, a[2])
    return True


def fn_paths(ctx, f, **kw):
    ps = [p for p in f.enum_paths(**kw) if consistent(f, p[0], p[2])]
    ctx.paths += len(ps)
    return ps


def path_stream(f, path, decs):
    """ordered events of a path, merging effects and branch decisions:
       ('atom', atom, switch_block) entries are interleaved with path_effects entries"""
    out = []
    ptr = 0
    decs = list(decs)
    for b in path:
        out.extend(path_effects(f, (b,)))
        t = f.term(b)
        if t['k'] == 'switch' and ptr < len(decs) and decs[ptr][0] == b:
            (_, a) = path_atoms(f, path, [decs[ptr]])[0]
            out.append(('atom', a, b))
            ptr += 1
    return out


def path_ret(f, path):
    """tree of the value returned on this path (last definition of _0 on the path)"""
    last = None
    for b in path:
        for i, st in enumerate(f.stmts(b)):
            if st['k'] == 'assign' and st['p']['l'] == 0 and not st['p']['pr']:
                last = f.expr_rvalue(st['r'], b, i)
        t = f.term(b)
        if t['k'] == 'call' and t['dest']['l'] == 0 and not t['dest']['pr']:
            s = Site(f, b, t)
            last = ('call', s.name, tuple(f.expr_operand(a, b, 'T') for a in t['args']), b)
    return last


def path_ret_resolved(f, path):
    """like path_ret, but a returned local that merges several definitions is resolved to the one executed on this path"""
    last = None
    for idx, b in enumerate(path):
        for i, st in enumerate(f.stmts(b)):
            if st['k'] == 'assign' and st['p']['l'] == 0 and not st['p']['pr']:
                v = f.expr_rvalue(st['r'], b, i)
                if st['r']['k'] == 'use' and peel(v)[0] == 'phi':
                    v = f.expr_operand_on_path(st['r']['o'], path, idx, i)
                last = v
        t = f.term(b)
        if t['k'] == 'call' and t['dest']['l'] == 0 and not t['dest']['pr']:
            s = Site(f, b, t)
            args = []
            for a in t['args']:
                v = f.expr_operand(a, b, 'T')
                if peel(v)[0] == 'phi':
                    v = f.expr_operand_on_path(a, path, idx, 'T')
                args.append(v)
            last = ('call', s.name, tuple(args), b)
    return last


def call_outcomes(f, path, decs, callee):
    """for each dynamic call of `callee` on the path, the first decision taken on its result:
       list of (Site, variant-or-bool-or-None)"""
    out = []
    pending = None
    for ev in path_stream(f, path, decs):
        if ev[0] == 'c' and callee in ev[1].names():
            if pending is not None:
                out.append((pending, None))
            pending = ev[1]
        elif ev[0] == 'atom' and pending is not None:
            a = untry(ev[1])
            if a[0] == 'is' and a[1][0] == 'call' and a[1][1] == pending.name:
                out.append((pending, a[2])); pending = None
            elif a[0] == 'bool' and a[1][0] == 'call' and a[1][1] == pending.name:
                out.append((pending, a[2])); pending = None
    if pending is not None:
        out.append((pending, None))
    return out


def capture_trees(P, g):
    """trees (in the parent's body) of the values captured by closure g, by capture position"""
    par = P.fns.get(g.parent) if g.parent else None
    for h in ([par] if par is not None else []):
        for (b, i, ck) in h.closures_created():
            if ck == g.key:
                st = h.stmts(b)[i]
                return h, [h.expr_operand(o, b, i) for o in st['r']['ops']]
    # the function the closure was written in was spliced into its callers: the aggregate is built there now
    idx = getattr(P, '_closure_creators', None)
    if idx is None:
        idx = {}
        for h in P.fn_list:
            if h.kind == 'promoted':
                continue
            for (b, i, ck) in h.closures_created():
                idx.setdefault(ck, []).append((h, b, i))
        P._closure_creators = idx
    sites = [x for x in idx.get(g.key, []) if x[0] is not par]
    if len(sites) == 1:
        h, b, i = sites[0]
        st = h.stmts(b)[i]
        return h, [h.expr_operand(o, b, i) for o in st['r']['ops']]
    return par, []


def resolve_captures(P, g, tree, depth=3):
    """replace `<closure env>.N` projections in a tree of closure g by the captured value's tree in the parent (and, when the parent
    is a closure itself, on through its captures)"""
    if g.kind != 'closure':
        return tree
    par, caps = capture_trees(P, g)
    if not caps:
        return tree
    if par is not None and par.kind == 'closure' and depth > 0:
        caps = [resolve_captures(P, par, c, depth - 1) for c in caps]

    def rec(t):
        if not isinstance(t, tuple) or not t:
            return t
        if t[0] == 'field' and t[2].isdigit() and '{closure' in str(t[3]) and int(t[2]) < len(caps):
            base = t[1]
            while base[0] in ('deref', 'ref'):
                base = base[1]
            if base[0] == 'arg' and base[1] == 1:
                return caps[int(t[2])]
        return tuple(rec(x) if isinstance(x, tuple) else x for x in t)
    return rec(tree)


_PTR_WRAP = ('std::ptr::NonNull::as_ptr', 'std::ptr::NonNull::from', 'std::ptr::NonNull::new', 'std::ptr::NonNull::new_unchecked',
             'std::option::Option::unwrap_unchecked', 'std::ptr::NonNull::cast', 'std::ptr::NonNull::as_ref', 'std::ptr::NonNull::as_mut',
             '<std::ptr::NonNull as std::convert::From>::from')


def ptr_norm(t):
    """a nullable link written as `Option<NonNull<T>>` read like the raw pointer it stands for: NonNull::from/new/as_ptr,
    unwrap_unchecked, `Some(p)` and `(l as Some).0` are transparent (used by the rules about the list's prev/next links only)"""
    if not isinstance(t, tuple) or not t:
        return t
    while True:
        t = peel(t)
        if t[0] == 'call' and len(t[2]) == 1 and (t[1] in _PTR_WRAP or t[1].endswith('NonNull as std::convert::From>::from')):
            t = t[2][0]; continue
        if t[0] == 'agg' and str(t[1]).endswith('Option::Some') and len(t[2]) == 1:
            t = t[2][0]; continue
        if t[0] == 'field' and t[2] == '0' and peel(t[1])[0] == 'as' and peel(t[1])[2] == 'Some':
            t = peel(t[1])[1]; continue
        if t[0] == 'cast':
            t = t[2]; continue
        break
    return tuple(ptr_norm(x) if isinstance(x, tuple) and x and isinstance(x[0], str) else (tuple(ptr_norm(y) for y in x) if isinstance(x, tuple) else x) for x in t)


def link_null_truth(a):
    """True/False if the atom states that a prev/next link is null / non-null — `p.is_null()`, or `link.is_none()` / `if let Some(..) = link`
    for links kept as Option<NonNull<..>>; with the (normalised) link tree: (truth, tree), else None"""
    if not a:
        return None
    if a[0] == 'bool' and a[1][0] == 'call' and a[1][1].endswith('::is_null') and a[1][2]:
        return (a[2] is True, ptr_norm(a[1][2][0]))
    st = option_state(a)
    if st and any(x[0] == 'field' and x[2] in ('next', 'prev') for x in walk(st[1])):
        return (st[0] == 'none', ptr_norm(st[1]))
    return None


def forced_some(P, tree):
    """if the value is the payload of an Option/Result obtained by an extraction that cannot continue on the empty case
    (`unwrap`, `expect`, `unwrap_or_else(|| <diverges>)`), the tree of that Option; else None.  `let Some(x) = o else { panic!() }`
    and `o.unwrap_or_else(|| panic!())` establish the same fact: past this point `o` was Some."""
    t = peel(tree)
    if t[0] != 'call' or not t[2]:
        return None
    m = t[1].split('::')[-1]
    if not (t[1].startswith('std::option::Option::') or t[1].startswith('std::result::Result::')):
        return None
    if m in ('unwrap', 'expect'):
        return peel(t[2][0])
    if m == 'unwrap_or_else' and len(t[2]) == 2:
        c = peel(t[2][1])
        g = None
        if c[0] == 'agg' and str(c[1]).startswith('closure:'):
            g = P.fns.get(c[1][len('closure:'):])
        elif c[0] == 'fnitem':
            g = P.fns.get(c[1])
        if g is not None and not g.return_blocks():
            return peel(t[2][0])
    return None


def captured_borrow_writes(P, f, b, i, st):
    """`st` (statement i of block b of f) takes `&mut place`; if that reference is used only as a capture of a closure built in f
    (`opt.map(|x| { self.count -= ..; x })`), return the stores the closure makes through the capture as
    [(closure fn, block, index, value tree with the captures substituted by f's trees)], else None"""
    if st['p']['pr']:
        return None
    l = st['p']['l']
    uses = []
    for bb in sorted(f.reachable()):
        for j, s2 in enumerate(f.stmts(bb)):
            if s2['k'] == 'assign' and not (bb == b and j == i):
                r = s2['r']
                ops = ([r['o']] if r.get('o') else []) + [r[x] for x in ('a', 'b') if isinstance(r.get(x), dict)] + list(r.get('ops', []))
                for k, op in enumerate(ops):
                    if isinstance(op, dict) and op.get('k') in ('copy', 'move') and op['p']['l'] == l:
                        uses.append((bb, j, s2, k))
                if r['k'] in ('ref', 'rawptr') and r['p']['l'] == l:
                    uses.append((bb, j, s2, None))
        t = f.term(bb)
        if t['k'] == 'call' and any(a.get('k') in ('copy', 'move') and a['p']['l'] == l for a in t['args']):
            return None
    if len(uses) != 1:
        return None
    bb, j, s2, k = uses[0]
    r = s2['r']
    if k is None or r['k'] != 'agg' or not str(r.get('def') or r.get('adt') or r.get('ak') or '').strip():
        return None
    ck = None
    for (cb, ci, key) in f.closures_created():
        if cb == bb and ci == j:
            ck = key
    g = P.fns.get(ck) if ck else None
    if g is None:
        return None
    out = []
    for b2 in sorted(g.reachable()):
        for i2, s3 in enumerate(g.stmts(b2)):
            if s3['k'] != 'assign' or not s3['p']['pr'] or s3['p']['pr'][-1]['k'] != 'deref':
                continue
            dest = peel_c(g.expr_place({'l': s3['p']['l'], 'pr': s3['p']['pr'][:-1]}, b2, i2))
            base = peel_c(dest[1]) if dest[0] == 'field' else None
            if base is not None and str(dest[2]).isdigit() and int(dest[2]) == k and base[0] == 'arg' and base[1] == 1:
                out.append((g, b2, i2, resolve_captures(P, g, g.expr_rvalue(s3['r'], b2, i2))))
    return out


# ---------------------------------------------------------------- item provenance of per-element calls

ORDER_KEEPING_CONSUMERS = ('std::iter::Iterator::for_each', 'std::iter::Iterator::try_for_each', 'std::iter::Iterator::fold', 'std::iter::Iterator::try_fold')


def _strip_into_iter(it):
    it = peel(it)
    while it[0] == 'call' and it[2] and ((it[1].endswith('::into_iter') and 'IntoIterator' in it[1]) or it[1] == 'std::iter::Iterator::by_ref'):
        it = peel(it[2][0])
    return it


def is_next(x):
    """tree node = a call of some Iterator::next implementation (resolved names look like std::iter::range::next or <T as Iterator>::next)"""
    return x[0] == 'call' and x[1].endswith('::next')


class ItemCall:
    """one call made per element of an iteration (see per_item_calls)"""
    def __init__(self, fn, site, it, trees, anchor, form, exhaustive):
        self.fn, self.site, self.it, self.trees, self.anchor, self.form, self.exhaustive = fn, site, it, trees, anchor, form, exhaustive

    def __iter__(self):   # (fn, site, iterator, arg trees)
        return iter((self.fn, self.site, self.it, self.trees))


def innermost_loop(f, b):
    ls = [(len(f.loops()[h]), h) for h in f.loops_containing(b)]
    return min(ls)[1] if ls else None


def loop_exits_only_on_exhaustion(f, h):
    """the natural loop with header h is left only where the discriminant of an Iterator::next result is tested
    (a `for` loop without break/return)"""
    body = f.loops()[h]
    n = 0
    for u in body:
        for v in f.succs(u):
            if v in body:
                continue
            t = f.term(u)
            if t['k'] != 'switch':
                return False
            cond = f.expr_operand(t['d'], u, 'T')
            # the test must be on the next() result itself (its discriminant / is_some / is_none), not on a value derived from an item
            c = peel(cond)
            while c[0] in ('discr', 'un') or (c[0] == 'call' and c[1].split('::')[-1] in ('is_some', 'is_none') and len(c[2]) == 1):
                c = peel(c[1] if c[0] == 'discr' else (c[2] if c[0] == 'un' else c[2][0]))
            while c[0] == 'call' and c[1].endswith(('std::ops::Try>::branch',)) and c[2]:
                c = peel(c[2][0])
            if not is_next(c):
                return False
            n += 1
    return n >= 1


def forwarders_of(P, name, depth=2):
    """`name` plus the local functions that only forward to it: exactly one call to a local function in the body, that call is to
    `name` (or a forwarder), is made on every path to return, and receives the function's own parameters in order (conversions
    such as Into::into allowed).  Typical case: a trait impl `fn add(&mut self, e, t) { self.add_event(e, t) }`."""
    names = {name}
    for _ in range(depth):
        grew = False
        for g in P.fn_list:
            if g.key in names or g.kind in ('closure', 'promoted') or len(g.blocks) > 12:
                continue
            local = [s for s in g.calls() if s.name in P.fns or (s.callee in P.fns)]
            if len(local) != 1 or not (local[0].names() & names):
                continue
            s = local[0]
            if g.loops_containing(s.b) or not g.postdominates_entry(s.b) or len(s.args) != g.argc:
                continue
            ok = True
            for i, a in enumerate(s.args):
                t = peel(g.expr_operand(a, s.b, 'T'))
                while t[0] == 'call' and t[1].split('::')[-1] in ('into', 'from') and len(t[2]) == 1:
                    t = peel(t[2][0])
                if not (t[0] == 'arg' and t[1] == i + 1):
                    ok = False
            if ok:
                names.add(g.key)
                grew = True
        if not grew:
            break
    return names


def per_item_calls(P, f, callee_name):
    if isinstance(callee_name, (set, frozenset)):
        out = []
        for n in sorted(callee_name):
            out.extend(per_item_calls(P, f, n))
        return out
    """calls to `callee_name` made once per element of an iteration in f: either in a loop of f with operands taken from
    Iterator::next, or through an order-keeping consumer (for_each/try_for_each/fold) given a closure that makes the call, or
    given the callee itself as a function item.  Returns ItemCall objects: iterator tree in f's frame with into_iter/by_ref
    wrappers removed; anchor = block of f that stands for the whole iteration (loop header / consumer call)."""
    out = []
    for s in f.calls():
        if callee_name not in s.names():
            continue
        trees = [peel(f.expr_operand(a, s.b, 'T')) for a in s.args]
        it = None
        for t in trees:
            for x in walk(t):
                if is_next(x) and x[2]:
                    it = _strip_into_iter(x[2][0])
                    break
            if it is not None:
                break
        h = innermost_loop(f, s.b)
        if h is not None:
            if it is None:
                # the call does not use the loop variable (`for _ in ..`): take the iterator the loop itself is driven by
                body = f.loops()[h]
                for c in f.calls():
                    if c.b in body and c.callee == 'std::iter::Iterator::next' and innermost_loop(f, c.b) == h and c.args:
                        it = _strip_into_iter(f.expr_operand(c.args[0], c.b, 'T'))
                        break
            out.append(ItemCall(f, s, it, trees, h, 'loop', loop_exits_only_on_exhaustion(f, h)))
    for s in f.calls():
        if not (s.names() & set(ORDER_KEEPING_CONSUMERS)) or not s.args:
            continue
        it = _strip_into_iter(f.expr_operand(s.args[0], s.b, 'T'))
        exhaustive = bool(s.names() & {'std::iter::Iterator::for_each', 'std::iter::Iterator::fold'})
        for a in s.args[1:]:
            t = peel(f.expr_operand(a, s.b, 'T'))
            if t[0] == 'fnitem' and t[1] == callee_name:
                out.append(ItemCall(f, s, it, None, s.b, 'consumer', exhaustive))
            if t[0] == 'agg' and str(t[1]).startswith('closure:'):
                cl = P.fns.get(t[1][len('closure:'):])
                for cs in (cl.calls() if cl else []):
                    if callee_name in cs.names():
                        out.append(ItemCall(cl, cs, it, [peel(cl.expr_operand(x, cs.b, 'T')) for x in cs.args], s.b, 'consumer',
                                            exhaustive and not cl.loops_containing(cs.b) and cl.postdominates_entry(cs.b)))
    return out


def from_item(fn, tree):
    """does the operand tree derive from the iteration item (Iterator::next result, or the closure's item parameter)?"""
    for x in walk(tree):
        if is_next(x):
            return True
        if fn.kind == 'closure' and x[0] == 'arg' and x[1] >= 2:
            return True
    return False


def option_state(a):
    """('some'|'none', subject tree) if the atom states which variant an Option is in (is_some/is_none/match forms)"""
    if a[0] == 'bool' and a[1][0] == 'call' and a[1][2]:
        n = a[1][1]
        if n.endswith('Option::is_some'):
            return ('some' if a[2] else 'none', a[1][2][0])
        if n.endswith('Option::is_none'):
            return ('none' if a[2] else 'some', a[1][2][0])
    if a[0] == 'is' and a[2] in ('Some', 'None'):
        return (a[2].lower(), a[1])
    if a[0] == 'isnot' and a[2] in ('Some', 'None') or (a[0] == 'isnot' and isinstance(a[2], (tuple, list)) and len(a[2]) == 1 and a[2][0] in ('Some', 'None')):
        v = a[2] if isinstance(a[2], str) else a[2][0]
        return ('none' if v == 'Some' else 'some', a[1])
    return None


def path_truth(f, path, decs, tree):
    """truth value of a boolean tree on this path: a constant, or a value the path branched on (None if unknown)"""
    if tree is None:
        return None
    t = peel(tree)
    if t[0] == 'int':
        return bool(t[1])
    neg = False
    while t[0] == 'un' and t[1] == 'Not':
        t = peel(t[2]); neg = not neg
    c = canon(t)
    for _, a in path_atoms(f, path, decs):
        if a[0] == 'bool' and a[1] == c:
            return a[2] != neg
    return None


# ---------------------------------------------------------------- manual counting loops

def _single_def(f, l):
    ds = [d for d in f._defs() if d[0] == l]
    if len(ds) == 1 and not ds[0][3] and ds[0][2] != 'T':
        return f.stmts(ds[0][1])[ds[0][2]]
    return None


def _chase_local(f, op):
    """follow copies of single-definition temporaries; returns the local finally read (or None)"""
    for _ in range(10):
        if not (op['k'] in ('copy', 'move') and not op['p']['pr']):
            return None
        l = op['p']['l']
        st = _single_def(f, l)
        if st is None or st['r']['k'] != 'use':
            return l
        op = st['r']['o']
    return None


def _chase(f, r):
    """follow `use` copies (and `.0` of a checked-arithmetic tuple) of single-definition temporaries to the defining rvalue"""
    for _ in range(10):
        if r['k'] != 'use':
            return r
        op = r['o']
        if op['k'] not in ('copy', 'move'):
            return None
        pr = op['p']['pr']
        if pr and not (len(pr) == 1 and pr[0]['k'] == 'field' and pr[0]['i'] == 0):
            return None
        st = _single_def(f, op['p']['l'])
        if st is None:
            return None
        r = st['r']
    return None


def counting_loops(f):
    """`while` loops driven by an integer induction variable (decided on the MIR statements, independent of expression caches):
       list of dicts: var (local), name, init (tree), step (+1/-1), stay (op, bound tree) = condition `var op bound` under which
       the body runs, header, body, guard_block, exits_only_at_guard (no break/return inside the body)"""
    out = []
    CM = {'Lt': 'lt', 'Le': 'le', 'Gt': 'gt', 'Ge': 'ge', 'Ne': 'ne', 'Eq': 'eq'}
    for h, body in f.loops().items():
        guards = []
        other_exit = False
        for u in sorted(body):
            t = f.term(u)
            outs = [v for v in f.succs(u) if v not in body]
            if not outs:
                continue
            live_outs = [v for v in outs if v in f.can_reach_return()]
            if t['k'] == 'switch' and len(live_outs) == 1 and len(outs) == 1:
                guards.append((u, outs[0]))
            elif live_outs:
                other_exit = True
        if len(guards) != 1:
            continue
        gu, gexit = guards[0]
        t = f.term(gu)
        cond = _chase(f, {'k': 'use', 'o': t['d']})
        if cond is None or cond['k'] != 'binop' or cond['op'] not in CM:
            continue
        # which truth value stays in the loop?
        stay_vals = [v for v, tg in t['vals'] if tg in body]
        stay_truth = (t['otherwise'] in body) if not stay_vals else (stay_vals[0] != 0)
        if t['otherwise'] in body and stay_vals:
            continue
        op = CM[cond['op']]
        if not stay_truth:
            op = NEG[op]
        la, lb = _chase_local(f, cond['a']), _chase_local(f, cond['b'])
        defs = f._defs()
        for v in range(f.argc + 1, len(f.locals)):
            if f.local_ty(v) not in ('usize', 'u32', 'u64', 'isize', 'i32', 'i64'):
                continue
            if (la == v) == (lb == v):
                continue
            dv = [d for d in defs if d[0] == v and not d[3]]
            inside = [d for d in dv if d[1] in body]
            outside = [d for d in dv if d[1] not in body]
            if len(inside) != 1 or len(outside) != 1 or inside[0][2] == 'T' or outside[0][2] == 'T':
                continue
            ub, ui = inside[0][1], inside[0][2]
            r = _chase(f, f.stmts(ub)[ui]['r'])
            if r is None or r['k'] not in ('binop', 'cbinop') or r['op'].replace('WithOverflow', '') not in ('Add', 'Sub'):
                continue
            if not (r['b']['k'] == 'const' and r['b'].get('int') == 1) or _chase_local(f, r['a']) != v:
                continue
            ob, oi = outside[0][1], outside[0][2]
            init = peel(f.expr_rvalue(f.stmts(ob)[oi]['r'], ob, oi))
            if la == v:
                sop, bound = op, f.expr_operand(cond['b'], gu, 'T')
            else:
                sop, bound = SWAP[op], f.expr_operand(cond['a'], gu, 'T')
            out.append({'var': v, 'name': f.local_name(v), 'init': init, 'step': 1 if r['op'].startswith('Add') else -1, 'stay': (sop, canon(bound)),
                        'header': h, 'body': body, 'exits_only_at_guard': not other_exit, 'guard_block': gu})
    return out


# ---------------------------------------------------------------- success cases of a fallible function

def success_cases(ctx, f):
    """cases in which f returns a success value (Result::Ok / Option::Some), each as (path, atoms, payload tree).
    Besides `Ok(v)`/`Some(v)` literals the data forms `cond.then_some(v)` are understood: the case then carries `cond` as an
    additional atom (the condition is resolved along the path, so `a && b` lowered to control flow is followed)."""
    out = []
    for path, outcome, decs in fn_paths(ctx, f):
        if outcome != 'return':
            continue
        atoms = [a for _, a in path_atoms(f, path, decs)]
        r = path_ret(f, path)
        if r is None:
            continue
        if r[0] == 'agg' and r[1].endswith(('Result::Ok', 'Option::Some')):
            out.append((path, atoms, r[2][0]))
            continue
        if r[0] == 'call' and r[1].endswith('bool::then_some') and len(r[2]) == 2:
            blk = r[3]
            idx = max(i for i, b in enumerate(path) if b == blk)
            t = f.term(blk)
            cond = f.expr_operand_on_path(t['args'][0], path, idx, 'T')
            c = peel(cond)
            if c[0] == 'int':
                if c[1]:
                    out.append((path, atoms, r[2][1]))
                continue
            a = atom_of(c, ('eq', 1))
            if a is not None:
                out.append((path, atoms + [a], r[2][1]))
    return out


def back_only(f, x, b, sblk):
    """x reaches b only by going around the loop through sblk again (so the test is re-evaluated after the reassignment)"""
    seen = set()
    st = [x]
    while st:
        y = st.pop()
        for z in f.succs(y):
            if z == sblk or z in seen:
                continue
            if z == b:
                return False
            seen.add(z); st.append(z)
    return True




def filter_facts(f, atoms):
    """additional comparison facts implied by `x.filter(pred) is Some`: pred((x as Some).0) holds — the closure's return
    expression with its parameter and captures substituted, as an atom"""
    out = []
    for a in atoms:
        if a and a[0] == 'is' and a[2] == 'Some' and a[1][0] == 'call' and a[1][1] == 'std::option::Option::filter' and len(a[1][2]) == 2:
            x, clo = a[1][2]
            payload = ('field', ('as', x, 'Some'), '0')
            body = f._beta(clo, [payload], 80)
            if body is not None:
                b2 = atom_of(body, ('eq', 1))
                if b2 is not None:
                    out.append(b2)
    return out


def iter_filter_facts(f, item_tree):
    """facts implied for an iteration item drawn from `src.filter(pred)`: pred(&item) holds (closure body with its parameter and
    captures substituted, as atoms).  `for m in ms.into_iter().filter(|m| stage < m.stages()) { .. }` guards its body exactly like
    `for m in ms { if stage < m.stages() { .. } }`."""
    out = []
    t = peel(item_tree)
    nxt = [x for x in walk(t) if is_next(x) and x[2]]
    for x in nxt[:1]:
        for y in walk(x[2][0]):
            if y[0] == 'call' and y[1] == 'std::iter::Iterator::filter' and len(y[2]) == 2:
                item = ('field', ('as', x, 'Some'), '0', 'std::option::Option')
                body = f._beta(y[2][1], [('ref', item)], 80)
                if body is not None:
                    a = atom_of(body, ('eq', 1))
                    if a is not None:
                        out.append(a)
            if y[0] == 'call' and y[1] == 'std::iter::Iterator::filter_map' and len(y[2]) == 2:
                # an item exists only where the closure returned Some: the decisions common to all its Some-returning paths hold
                # (atoms in the closure's own frame: its parameter is the source element)
                cl = peel(y[2][1])
                g = f.program.fns.get(cl[1][len('closure:'):]) if cl[0] == 'agg' and str(cl[1]).startswith('closure:') else None
                common = None
                for path, outcome, decs in (g.enum_paths() if g else []):
                    if outcome != 'return':
                        continue
                    r = path_ret_resolved(g, path)
                    r = peel(r) if r is not None else None
                    if r is not None and r[0] == 'agg' and str(r[1]).endswith('Option::None'):
                        continue
                    atoms = [a for _, a in path_atoms(g, path, decs)]
                    common = atoms if common is None else [a for a in common if a in atoms]
                out.extend(common or [])
    return out


def subst_captures(tree, caps):
    """replace the capture projections `(*env).N` of a closure-body tree by the captured values `caps` (trees of the creating frame)"""
    def rec(t):
        if not isinstance(t, tuple) or not t:
            return t
        if t[0] == 'field' and str(t[2]).isdigit() and len(t) > 3 and '{closure' in str(t[3]) and int(t[2]) < len(caps):
            base = t[1]
            while isinstance(base, tuple) and base and base[0] in ('deref', 'ref'):
                base = base[1]
            if base[0] == 'arg' and base[1] == 1:
                return caps[int(t[2])]
        return tuple(rec(x) if isinstance(x, tuple) else x for x in t)
    return rec(tree)


def result_state(a):
    """('ok'|'err', subject tree) if the atom states which variant a Result is in (match / `?` / is_ok() / is_err())"""
    if a and a[0] == 'bool' and a[1][0] == 'call' and a[1][2]:
        n = a[1][1]
        if n.endswith('Result::is_ok'):
            return ('ok' if a[2] else 'err', a[1][2][0])
        if n.endswith('Result::is_err'):
            return ('err' if a[2] else 'ok', a[1][2][0])
    if a and a[0] == 'is' and a[2] in ('Ok', 'Err', 'Continue', 'Break'):
        return ('ok' if a[2] in ('Ok', 'Continue') else 'err', a[1])
    return None

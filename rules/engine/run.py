"""Check runner: obtains facts, runs a property's rules, handles known findings, writes evidence."""
import importlib, json, os, sys, time, traceback

from .core import Program, MissingAnchor, TooManyPaths
from .extract import get_facts, ExtractError, VERIF

EVID = os.path.join(VERIF, 'evidence')
KNOWN = os.path.join(VERIF, 'known_findings.json')


class Ctx:
    """collects obligations, violations, floors and samples for one property run"""

    def __init__(self, pid, tier, seed, progs, cfg_notes):
        self.pid = pid
        self.tier = tier
        self.seed = seed
        self.progs = progs          # dict cfg -> Program
        self.P = progs.get('A')
        self.cfg_notes = cfg_notes
        self.obligations = []       # dicts
        self.violations = []
        self.notes = []
        self.floors = []
        self.assumptions = []
        self.functions = set()
        self.paths = 0
        self.orderings = 0
        self.rule = None
        self.cfg = 'A'

    # -- bookkeeping
    def set_rule(self, rule, cfg=None):
        self.rule = rule
        if cfg:
            self.cfg = cfg

    def touch(self, *fns):
        for f in fns:
            self.functions.add(f.key if hasattr(f, 'key') else str(f))

    def ok(self, what, where=None, detail=None, rule=None):
        self.obligations.append({'rule': rule or self.rule, 'cfg': self.cfg, 'status': 'discharged', 'what': what,
                                 'where': where, 'detail': detail})

    def violation(self, key, what, where=None, detail=None, rule=None):
        r = rule or self.rule
        full_key = '%s:%s' % (r, key)
        v = {'rule': r, 'cfg': self.cfg, 'status': 'violated', 'key': full_key, 'what': what, 'where': where,
             'detail': detail}
        # the same construct seen in two configurations is one violation
        for old in self.violations:
            if old['key'] == full_key:
                old.setdefault('also_cfg', []).append(self.cfg)
                return
        self.obligations.append(v)
        self.violations.append(v)

    def check(self, cond, key, what, where=None, detail=None, rule=None):
        if cond:
            self.ok(what, where, detail, rule)
        else:
            self.violation(key, what, where, detail, rule)
        return cond

    def floor(self, name, found, expected):
        """fail closed when fewer rule instances are found than were counted by hand"""
        self.floors.append({'rule': self.rule, 'name': name, 'found': found, 'floor': expected})
        if found < expected:
            self.violation('floor:%s' % name,
                           'unresolved-anchor: only %d instance(s) of "%s" found, %d were confirmed by hand on the pinned tree'
                           % (found, name, expected))
            return False
        return True

    def note(self, s):
        self.notes.append('%s: %s' % (self.rule, s))

    def assume(self, s):
        if s not in self.assumptions:
            self.assumptions.append(s)

    def anchor(self, key, cfg=None):
        """fetch a function by key; a missing anchor is a fail-closed violation"""
        P = self.progs[cfg or self.cfg]
        f = P.fns.get(key)
        if f is None:
            self.violation('anchor:%s' % key, 'unresolved-anchor: function %s not found in configuration %s' % (key, cfg or self.cfg))
            return None
        self.functions.add(key)
        return f


def load_known():
    try:
        return json.load(open(KNOWN))
    except FileNotFoundError:
        return {'known': [], 'fixed': []}


def run_property(pid, tier='quick', seed=0, repo='/repo', explain=None, quiet=False):
    t0 = time.time()
    mod = importlib.import_module('rules.%s' % pid)
    cfgs = ['A'] + (['B'] if tier == 'thorough' and getattr(mod, 'USES_B', False) else [])
    if getattr(mod, 'ALWAYS_B', False) and 'B' not in cfgs:
        cfgs.append('B')
    progs = {}
    cfg_notes = {}
    for c in cfgs:
        try:
            d, info = get_facts(repo, c)
            progs[c] = Program(d, c)
            cfg_notes[c] = 'analysed (%s)' % ('cached facts' if info.get('cached') else 'extracted in %.0fs' % info.get('seconds', 0))
        except ExtractError as e:
            cfg_notes[c] = 'configuration not analysable: ' + str(e)[:300]
            if c == 'A':
                print('ERROR: cannot analyse %s: %s' % (repo, str(e)[-3000:]), file=sys.stderr)
                return 2, None
    ctx = Ctx(pid, tier, seed, progs, cfg_notes)
    try:
        mod.run(ctx)
    except MissingAnchor as e:
        ctx.violation('anchor:%s' % e, 'unresolved-anchor: %s' % e)
    except TooManyPaths as e:
        ctx.violation('engine:too-many-paths:%s' % e, 'engine failure: path explosion in %s (not a pass)' % e)
    except Exception as e:   # fail closed, but diagnosably: a rule that cannot read the code is not a pass
        ctx.violation('engine:rule-crash:%s' % type(e).__name__, 'engine failure: a rule raised %s: %s (not a pass)' % (type(e).__name__, e),
                      None, traceback.format_exc()[-1500:])
    extra = {}
    if tier == 'thorough' and hasattr(mod, 'thorough'):
        try:
            extra = mod.thorough(ctx) or {}
        except Exception as e:  # thorough extras never mask the verdict
            extra = {'thorough_error': traceback.format_exc()[-1500:]}
    if tier == 'thorough' and repo == '/repo':
        try:
            extra['selftest'] = selftest(pid, mod)
        except Exception:
            extra['selftest'] = {'error': traceback.format_exc()[-800:]}
    known = load_known()
    known_keys = {k['key']: k for k in known.get('known', []) if k.get('property') == pid}
    new = []
    out_lines = []
    for v in ctx.violations:
        if v['key'] in known_keys:
            out_lines.append('KNOWN-FINDING: property=%s %s [%s]' % (pid, known_keys[v['key']]['what'], v['key']))
            v['status'] = 'known-finding'
        else:
            new.append(v)
    os.makedirs(os.path.join(EVID, 'violations'), exist_ok=True)
    for n, v in enumerate(new):
        p = os.path.join(EVID, 'violations', '%s-%d.json' % (pid, n))
        json.dump(v, open(p, 'w'), indent=1, default=str)
        out_lines.append('VIOLATION property=%s replay=%s' % (pid, p))
        out_lines.append('  rule %s: %s' % (v['rule'], v['what']))
        if v.get('where'):
            out_lines.append('  at %s' % v['where'])
        if v.get('detail'):
            out_lines.append('  detail: %s' % (str(v['detail'])[:1500]))
    wall = time.time() - t0
    discharged = [o for o in ctx.obligations if o['status'] == 'discharged']
    distinct = {(o['rule'], o.get('where') or o['what']) for o in discharged}
    # deterministic sample selection (seed only rotates which obligations are written out)
    samples = []
    if discharged:
        by_rule = {}
        for o in discharged:
            by_rule.setdefault(o['rule'], []).append(o)
        for r in sorted(by_rule):
            lst = by_rule[r]
            samples.append(lst[seed % len(lst)])
    ev = {
        'property_id': pid,
        'tier': tier,
        'seed': seed,
        'level': 'other',
        'coverage': {
            'explanation': getattr(mod, 'EXPLANATION', ''),
            'obligations': len(ctx.obligations),
            'discharged': len(discharged),
            'evaluations': len(ctx.obligations),
            'distinct_nontrivial': len(distinct),
            'rule': 'one obligation per (rule, construct) instance found in the MIR facts of /repo; non-trivial = the rule matched at least one concrete construct (function, call site, path or ordering) and was decided on it; distinct = different (rule, site) pairs',
            'samples': [{k: o[k] for k in ('rule', 'cfg', 'what', 'where', 'detail') if o.get(k)} for o in samples][:40],
            'configurations': cfg_notes,
            'functions_analysed': len(ctx.functions),
            'function_list': sorted(ctx.functions)[:200],
            'paths_enumerated': ctx.paths,
            'orderings_enumerated': ctx.orderings,
            'floors': ctx.floors,
            'rules': sorted({o['rule'] for o in ctx.obligations if o.get('rule')}),
            'notes': ctx.notes[:60],
            'exhaustive': False,
            'known_findings_reported': [v['key'] for v in ctx.violations if v['status'] == 'known-finding'],
            'new_violations': [v['key'] for v in new],
        },
        'assumptions': ctx.assumptions + list(getattr(mod, 'ASSUMPTIONS', [])),
        'wall_s': round(wall, 2),
        'violations': len(new),
    }
    ev['coverage'].update(extra)
    os.makedirs(EVID, exist_ok=True)
    if repo == '/repo':
        json.dump(ev, open(os.path.join(EVID, '%s.json' % pid), 'w'), indent=1, default=str)
    if not quiet:
      try:
        print('%s [%s] %d obligations, %d discharged, %d new violation(s), %d known finding(s), %d functions, %.1fs'
              % (pid, tier, len(ctx.obligations), len(discharged), len(new),
                 len(ctx.violations) - len(new), len(ctx.functions), wall))
        for c, n in cfg_notes.items():
            print('  cfg %s: %s' % (c, n))
        for l in out_lines:
            print(l)
        sys.stdout.flush()
      except BrokenPipeError:
        # the reader closed the pipe (e.g. `| head`): the verdict is still the exit status
        try:
            sys.stdout = open(os.devnull, 'w')
        except OSError:
            pass
    return (1 if new else 0), ctx


def selftest(pid, mod):
    """Sensitivity demonstration (thorough tier): every entry of selftest/index.json for this property is a compiling edit of
    /repo that breaks the property; it is applied to a scratch copy (outside /repo and /verif, removed afterwards), the facts are
    re-extracted and the named rules must fire.  Never executes des code; does not change the verdict about /repo."""
    import re, shutil, subprocess, tempfile
    idx = os.path.join(VERIF, 'selftest', 'index.json')
    if not os.path.exists(idx):
        return {'entries': 0}
    entries = [e for e in json.load(open(idx)) if e['property'] == pid and e.get('status') == 'fires']
    # all reverted fixes and hand mutants, and a sample of at most SELFTEST_SEEDS of the independently seeded changes, drawn by
    # VERIF_SEED (every fresh scratch tree costs a fact extraction; tools/regress.py runs all of them, in parallel)
    import random
    cap = int(os.environ.get('VERIF_SELFTEST_SEEDS', '12'))
    seeds_ = [e for e in entries if e['id'].startswith('seed-')]
    if len(seeds_) > cap:
        rnd = random.Random(int(os.environ.get('VERIF_SEED', '0') or 0))
        keep = {e['id'] for e in rnd.sample(sorted(seeds_, key=lambda e: e['id']), cap)}
        skipped = len(seeds_) - cap
        entries = [e for e in entries if not e['id'].startswith('seed-') or e['id'] in keep]
    else:
        skipped = 0
    res = []
    known = {k['key'] for k in load_known().get('known', [])}
    for e in entries:
        S = tempfile.mkdtemp(prefix='scratch-', dir='/tmp')
        try:
            subprocess.check_call(['rsync', '-a', '--exclude', 'target', '--exclude', '.git', '/repo/', S + '/'])
            ok = True
            if e['kind'] in ('patch', 'rpatch'):
                r = subprocess.run(['git', 'apply'] + (['-R'] if e['kind'] == 'rpatch' else []) + [os.path.join(VERIF, e['path'])], cwd=S, capture_output=True, text=True)
                ok = r.returncode == 0
            else:
                p = os.path.join(S, e['file'])
                src = open(p).read()
                ok = len(re.findall(e['pattern'], src, flags=re.S)) == 1
                if ok:
                    open(p, 'w').write(re.sub(e['pattern'], e['replacement'], src, count=1, flags=re.S))
            if not ok:
                res.append({'id': e['id'], 'result': 'no longer applies'})
                continue
            try:
                d, _ = get_facts(S, 'A')
            except ExtractError:
                res.append({'id': e['id'], 'result': 'does not compile'})
                continue
            ctx = Ctx(pid, 'quick', 0, {'A': Program(d, 'A')}, {})
            try:
                mod.run(ctx)
            except (MissingAnchor, TooManyPaths) as ex:
                ctx.violation('engine:%s' % ex, str(ex))
            fired = sorted({v['key'].split(':')[0] for v in ctx.violations if v['key'] not in known})
            hit = bool(set(e.get('expect_rules', [])) & set(fired))
            res.append({'id': e['id'], 'what': e.get('what'), 'expected_rules': e.get('expect_rules'), 'fired_rules': fired, 'result': 'fired' if hit else 'SILENT'})
        finally:
            shutil.rmtree(S, ignore_errors=True)
    return {'entries': len(res), 'fired': sum(1 for r in res if r['result'] == 'fired'), 'seeded_changes_not_sampled_this_run': skipped, 'details': res}

"""C06 — all runnable async work finishes within the instant (structural clauses; one known finding)."""
from .engine.helpers import *

EXPLANATION = (
    "Static analysis of the async harness: (R1) the future that Harness::exec drives on the module's runtime must keep yielding "
    "until the runtime is quiescent — a constant number of yield points after the callback lets the current-thread scheduler poll "
    "at most (yields+1) x event_interval tasks (tokio's documented per-tick budget, 61 by default and not configured by des), so an "
    "instant with more runnable tasks leaves work behind until the module's next event; today's tree has exactly one yield_now and no "
    "drain loop — KNOWN FINDING F12, demonstrated by findings/F12/demo.rs (61 sleepers + 1 task: one resumes at 11 s instead of 1 s); "
    "(R2) every module callback and every async wake-up runs inside LocalSet::block_on on the module's own runtime (Harness::exec) "
    "under catch_unwind; (R3) the wake-ups of due timers precede the callback (activate bumps and wakes before the driver is installed) "
    "and every event handler activates before calling into the module; (R4) des does not lower the scheduler's budget or defer tasks "
    "(no event_interval/global_queue_interval configuration, no spawn_blocking); (R5) the timer wake-up rules of C05 (next wake-up over all live slots, wake-up scheduled iff recorded, registration/handle typestate) — a sleeping task only becomes runnable if its wake-up event exists. "
    '(R3 also, shared with C05.R4: a reached wake-up is cleared on activation; R5 also: timer resolution, shared with C05.R9.) '
    "(R1 also: the drain of runnable tasks happens inside the future the runtime drives; R3 also: every dispatched wake-up event reaches the activation; R7) the final turn of the tasks is taken before their outcomes are joined. "
    "(R4 also: no future of des charges tokio's cooperative task budget.) "
    '(R5 also, shared with C05.R1: Driver::next is the search over the live slots, unconditionally.) '
    "Decides these necessary conditions only; the number "
    "of tasks and the length of wake-up chains at run time are not bounded statically.")
ASSUMPTIONS = ["tokio's current-thread scheduler polls at most `event_interval` (default 61) tasks between two polls of the block_on future (documented)",
               "tokio::task::yield_now yields exactly once"]

H = 'des::net::runtime::unwind::Harness'
EV = 'des::net::runtime::events::'


def r1_drain(ctx, rule='C06.R1'):
    ctx.set_rule(rule)
    P = ctx.P
    fe = ctx.anchor(H + '::exec')
    if not fe:
        return
    scope = [fe] + P.closures_of(fe)
    bo = [(g, s) for g in scope for s in g.calls() if s.name == 'tokio::task::LocalSet::block_on']
    if not ctx.floor('LocalSet::block_on in Harness::exec', len(bo), 1):
        return
    # the driven future: the innermost coroutine closure
    ys = [(g, s) for g in scope for s in g.calls() if s.name == 'tokio::task::yield_now']
    cb = [(g, s) for g in scope for s in g.calls() if s.callee and s.callee.endswith('FnOnce::call_once')]
    if not ys:
        ctx.violation('no-yield:%s' % fe.key, 'the harness future finishes right after the callback without yielding: tasks woken by the callback are not polled before simulated time advances', fe.where())
        return
    # ... inside: the call of the callback is part of the very future handed to block_on (an async block), so that it runs with the
    # runtime's context - seeded RNG, current task set - installed, not merely "entered"
    in_future = False
    for g_bo, s_bo in bo:
        for a_ in s_bo.args:
            t_ = peel(g_bo.expr_operand(a_, s_bo.b, 'T'))
            if t_[0] == 'agg' and str(t_[1]).startswith('closure:'):
                k_ = str(t_[1])[len('closure:'):]
                if any(g_cb.key == k_ or g_cb.key.startswith(k_ + '::') for g_cb, _ in cb):
                    in_future = True
    if not in_future and cb and bo:
        # the future built beforehand (`let turn = async move { f(); .. }`) and handed over by name: the callback is then called in a
        # coroutine body of its own - neither in exec itself nor in the body that calls block_on
        bodies_bo = {g_.key for g_, _ in bo}
        in_future = all(g_cb.kind == 'closure' and g_cb.key not in bodies_bo and g_cb.key != fe.key for g_cb, _ in cb)
    ctx.check(bool(cb) and in_future, 'callback-in-future', 'the module callback runs inside the future driven by LocalSet::block_on', fe.where())
    for g, s in ys:
        if cb and cb[0][0] is g:
            ctx.check(g.dominates(cb[0][1].b, s.b), 'yield-after-callback', 'the yield happens after the callback (so that tasks it woke are polled in the same instant)', s.where())
    # a single scheduler turn after the callback must at least be unconditional: whatever the callback woke (spawned tasks, LocalSet
    # tasks, join handles ..) is polled once — a guard such as "only if the runtime reports alive tasks" skips tasks the queried
    # counter does not see
    if not any(g.loops_containing(s.b) for g, s in ys):
        for g, s in ys:
            conds = [a for _, a in g.guard_atoms(s.b) if a and a[0] in ('bool', 'cmp')]
            ctx.check(not conds, 'yield-unconditional', 'the scheduler turn after the callback is taken unconditionally', s.where(), [show_atom(a) for a in conds][:4])
    # drain loop?
    looped = [(g, s) for g, s in ys if g.loops_containing(s.b)]
    quiescence_query = []
    for g in scope:
        for s in g.calls():
            if any(k in s.name for k in ('RuntimeMetrics::', 'queue_depth', 'num_alive_tasks', 'is_idle')):
                quiescence_query.append(s)
    if looped and quiescence_query:
        ctx.ok('the harness future yields in a loop whose exit depends on a runtime quiescence query', looped[0][1].where())
    else:
        ctx.violation('bounded-yield:%s' % fe.key,
                      'Harness::exec drives `f(); yield_now().await` — %d yield point(s), no drain loop: the scheduler polls at most (yields+1) x event_interval (61) tasks per harness '
                      'execution, so when more tasks are runnable in one instant the rest is only polled at the module\'s next event (code after an await observes a later simulated time)' % len(ys),
                      ys[0][1].where(), {'yield_points': len(ys), 'in_loop': len(looped), 'quiescence_queries': len(quiescence_query)})


def r2_inside_block_on(ctx):
    ctx.set_rule('C06.R2')
    P = ctx.P
    fe = ctx.anchor(H + '::exec')
    if not fe:
        return
    cu = [s for s in fe.calls() if s.name == 'std::panic::catch_unwind']
    rt = [s for s in fe.calls() if s.name.endswith('rt::Rt::current')]
    ok = bool(cu) and bool(rt) and fe.dominates(rt[0].b, cu[0].b)
    ctx.check(ok, 'own-runtime', "Harness::exec obtains the module's own runtime/local set (Rt::current) and drives the callback on it under catch_unwind", fe.where())
    if rt:
        recv = fe.expr_operand(rt[0].args[0], rt[0].b, 'T')
        ctx.check(any(x[0] == 'field' and x[2] == 'async_ext' for x in walk(recv)) and any(x[0] == 'field' and x[2] == 'ctx' for x in walk(recv)), 'runtime-of-this-module',
                  'the runtime is the one stored in this module\'s context', rt[0].where(), show(recv)[:120])
    # all entry points use the harness (wake-ups too)
    for k in (EV + 'handle_message', EV + 'async_wakeup', EV + 'at_sim_start', EV + 'at_sim_end', EV + 'reset'):
        f = P.fns.get(k)
        if f is None:
            ctx.violation('anchor:' + k, 'unresolved-anchor ' + k); continue
        ctx.touch(f)
        ctx.check(bool(f.calls_to(H + '::exec')), 'harnessed:%s' % k.split('::')[-1], '%s runs its callback through Harness::exec (tasks get polled in the same instant)' % short(k), f.where())


def r3_wake_before_callback(ctx):
    ctx.set_rule('C06.R3')
    P = ctx.P
    f = ctx.anchor('des::net::module::refs::ModuleRef::activate')
    if f:
        from . import C05
        r = C05.activation_wake_order(ctx, f)
        ctx.check(bool(r), 'wake-before-install', 'due timers are woken before the module callback can run', f.where())
    for k, callee in ((EV + 'HandleMessageEvent::handle', EV + 'handle_message'), (EV + 'AsyncWakeupEvent::handle', EV + 'async_wakeup'), (EV + 'ModuleRestartEvent::handle', EV + 'module_restart')):
        g = P.fns.get(k)
        if g is None:
            ctx.violation('anchor:' + k, 'unresolved-anchor ' + k); continue
        a = [s for s in g.calls() if s.name.endswith('ModuleRef::activate')]
        c = g.calls_to(callee)
        ctx.check(bool(a and c) and g.dominates(a[0].b, c[0].b), 'activate-first:%s' % k.split('::')[-2], '%s activates the module (waking due timers) before calling into it' % short(k), g.where())
        # ... for every such event: a wake-up event that finds no timer due is still processed - activation clears the reached wake-up and
        # deactivation announces the next deadline; dropping it leaves a later deadline without any wake-up event
        if a:
            ctx.check(g.postdominates_entry(a[0].b), 'event-always-processed:%s' % k.split('::')[-2], '%s processes every event it is given (no early return before the module is activated)' % short(k), g.where())


def r4_budget_untouched(ctx):
    ctx.set_rule('C06.R4')
    P = ctx.P
    bad = []
    n = 0
    for f in P.fn_list:
        for s in f.calls():
            if s.name.startswith('tokio::runtime::Builder::'):
                n += 1
                if s.name.split('::')[-1] in ('event_interval', 'global_queue_interval', 'max_blocking_threads', 'disable_lifo_slot'):
                    bad.append(s)
            if s.name in ('tokio::task::spawn_blocking', 'tokio::task::block_in_place'):
                bad.append(s)
    ctx.floor('tokio runtime builder calls', n, 4)
    # des' own leaf futures (timers, channels) do not charge tokio's cooperative budget: a task that awaits elapsed des timers would be
    # cut off after 128 of them and left runnable when the harness turn ends
    coop = [s for f in P.fn_list if f.key.startswith(('des::', '<des::')) for s in f.calls()
            if s.name.startswith('tokio::task::coop::') or s.name.split('::')[-1] in ('consume_budget', 'poll_proceed')]
    ctx.check(not coop, 'budget-charged-by-des-future', 'no future of des charges the cooperative task budget', coop[0].where() if coop else None, [s.name for s in coop][:3])
    ctx.check(not bad, 'budget-config', 'des neither lowers the scheduler\'s per-tick budget nor moves tasks off the simulation thread', bad[0].where() if bad else None, [s.name for s in bad])


def r5_runtime_turn_per_event(ctx):
    """every event delivered to an active module gives the module's runtime a turn (tasks woken by a processing element are polled)"""
    ctx.set_rule('C06.R2')
    P = ctx.P
    for k in (EV + 'handle_message', EV + 'async_wakeup'):
        f = P.fns.get(k)
        if f is None:
            continue
        n = 0
        for path, outcome, decs in fn_paths(ctx, f):
            if outcome != 'return':
                continue
            effs = path_effects(f, path)
            up = sum(1 for e in effs if e[0] == 'c' and e[1].name.endswith('Processor::incoming_upstream'))
            ex = sum(1 for e in effs if e[0] == 'c' and e[1].name == H + '::exec')
            if up == 0:
                continue
            n += 1
            ctx.check(ex == 1, 'turn-per-event:%s' % k.split('::')[-1],
                      '%s: whenever the event reaches the module (upstream pass ran), the module runtime gets exactly one harness turn — also when a processing element consumed the message' % short(k),
                      f.where_path(path), {'harness_executions': ex})
        ctx.floor('delivering paths of %s' % short(k), n, 1)


def r6_timer_wakeups(ctx):
    """a sleeping task becomes runnable at its deadline only if the wake-up event is scheduled (shared with C05)"""
    from . import C05
    C05.r1_next_wakeup(ctx, 'C06.R5')
    C05.r3_wakeup_scheduling(ctx, 'C06.R5')
    C05.r5_registration(ctx, 'C06.R5')


def r7_final_turn(ctx):
    """tear-down gives the module's tasks the turn its handler enabled before their join handles are judged: after the harnessed
    at_sim_end the module's task set is driven once more (block_on(yield_now)) - the one event after which no further event can pick
    up what was left runnable"""
    ctx.set_rule('C06.R7')
    g = ctx.P.fns.get(EV + 'at_sim_end')
    if g is None:
        ctx.violation('anchor:at_sim_end', 'unresolved-anchor ModuleRef::at_sim_end'); return
    ctx.touch(g)
    fin = [c for c in g.calls() if c.name.endswith('JoinHandle::is_finished')]
    turn = [c for c in g.calls() if c.name.endswith('LocalSet::block_on')]
    if not fin:
        ctx.note('at_sim_end judges no join handles'); return
    ctx.check(bool(turn) and all(any(g.dominates(t.b, c.b) and t.b != c.b for t in turn) for c in fin), 'final-turn-before-joins',
              "at_sim_end drives the module's task set once more before it inspects the join handles", fin[0].where(), {'turns': len(turn), 'inspections': len(fin)})


def run(ctx):
    r7_final_turn(ctx)
    from .C05 import r9_timer_resolution
    r9_timer_resolution(ctx, rule='C06.R5')   # (shared with C05.R9)
    r5_runtime_turn_per_event(ctx)
    r6_timer_wakeups(ctx)
    r1_drain(ctx)
    r2_inside_block_on(ctx)
    r3_wake_before_callback(ctx)
    # (R3 cont.) ... and a wake-up that was reached is cleared on activation, so that the module's later timers are announced again (shared with C05.R4)
    from .C05 import r4_wake_before_callback as _c05_r4
    _c05_r4(ctx, rule='C06.R3')
    r4_budget_untouched(ctx)

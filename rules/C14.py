"""C14 — processing elements bracket events in stack order (structural clauses, DESIGN §4 C14)."""
from .engine.helpers import *

EXPLANATION = (
    "Static analysis of the processing-element brackets: (R1) in handle_message / at_sim_start / at_sim_end / async_wakeup every "
    "returning path that does not leave through the harness' panic error runs incoming_upstream, then the harnessed handler, then "
    "incoming_downstream, exactly once each and in this order; (R2) upstream walks the element stack with an ascending range, "
    "downstream with the reversed range, both over 0..len and indexing with the loop variable; (R3) per element event_start precedes "
    "incoming, incoming is only called while a message exists, and upstream never returns from inside its loop (every element sees "
    "event_start); downstream calls event_end for every element; (R4) the module handler runs iff the message survived upstream; "
    "(R5) upstream/downstream are called only from the four entry points, and those only from the event handlers, the lifecycle loops "
    "and module_restart (table exception: Spawner::terminate). "
    '(R6, shared with C03.R3) what the handler and the elements emit during an event leaves the event buffer in program order. '
    '(R7) the element vector of a ProcessingStack only ever grows at its end (append keeps the installed order; no swap/insert/remove). '
    "(R8) the plugin-style processing bracket is closed last: nothing of the module runs after the event-end hook on any exit of the event handlers and lifecycle calls. "
    "(R9) a module's chain is exactly Module::stack(simulation-wide stack), and every site that builds a module hands in that stack or draws it from the configured provider. "
    "Decides these necessary conditions only; not per-history exactly-once counts.")
ASSUMPTIONS = ["events are dispatched sequentially (one Runtime::dispatch_event at a time), so brackets of one module cannot nest"]

EV = 'des::net::runtime::events::'
PR = 'des::net::processing::Processor::'
H = 'des::net::runtime::unwind::Harness'
ENTRY = (EV + 'handle_message', EV + 'at_sim_start', EV + 'at_sim_end', EV + 'async_wakeup')


def r1_pairing(ctx):
    ctx.set_rule('C14.R1')
    for k in ENTRY:
        f = ctx.anchor(k)
        if not f:
            continue
        n = 0
        for path, outcome, decs in fn_paths(ctx, f):
            if outcome != 'return':
                continue
            effs = path_effects(f, path)
            atoms = [a for _, a in path_atoms(f, path, decs)]
            order = []
            for e in effs:
                if e[0] != 'c':
                    continue
                nm = e[1].name
                if nm == PR + 'incoming_upstream':
                    order.append('up')
                elif nm == PR + 'incoming_downstream':
                    order.append('down')
                elif nm == H + '::exec':
                    order.append('exec')
            # left through the harness' panic error?  (`.catch()?`)
            panic_exit = any((result_state(a) or ('', None))[0] == 'err' and
                             any(x[0] == 'call' and x[1] in (H + '::catch', H + '::pass') for x in walk(result_state(a)[1])) for a in atoms)
            n += 1
            if panic_exit:
                ctx.check(order[:2] == ['up', 'exec'], 'panic-exit-shape:%s' % k.split('::')[-1], 'a panic error leaves after upstream and the harnessed handler', f.where_path(path), order)
                continue
            ok = order in (['up', 'exec', 'down'], [])
            ctx.check(ok, 'bracket:%s' % k.split('::')[-1],
                      '%s: every returning path (other than the panic-error exit) runs upstream, the harnessed handler and downstream exactly once, in this order' % short(k),
                      f.where_path(path), order)
        ctx.floor('returning paths of %s' % short(k), n, 2)


_ITEMS = {}


def _items_field(P):
    """role: the field of ProcessingStack that holds the boxed processing elements"""
    if id(P) not in _ITEMS:
        a = P.adts.get('des::net::processing::ProcessingStack') or {}
        name = 'items'
        for v in a.get('variants', []):
            for fd in v['fields']:
                if 'ProcessingElement' in fd['ty'] and 'Vec' in fd['ty']:
                    name = fd['n']
        _ITEMS[id(P)] = name
    return _ITEMS[id(P)]


def _loop_iter_types(f):
    """argument types of Iterator::next calls inside loops"""
    out = []
    for s in f.calls():
        if s.callee == 'std::iter::Iterator::next' and f.loops_containing(s.b):
            out.append((s, s.argtys[0] if s.argtys else ''))
    return out


def r2_directions(ctx):
    ctx.set_rule('C14.R2')
    for k, want, hook in ((PR + 'incoming_upstream', '&mut std::ops::Range<usize>', 'event_start'), (PR + 'incoming_downstream', '&mut std::iter::Rev<std::ops::Range<usize>>', 'event_end')):
        f = ctx.anchor(k)
        if not f:
            continue
        its = _loop_iter_types(f)
        hooks = [s for s in f.calls() if s.callee == 'des::net::processing::ProcessingElement::' + hook]
        want_rev = 'Rev' in want
        cls = [c for c in counting_loops(f) if any(h.b in c['body'] for h in hooks)] if not its else []
        if cls and hooks:
            # manual counting loop instead of an iterator: decide direction and coverage from the induction variable
            c = cls[0]
            is_len = lambda t: peel(t)[0] == 'call' and peel(t)[1].endswith('Vec::len') and any(x[0] == 'field' and x[2] == _items_field(ctx.P) for x in walk(t))
            from .engine.helpers import _chase, _chase_local
            for h in hooks:
                # the element addressed: items[<index operand>] inside the loop body (MIR level: independent of expression caches)
                ixs = [x for x in f.calls() if x.b in c['body'] and (x.callee or '').endswith(('IndexMut::index_mut', 'Index::index')) and
                       any(y[0] == 'field' and y[2] == _items_field(ctx.P) for y in walk(f.expr_operand(x.args[0], x.b, 'T'))) and f.dominates(x.b, h.b)]
                it = None
                rev_idx = fwd_idx = False
                if len(ixs) == 1:
                    io = ixs[0].args[1]
                    fwd_idx = _chase_local(f, io) == c['var']
                    r = _chase(f, {'k': 'use', 'o': io})
                    rev_idx = r is not None and r['k'] in ('binop', 'cbinop') and r['op'].startswith('Sub') and r['b'].get('int') == 1 and _chase_local(f, r['a']) == c['var']
                    it = f.expr_operand(io, ixs[0].b, 'T')
                if want_rev:
                    ok = c['step'] == -1 and is_len(c['init']) and c['stay'] == ('gt', ('int', 0)) and rev_idx
                else:
                    ok = c['step'] == 1 and peel(c['init']) == ('int', 0) and c['stay'][0] == 'lt' and any(x[0] == 'call' and x[1].endswith('Vec::len') for x in walk(c['stay'][1])) and fwd_idx
                ctx.check(ok and c['exits_only_at_guard'], 'direction:%s' % k.split('::')[-1],
                          '%s visits the whole element stack %s' % (short(k), 'in reverse stack order' if want_rev else 'in stack order'), h.where(),
                          {'form': 'counting loop', 'init': show(c['init'])[:80], 'step': c['step'], 'stay': c['stay'][0], 'index': show(it)[:80] if it else None})
            continue
        if not its and not hooks:
            # consumer form: `items.iter_mut()[.rev()].for_each(|e| { e.event_end(); .. })` / `.fold(msg, |msg, e| { e.event_start(); .. })`
            ws = per_item_calls(ctx.P, f, 'des::net::processing::ProcessingElement::' + hook)
            ws = [w for w in ws if w.form == 'consumer']
            if ctx.floor('element traversal in %s' % short(k), len(ws), 1):
                w = ws[0]
                src = w.it if w.it is not None else ('unknown',)
                over_items = any(x[0] == 'field' and x[2] == _items_field(ctx.P) for x in walk(src))
                adaptors = [x[1].split('::')[-1] for x in walk(src) if x[0] == 'call' and x[1].startswith(('std::iter::', '<std::iter::')) or
                            (x[0] == 'call' and x[1].split('::')[-1] in ('rev', 'skip', 'take', 'step_by', 'filter', 'chain', 'zip', 'skip_while', 'take_while', 'filter_map'))]
                is_rev = adaptors.count('rev') % 2 == 1
                others = [a_ for a_ in adaptors if a_ not in ('rev', 'iter', 'iter_mut', 'into_iter', 'by_ref')]
                ctx.check(over_items and is_rev == want_rev and not others and w.exhaustive, 'direction:%s' % k.split('::')[-1],
                          '%s visits the whole element stack %s' % (short(k), 'in reverse stack order' if want_rev else 'in stack order'), w.site.where(),
                          {'form': 'consumer', 'iterator': show(src)[:160], 'exhaustive': w.exhaustive})
                ctx.check(w.trees is not None and from_item(w.fn, w.trees[0]), 'element-from-loop:%s' % hook, '%s is called on the element selected by the traversal' % hook, w.site.where())
            continue
        if not (ctx.floor('element loop in %s' % short(k), len(its), 1) and ctx.floor('%s call' % hook, len(hooks), 1)):
            continue
        for (s, ty) in its:
            it = peel(f.expr_operand(s.args[0], s.b, 'T'))
            rng = [x for x in walk(it) if x[0] == 'agg' and 'ops::Range' in x[1]]
            over_items = any(x[0] == 'field' and x[2] == _items_field(ctx.P) for x in walk(it))
            full_range = bool(rng) and rng[0][2][0] == ('int', 0) and any(x[0] == 'call' and x[1].endswith('Vec::len') for x in walk(rng[0][2][1])) and over_items
            slice_iter = ('std::slice::Iter' in ty) and over_items and not rng
            is_rev = 'std::iter::Rev<' in ty
            base_ok = ('std::ops::Range<usize>' in ty and full_range) or slice_iter
            other_adaptors = any(a in ty for a in ('Skip<', 'Take<', 'StepBy<', 'Filter<', 'Chain<', 'Zip<'))
            ctx.check(base_ok and is_rev == want_rev and not other_adaptors, 'direction:%s' % k.split('::')[-1],
                      '%s visits the whole element stack %s' % (short(k), 'in reverse stack order' if want_rev else 'in stack order'), s.where(), {'iterator': ty})
        # the element addressed is items[loop variable] or the iterator's item
        for h in hooks:
            recv = peel(f.expr_operand(h.args[0], h.b, 'T'))
            from_loop = any(x[0] == 'call' and x[1].endswith('::next') for x in walk(recv)) and any(x[0] == 'field' and x[2] == _items_field(ctx.P) for x in walk(recv))
            ctx.check(from_loop and bool(f.loops_containing(h.b)), 'element-from-loop:%s' % hook, '%s is called on the element selected by the loop' % hook, h.where(), show(recv)[:200])


def r3_per_element(ctx):
    ctx.set_rule('C14.R3')
    f = ctx.anchor(PR + 'incoming_upstream')
    f_outer = f
    consumer = None
    if f and not any(s.callee == 'des::net::processing::ProcessingElement::event_start' for s in f.calls()):
        # consumer form (fold / for_each): the per-element body is the closure
        ws = [w for w in per_item_calls(ctx.P, f, 'des::net::processing::ProcessingElement::event_start') if w.form == 'consumer']
        if ws:
            consumer = ws[0]
            f = consumer.fn
    if f:
        st = [s for s in f.calls() if s.callee == 'des::net::processing::ProcessingElement::event_start']
        inc = [s for s in f.calls() if s.callee == 'des::net::processing::ProcessingElement::incoming']
        if not inc:
            # `msg = msg.and_then(|m| element.incoming(m))`: the element sees the message only if one exists (and_then), after event_start
            n_at = 0
            for c in f.calls():
                if c.name != 'std::option::Option::and_then' or len(c.args) != 2:
                    continue
                cl = peel(f.expr_operand(c.args[1], c.b, 'T'))
                g = ctx.P.fns.get(cl[1][len('closure:'):]) if cl[0] == 'agg' and str(cl[1]).startswith('closure:') else None
                gi = [x for x in (g.calls() if g else []) if x.callee == 'des::net::processing::ProcessingElement::incoming']
                if not gi:
                    continue
                n_at += 1
                doms = [x for x in st if f.dominates(x.b, c.b) and x.b != c.b and set(f.loops_containing(x.b)) == set(f.loops_containing(c.b))]
                ctx.check(bool(doms), 'start-before-incoming', 'an element sees event_start before incoming', c.where())
                passed = peel(g.expr_operand(gi[0].args[1], gi[0].b, 'T'))
                ctx.check(passed[0] == 'arg' and passed[1] == 2, 'incoming-only-with-message', 'incoming is only called while a message exists (Option::and_then passes the existing message)', c.where())
                if doms:
                    a0 = canon(peel(f.expr_operand(doms[-1].args[0], doms[-1].b, 'T')))
                    a1 = canon(peel(subst_captures(g.expr_operand(gi[0].args[0], gi[0].b, 'T'), cl[2])))
                    i0 = [x for x in walk(a0) if x[0] == 'index']
                    i1 = [x for x in walk(a1) if x[0] == 'index']
                    same = (i0 and i1 and i0[0][2] == i1[0][2]) or a0 == a1
                    ctx.check(bool(same), 'same-element', 'event_start and incoming address the same element', c.where(), {'start': show_c(a0)[:120], 'incoming': show_c(a1)[:120]})
            ctx.floor('incoming', n_at, 1)
        elif ctx.floor('event_start', len(st), 1) and ctx.floor('incoming', len(inc), 1):
            for i in inc:
                doms = [x for x in st if f.dominates(x.b, i.b) and x.b != i.b and set(f.loops_containing(x.b)) == set(f.loops_containing(i.b))]
                ctx.check(bool(doms), 'start-before-incoming', 'an element sees event_start before incoming', i.where())
                atoms = [a for _, a in f.guard_atoms(i.b)]
                ctx.check(any(a[0] == 'is' and a[2] == 'Some' for a in atoms) or any(x[0] == 'as' and x[2] == 'Some' for x in walk(f.expr_operand(i.args[1], i.b, 'T'))),
                          'incoming-only-with-message', 'incoming is only called while a message exists', i.where(), [show_atom(a) for a in atoms][:3])
                if doms:
                    a0 = canon(peel(f.expr_operand(doms[-1].args[0], doms[-1].b, 'T')))
                    a1 = canon(peel(f.expr_operand(i.args[0], i.b, 'T')))
                    i0 = [x for x in walk(a0) if x[0] == 'index']
                    i1 = [x for x in walk(a1) if x[0] == 'index']
                    same = (i0 and i1 and i0[0][2] == i1[0][2]) or a0 == a1
                    ctx.check(bool(same), 'same-element', 'event_start and incoming address the same element', i.where())
        # every returning path leaves the loop through exhaustion: every element got event_start
        n = 0
        if consumer is not None:
            ctx.check(consumer.exhaustive, 'no-early-exit', 'incoming_upstream runs its per-element body for every element (an exhaustive consumer, body without early exit)', consumer.site.where())
            n = 2
            f = None
        for path, outcome, decs in (fn_paths(ctx, f) if f else []):
            if outcome != 'return':
                continue
            n += 1
            loops_on_path = [s for s, _ in _loop_iter_types(f) if s.b in path]
            outs = []
            for s in loops_on_path:
                outs += [r for _, r in call_outcomes(f, path, decs, s.name)][-1:]
            ok = bool(outs) and all(o == 'None' for o in outs)
            ctx.check(ok, 'no-early-exit', 'incoming_upstream returns only after its loop is exhausted: every element sees event_start even when an earlier one consumed the message (event_end is unconditional)',
                      f.where_path(path), outs)
        ctx.floor('returning paths of incoming_upstream', n, 2)
    g = ctx.anchor(PR + 'incoming_downstream')
    if g and not _loop_iter_types(g) and not counting_loops(g):
        ws = [w for w in per_item_calls(ctx.P, g, 'des::net::processing::ProcessingElement::event_end') if w.form == 'consumer']
        if ws:
            ctx.check(ws[0].exhaustive and g.postdominates(ws[0].anchor, 0), 'down-no-early-exit', 'incoming_downstream calls event_end for every element', ws[0].site.where())
            g = None
    if g:
        for path, outcome, decs in fn_paths(ctx, g):
            if outcome != 'return':
                continue
            loops_on_path = [s for s, _ in _loop_iter_types(g) if s.b in path]
            outs = []
            for s in loops_on_path:
                outs += [r for _, r in call_outcomes(g, path, decs, s.name)][-1:]
            if not _loop_iter_types(g):
                cl = [c for c in counting_loops(g) if c['exits_only_at_guard'] and c['guard_block'] in path]
                outs = ['None'] * len(cl)   # a counting loop without break is left only when its guard fails
            ctx.check(bool(outs) and all(o == 'None' for o in outs), 'down-no-early-exit', 'incoming_downstream calls event_end for every element', g.where_path(path), outs)


def _uncanon_capture(g, t, caps):
    """a canonical tree inside closure g: replace `<env>.N` capture projections by the captured value (trees of the parent)"""
    if not isinstance(t, tuple) or not t:
        return t
    if t[0] == 'field' and str(t[2]).isdigit() and int(t[2]) < len(caps):
        base = t[1]
        while isinstance(base, tuple) and base and base[0] in ('deref', 'ref'):
            base = base[1]
        if base[0] == 'arg' and (base[1] == 1 or base[1] == g.local_name(1)):
            return caps[int(t[2])]
    return tuple(_uncanon_capture(g, x, caps) if isinstance(x, tuple) else x for x in t)


def r4_handler_iff_survived(ctx):
    ctx.set_rule('C14.R4')
    P = ctx.P
    f = ctx.anchor(EV + 'handle_message')
    if not f:
        return
    execs = f.calls_to(H + '::exec')
    if not ctx.floor('harness executions in handle_message', len(execs), 1):
        return
    n_handler = 0
    for s in execs:
        arg = peel(f.expr_operand(s.args[1], s.b, 'T'))
        ck = arg[1][len('closure:'):] if arg[0] == 'agg' and arg[1].startswith('closure:') else None
        g = P.fns.get(ck) if ck else None
        calls_handler = bool(g) and any(c.callee == 'des::net::module::Module::handle_message' for c in g.calls())
        atoms = [a for _, a in f.guard_atoms(s.b)]
        surv = next((a[2] for a in atoms if a[0] == 'is' and a[1][0] == 'call' and a[1][1] == PR + 'incoming_upstream'), None)
        n_handler += 1 if calls_handler else 0
        if calls_handler and surv is None:
            # the survival test sits inside the harnessed closure: `exec(|| if let Some(msg) = remaining { handler.handle_message(msg) })`
            caps = arg[2]
            inner_ok = True
            for c in [c for c in g.calls() if c.callee == 'des::net::module::Module::handle_message']:
                ga = [a for _, a in g.guard_atoms(c.b)]
                some = [a for a in ga if a[0] == 'is' and a[2] == 'Some']
                tested = False
                for a in some:
                    t = resolve_captures(P, g, _uncanon_capture(g, a[1], caps))
                    if any(x[0] == 'call' and x[1] == PR + 'incoming_upstream' for x in walk(t)):
                        tested = True
                inner_ok = inner_ok and tested
            ctx.check(inner_ok, 'handler-iff-survived', "the module's handle_message runs iff the message survived the upstream pass (tested inside the harnessed closure)", s.where(), {'form': 'inner test'})
            ok = any(any(x[0] == 'call' and x[1] == PR + 'incoming_upstream' for x in walk(c)) for c in caps)
            ctx.check(ok, 'handler-gets-survivor', 'the handler receives the message returned by the upstream pass', s.where())
            continue
        ctx.check((calls_handler and surv == 'Some') or (not calls_handler and surv == 'None'), 'handler-iff-survived',
                  "the module's handle_message runs iff the message survived the upstream pass", s.where(), {'calls_handler': calls_handler, 'upstream_result': surv})
        if calls_handler:
            # the message handed over is the surviving one
            caps = arg[2]
            ok = any(any(x[0] == 'call' and x[1] == PR + 'incoming_upstream' for x in walk(c)) for c in caps)
            ctx.check(ok, 'handler-gets-survivor', 'the handler receives the message returned by the upstream pass', s.where())
    ctx.floor('harness executions that call the module handler', n_handler, 1)


CALLERS = {
    EV + 'handle_message': {EV + 'HandleMessageEvent::handle'},
    EV + 'async_wakeup': {EV + 'AsyncWakeupEvent::handle'},
    EV + 'at_sim_start': {'<des::net::runtime::SimLifecycle as des::runtime::event::types::EventLifecycle>::at_sim_start', EV + 'module_restart'},
    EV + 'at_sim_end': {'<des::net::runtime::SimLifecycle as des::runtime::event::types::EventLifecycle>::at_sim_end',
                        'des::net::module::ctx::spawner::Spawner::terminate'},  # Spawner::terminate: tabled exception (C13.R3)
}


def r5_who_may_call(ctx):
    ctx.set_rule('C14.R5')
    P = ctx.P
    for k in (PR + 'incoming_upstream', PR + 'incoming_downstream'):
        cs = {s.fn.key for s in P.call_sites_of(k)}
        ctx.floor('callers of %s' % short(k), len(cs), 4)
        for c in sorted(cs):
            ctx.check(c in ENTRY, 'caller:%s:%s' % (k.split('::')[-1], c), '%s is called only from the four module entry points' % short(k), P.fns[c].where(), c)
    for k, allowed in CALLERS.items():
        cs = {s.fn.key for s in P.call_sites_of(k)}
        roots = {P.fns[c].root or c for c in cs}
        for c in sorted(roots):
            ctx.check(c in allowed, 'entry-caller:%s:%s' % (k.split('::')[-1], c), '%s is invoked only by the event handlers / lifecycle loops' % short(k), P.fns[c].where() if c in P.fns else None, c)
        ctx.floor('callers of %s' % short(k), len(roots), 1)


STACK_REORDER = ('push_front', 'sort', 'reverse', 'swap', 'remove', 'insert', 'rotate', 'retain', 'dedup', 'truncate', 'pop', 'split_off',
                 'clear', 'splice', 'extract_if', 'select_nth', 'fill', 'copy_within', 'drain')


def r7_stack_order(ctx):
    """the stack order elements are visited in is the order they were installed in: the element vector of a ProcessingStack only ever grows
    at its end (append = existing elements first, then the expansion, in its order)"""
    ctx.set_rule('C14.R7')
    P = ctx.P
    PS = 'des::net::processing::ProcessingStack'
    f = ctx.anchor(PS + '::append')
    if not f:
        return
    ctx.touch(f)
    grow = [s for s in f.calls() if s.name.split('::')[-1] in ('extend', 'append', 'push', 'extend_from_slice') and s.args and
            receiver_field(f.expr_operand(s.args[0], s.b, 'T')) == 'items']
    ctx.floor('growth of the element vector in ProcessingStack::append', len(grow), 1)
    for s in grow:
        recv = peel(f.expr_operand(s.args[0], s.b, 'T'))
        own = any(x[0] == 'arg' and x[1] == 1 for x in walk(recv))
        hdr = innermost_loop(f, s.b)
        whole = f.postdominates_entry(s.b) if hdr is None else (loop_exits_only_on_exhaustion(f, hdr) and f.postdominates_entry(hdr))
        ctx.check(own and whole and not [a for _, a in f.guard_atoms(s.b) if a and a[0] in ('bool', 'cmp')], 'append-at-end',
                  "append extends the stack's own element vector at its end, unconditionally (the existing elements keep their positions)", s.where())
    n = 0
    for g in P.fn_list:
        if not g.key.startswith(('des::net::processing::', '<des::net::processing::')) or g.kind == 'promoted':
            continue
        for s in g.calls():
            if not s.args:
                continue
            last = s.name.split('::')[-1]
            whole = s.name in ('std::mem::swap', 'std::mem::replace', 'std::mem::take')
            if not (whole or (any(last.startswith(x) for x in STACK_REORDER) and ('Vec' in s.name or 'slice' in s.name))):
                continue
            hits = [a for a in s.args[:2] if receiver_field(g.expr_operand(a, s.b, 'T')) == 'items'
                    and 'ProcessingElement' in ''.join(s.argtys or [])]
            n += 1
            ctx.check(not hits, 'stack-reordered:%s' % g.key, 'no operation moves, removes or exchanges installed processing elements', s.where(), s.name)
    ctx.ok('operations on element vectors in des::net::processing inspected: %d' % n, f.where())


def r8_bracket_closes_last(ctx):
    """event_end closes the event: nothing of the module - handler, harness turn, task polls, join handling - runs after
    incoming_downstream on any returning path of an entry point"""
    ctx.set_rule('C14.R8')
    P = ctx.P
    n = 0
    for k in (EV + 'handle_message', EV + 'at_sim_start', EV + 'at_sim_end', EV + 'async_wakeup'):
        g = P.fns.get(k)
        if g is None:
            continue
        ctx.touch(g)
        for path, outcome, decs in fn_paths(ctx, g):
            if outcome != 'return':
                continue
            effs = path_effects(g, path)
            dn = [i for i, e in enumerate(effs) if e[0] == 'c' and e[1].name.endswith('Processor::incoming_downstream')]
            if not dn:
                continue
            n += 1
            late = [e[1].name for e in effs[dn[-1] + 1:] if e[0] == 'c' and (e[1].name.endswith(('Harness::exec', 'LocalSet::block_on', 'Runtime::block_on', 'JoinHandle::is_finished')) or
                                                                              (e[1].callee or '').startswith('des::net::module::Module::'))]
            ctx.check(not late, 'nothing-after-event-end:%s' % k.split('::')[-1], 'after event_end nothing of the module runs in this event', g.where_path(path), late[:3])
    ctx.floor('bracket-closing paths of the entry points', n, 4)


def r9_installed_stack(ctx):
    """which stack a module gets: exactly what `Module::stack(simulation-wide stack)` returns — the module decides whether it puts elements
    below, on top or instead — and the simulation-wide stack comes from the configured provider at every site that builds a module"""
    ctx.set_rule('C14.R9')
    P = ctx.P
    f = ctx.anchor('des::net::module::ModuleExt::to_processing_chain')
    if not f:
        return
    rts = [peel(t) for _, t in ret_trees(f)]
    ok = bool(rts)
    for t in rts:
        good = False
        if t[0] == 'call' and str(t[1]).endswith('Processor::new') and t[2]:
            st = peel(t[2][0])
            good = st[0] == 'call' and str(st[1]).endswith('Module::stack') and len(st[2]) == 2 and peel(st[2][1])[0] == 'arg' and peel(st[2][1])[1] == 2
        ok = ok and good
    ctx.check(ok, 'chain-is-module-stack', "a module's processing chain is exactly Module::stack(simulation-wide stack)", f.where(), [show(t)[:160] for t in rts][:2])
    sites = P.call_sites_of(f.key)
    if ctx.floor('sites building a processing chain', len(sites), 3):
        for s_ in sites:
            g = s_.fn
            a = peel(g.expr_operand(s_.args[1], s_.b, 'T'))
            provided = a[0] == 'arg' or (a[0] == 'call' and str(a[1]).split('::')[-1] in ('call_mut', 'call', 'call_once'))
            ctx.check(provided, 'stack-from-provider:%s' % (g.root or g.key).split('::')[-1].strip('>'),
                      'every module is built with the simulation-wide stack (handed in, or drawn from the configured provider)', s_.where(), show(a)[:120])


def run(ctx):
    r9_installed_stack(ctx)
    r8_bracket_closes_last(ctx)
    r7_stack_order(ctx)
    r1_pairing(ctx)
    r2_directions(ctx)
    r3_per_element(ctx)
    r4_handler_iff_survived(ctx)
    r5_who_may_call(ctx)
    # (R6) what the handler and the elements emit during the event leaves in program order: the event buffer is only appended to and
    # drained front to back (shared with C03.R3)
    from .C03 import r3_emission_order
    r3_emission_order(ctx, rule='C14.R6')

//! minimal JSON value + writer (the driver has no cargo dependencies)

pub enum J {
    Null,
    Bool(bool),
    Num(i128),
    Str(String),
    Arr(Vec<J>),
    Obj(Vec<(String, J)>),
}

impl J {
    pub fn s(s: &str) -> J {
        J::Str(s.to_string())
    }
    pub fn obj(v: Vec<(&str, J)>) -> J {
        J::Obj(v.into_iter().map(|(k, v)| (k.to_string(), v)).collect())
    }
    pub fn write(&self, out: &mut String) {
        match self {
            J::Null => out.push_str("null"),
            J::Bool(b) => out.push_str(if *b { "true" } else { "false" }),
            J::Num(n) => out.push_str(&n.to_string()),
            J::Str(s) => write_str(s, out),
            J::Arr(a) => {
                out.push('[');
                for (i, x) in a.iter().enumerate() {
                    if i > 0 {
                        out.push(',');
                    }
                    x.write(out);
                }
                out.push(']');
            }
            J::Obj(o) => {
                out.push('{');
                for (i, (k, v)) in o.iter().enumerate() {
                    if i > 0 {
                        out.push(',');
                    }
                    write_str(k, out);
                    out.push(':');
                    v.write(out);
                }
                out.push('}');
            }
        }
    }
}

fn write_str(s: &str, out: &mut String) {
    out.push('"');
    for c in s.chars() {
        match c {
            '"' => out.push_str("\\\""),
            '\\' => out.push_str("\\\\"),
            '\n' => out.push_str("\\n"),
            '\r' => out.push_str("\\r"),
            '\t' => out.push_str("\\t"),
            c if (c as u32) < 0x20 => out.push_str(&format!("\\u{:04x}", c as u32)),
            c => out.push(c),
        }
    }
    out.push('"');
}

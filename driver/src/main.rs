//! desfacts — fact extractor for the static verification of PetrichorIT/des.
//!
//! Used as RUSTC_WORKSPACE_WRAPPER under `cargo +nightly check`: for every workspace
//! member it runs the normal compiler and, after analysis, dumps the drop-elaborated,
//! borrow-checked MIR of every local body together with type tables as ONE json file
//! `$DESFACTS_OUT/<crate>.json` (single write per process).
#![feature(rustc_private)]
#![allow(clippy::all)]

extern crate rustc_abi;
extern crate rustc_data_structures;
extern crate rustc_driver;
extern crate rustc_hir;
extern crate rustc_index;
extern crate rustc_interface;
extern crate rustc_middle;
extern crate rustc_session;
extern crate rustc_span;

mod json;

use json::J;
use rustc_driver::{Callbacks, Compilation};
use rustc_hir::def::DefKind;
use rustc_hir::def_id::{DefId, LocalDefId};
use rustc_middle::mir::{
    self, AggregateKind, BasicBlockData, Body, Const, Operand, Place, ProjectionElem, Rvalue,
    StatementKind, TerminatorKind, UnwindAction,
};
use rustc_middle::ty::print::{with_no_trimmed_paths, with_no_visible_paths, with_resolve_crate_name};
use rustc_middle::ty::{self, Instance, Ty, TyCtxt, TypingEnv};
use rustc_span::{ExpnKind, Span};

struct Extract {
    out_dir: String,
    crate_name: String,
}

fn main() {
    let mut args: Vec<String> = std::env::args().collect();
    // wrapper mode: argv[1] is the path of the real rustc
    if args.len() > 1 && (args[1].ends_with("rustc") || args[1].contains("/rustc")) {
        args.remove(1);
    }
    let out_dir = std::env::var("DESFACTS_OUT").ok();
    let crate_name = args
        .iter()
        .position(|a| a == "--crate-name")
        .and_then(|i| args.get(i + 1).cloned())
        .unwrap_or_default();
    let is_probe = args.iter().any(|a| a == "-vV" || a == "--version" || a.starts_with("--print"));
    let wanted = std::env::var("DESFACTS_CRATES")
        .map(|s| s.split(',').any(|c| c == crate_name))
        .unwrap_or(true);
    match out_dir {
        Some(out_dir)
            if !is_probe
                && wanted
                && !crate_name.is_empty()
                && !crate_name.starts_with("build_script") =>
        {
            let mut cb = Extract { out_dir, crate_name };
            rustc_driver::run_compiler(&args, &mut cb);
        }
        _ => {
            struct Nop;
            impl Callbacks for Nop {}
            rustc_driver::run_compiler(&args, &mut Nop);
        }
    }
}

impl Callbacks for Extract {
    fn after_analysis<'tcx>(
        &mut self,
        _compiler: &rustc_interface::interface::Compiler,
        tcx: TyCtxt<'tcx>,
    ) -> Compilation {
        if tcx.dcx().has_errors().is_some() {
            return Compilation::Continue;
        }
        let j = extract(tcx, &self.crate_name);
        let path = format!("{}/{}.json", self.out_dir, self.crate_name);
        let mut s = String::with_capacity(1 << 24);
        j.write(&mut s);
        std::fs::write(&path, s).expect("desfacts: cannot write fact file");
        Compilation::Continue
    }
}

fn path_of(tcx: TyCtxt<'_>, did: DefId) -> String {
    // Items of the workspace's own crates are always named by their real definition path (never by a
    // re-export), so that keys agree between the crate that defines and the crate that uses an item.
    // (rustc prints *extern* items by their visible path; local items are printed by definition path.)
    let cname = tcx.crate_name(did.krate);
    if did.is_local() || !cname.as_str().starts_with("des") {
        return with_no_trimmed_paths!(with_resolve_crate_name!(tcx.def_path_str(did)));
    }
    if matches!(tcx.def_kind(did), DefKind::AssocFn | DefKind::AssocConst { .. } | DefKind::AssocTy) {
        if let Some(imp) = tcx.trait_impl_of_assoc(did) {
            let self_ty = tcx.type_of(imp).instantiate_identity().skip_norm_wip();
            if let (ty::Adt(def, _), Some(tr)) = (self_ty.kind(), tcx.impl_opt_trait_ref(imp)) {
                let tr = tr.instantiate_identity().skip_norm_wip();
                let adt = with_no_visible_paths!(with_no_trimmed_paths!(with_resolve_crate_name!(
                    tcx.def_path_str(def.did())
                )));
                let trp = path_of(tcx, tr.def_id);
                let name = tcx.opt_item_name(did).map(|s| s.to_string()).unwrap_or_default();
                return format!("<{} as {}>::{}", adt, trp, name);
            }
        }
    }
    with_no_visible_paths!(with_no_trimmed_paths!(with_resolve_crate_name!(tcx.def_path_str(did))))
}

fn ty_str(ty: Ty<'_>) -> String {
    with_no_trimmed_paths!(with_resolve_crate_name!(format!("{}", ty)))
}

fn loc(tcx: TyCtxt<'_>, span: Span) -> (String, usize, Option<String>) {
    let exp = if span.from_expansion() {
        let d = span.ctxt().outer_expn_data();
        Some(match d.kind {
            ExpnKind::Macro(_, name) => format!("macro:{}", name),
            ExpnKind::Desugaring(k) => format!("desugar:{:?}", k),
            ExpnKind::AstPass(k) => format!("astpass:{:?}", k),
            ExpnKind::Root => "root".to_string(),
        })
    } else {
        None
    };
    let sp = span.source_callsite();
    let sm = tcx.sess.source_map();
    if sp.is_dummy() {
        return ("?".into(), 0, exp);
    }
    let p = sm.lookup_char_pos(sp.lo());
    let file = format!("{}", p.file.name.prefer_local_unconditionally());
    (file, p.line, exp)
}

/// structured type, used for field types (strong-reference graph) and locals
fn ty_json<'tcx>(tcx: TyCtxt<'tcx>, ty: Ty<'tcx>, depth: usize) -> J {
    if depth > 6 {
        return J::obj(vec![("k", J::s("deep")), ("s", J::s(&ty_str(ty)))]);
    }
    match ty.kind() {
        ty::Adt(def, args) => {
            let mut a = vec![];
            for g in args.iter() {
                if let Some(t) = g.as_type() {
                    a.push(ty_json(tcx, t, depth + 1));
                }
            }
            J::obj(vec![("k", J::s("adt")), ("p", J::s(&path_of(tcx, def.did()))), ("a", J::Arr(a))])
        }
        ty::Ref(_, t, m) => J::obj(vec![
            ("k", J::s("ref")),
            ("mut", J::Bool(m.is_mut())),
            ("t", ty_json(tcx, *t, depth + 1)),
        ]),
        ty::RawPtr(t, m) => J::obj(vec![
            ("k", J::s("ptr")),
            ("mut", J::Bool(m.is_mut())),
            ("t", ty_json(tcx, *t, depth + 1)),
        ]),
        ty::Tuple(ts) => J::obj(vec![
            ("k", J::s("tuple")),
            ("a", J::Arr(ts.iter().map(|t| ty_json(tcx, t, depth + 1)).collect())),
        ]),
        ty::Array(t, _) | ty::Slice(t) => {
            J::obj(vec![("k", J::s("seq")), ("t", ty_json(tcx, *t, depth + 1))])
        }
        ty::Dynamic(preds, ..) => {
            let p = preds.principal_def_id().map(|d| path_of(tcx, d)).unwrap_or_default();
            J::obj(vec![("k", J::s("dyn")), ("p", J::s(&p))])
        }
        ty::Param(p) => J::obj(vec![("k", J::s("param")), ("n", J::s(p.name.as_str()))]),
        ty::Closure(d, _) | ty::Coroutine(d, _) | ty::CoroutineClosure(d, _) => {
            J::obj(vec![("k", J::s("closure")), ("p", J::s(&path_of(tcx, *d)))])
        }
        ty::FnDef(d, _) => J::obj(vec![("k", J::s("fndef")), ("p", J::s(&path_of(tcx, *d)))]),
        ty::FnPtr(..) => J::obj(vec![("k", J::s("fnptr")), ("s", J::s(&ty_str(ty)))]),
        ty::Bool | ty::Char | ty::Int(_) | ty::Uint(_) | ty::Float(_) | ty::Str | ty::Never => {
            J::obj(vec![("k", J::s("prim")), ("s", J::s(&ty_str(ty)))])
        }
        _ => J::obj(vec![("k", J::s("other")), ("s", J::s(&ty_str(ty)))]),
    }
}

struct BodyCx<'a, 'tcx> {
    tcx: TyCtxt<'tcx>,
    body: &'a Body<'tcx>,
    env: TypingEnv<'tcx>,
}

impl<'a, 'tcx> BodyCx<'a, 'tcx> {
    fn place(&self, p: &Place<'tcx>) -> J {
        let tcx = self.tcx;
        let mut proj = vec![];
        let mut pty = mir::PlaceTy::from_ty(self.body.local_decls[p.local].ty);
        for elem in p.projection.iter() {
            let e = match elem {
                ProjectionElem::Deref => J::obj(vec![("k", J::s("deref"))]),
                ProjectionElem::Field(f, fty) => {
                    let mut o = vec![("k", J::s("field")), ("i", J::Num(f.as_u32() as i128))];
                    match pty.ty.kind() {
                        ty::Adt(def, _) => {
                            let vidx = pty.variant_index.unwrap_or(rustc_abi::FIRST_VARIANT);
                            if def.is_enum() || def.is_struct() || def.is_union() {
                                if let Some(v) = def.variants().get(vidx) {
                                    if let Some(fd) = v.fields.get(f) {
                                        o.push(("n", J::s(fd.name.as_str())));
                                    }
                                    if def.is_enum() {
                                        o.push(("v", J::s(v.name.as_str())));
                                    }
                                }
                            }
                            o.push(("adt", J::s(&path_of(tcx, def.did()))));
                        }
                        ty::Closure(d, _) | ty::Coroutine(d, _) => {
                            o.push(("adt", J::s(&path_of(tcx, *d))));
                            // name of the captured variable
                            if let Some(ld) = d.as_local() {
                                let caps: Vec<_> =
                                    tcx.closure_captures(ld).iter().collect();
                                if let Some(c) = caps.get(f.as_usize()) {
                                    o.push(("n", J::s(&c.to_string(tcx))));
                                }
                            }
                        }
                        ty::Tuple(_) => {
                            o.push(("adt", J::s("(tuple)")));
                        }
                        _ => {}
                    }
                    o.push(("ty", J::s(&ty_str(fty))));
                    J::obj(o)
                }
                ProjectionElem::Index(l) => {
                    J::obj(vec![("k", J::s("index")), ("l", J::Num(l.as_u32() as i128))])
                }
                ProjectionElem::ConstantIndex { offset, from_end, .. } => J::obj(vec![
                    ("k", J::s("cindex")),
                    ("o", J::Num(offset as i128)),
                    ("from_end", J::Bool(from_end)),
                ]),
                ProjectionElem::Subslice { from, to, from_end } => J::obj(vec![
                    ("k", J::s("subslice")),
                    ("from", J::Num(from as i128)),
                    ("to", J::Num(to as i128)),
                    ("from_end", J::Bool(from_end)),
                ]),
                ProjectionElem::Downcast(name, _) => J::obj(vec![
                    ("k", J::s("downcast")),
                    ("v", J::s(name.map(|s| s.to_string()).unwrap_or_default().as_str())),
                ]),
                ProjectionElem::OpaqueCast(_) => J::obj(vec![("k", J::s("opaque"))]),
                ProjectionElem::UnwrapUnsafeBinder(_) => J::obj(vec![("k", J::s("unbinder"))]),
            };
            proj.push(e);
            pty = pty.projection_ty(tcx, elem);
        }
        J::obj(vec![("l", J::Num(p.local.as_u32() as i128)), ("pr", J::Arr(proj))])
    }

    fn operand(&self, o: &Operand<'tcx>) -> J {
        match o {
            Operand::Copy(p) => J::obj(vec![("k", J::s("copy")), ("p", self.place(p))]),
            Operand::Move(p) => J::obj(vec![("k", J::s("move")), ("p", self.place(p))]),
            Operand::Constant(c) => {
                let ty = c.const_.ty();
                let mut v = vec![
                    ("k", J::s("const")),
                    ("ty", J::s(&ty_str(ty))),
                    ("v", J::s(&with_no_trimmed_paths!(with_resolve_crate_name!(format!("{}", c.const_))))),
                ];
                if let ty::FnDef(d, args) = ty.kind() {
                    v.push(("fn", J::s(&path_of(self.tcx, *d))));
                    v.push((
                        "targs",
                        J::Arr(args.iter().filter_map(|g| g.as_type()).map(|t| J::s(&ty_str(t))).collect()),
                    ));
                }
                if let ty::Closure(d, _) = ty.kind() {
                    v.push(("closure", J::s(&path_of(self.tcx, *d))));
                }
                if let Const::Unevaluated(uv, _) = c.const_ {
                    if let Some(p) = uv.promoted {
                        v.push(("promoted", J::Num(p.as_u32() as i128)));
                    } else {
                        v.push(("cdef", J::s(&path_of(self.tcx, uv.def))));
                    }
                }
                if let Const::Val(mir::ConstValue::Scalar(mir::interpret::Scalar::Ptr(ptr, _)), _) = c.const_ {
                    if let Some(mir::interpret::GlobalAlloc::Static(sd)) =
                        self.tcx.try_get_global_alloc(ptr.provenance.alloc_id())
                    {
                        v.push(("static", J::s(&path_of(self.tcx, sd))));
                    }
                }
                if ty.is_integral() || ty.is_bool() || ty.is_char() {
                    if let Some(si) = c.const_.try_eval_scalar_int(self.tcx, self.env) {
                        let sz = si.size();
                        let bits = si.to_bits(sz);
                        let val: i128 = if ty.is_signed() {
                            sz.sign_extend(bits) as i128
                        } else {
                            bits as i128
                        };
                        v.push(("int", J::Num(val)));
                    }
                }
                J::obj(v)
            }
            _ => J::obj(vec![("k", J::s("rtcheck")), ("s", J::s(&format!("{:?}", o)))]),
        }
    }

    fn rvalue(&self, r: &Rvalue<'tcx>) -> J {
        match r {
            Rvalue::Use(o, ..) => J::obj(vec![("k", J::s("use")), ("o", self.operand(o))]),
            Rvalue::Repeat(o, n) => J::obj(vec![
                ("k", J::s("repeat")),
                ("o", self.operand(o)),
                ("n", J::s(&format!("{}", n))),
            ]),
            Rvalue::Ref(_, bk, p) => J::obj(vec![
                ("k", J::s("ref")),
                ("mut", J::Bool(matches!(bk, mir::BorrowKind::Mut { .. }))),
                ("p", self.place(p)),
            ]),
            Rvalue::ThreadLocalRef(d) => {
                J::obj(vec![("k", J::s("tlref")), ("def", J::s(&path_of(self.tcx, *d)))])
            }
            Rvalue::RawPtr(k, p) => J::obj(vec![
                ("k", J::s("rawptr")),
                ("mut", J::Bool(matches!(k, mir::RawPtrKind::Mut))),
                ("p", self.place(p)),
            ]),
            Rvalue::Cast(k, o, t) => J::obj(vec![
                ("k", J::s("cast")),
                ("ck", J::s(&format!("{:?}", k))),
                ("o", self.operand(o)),
                ("ty", J::s(&ty_str(*t))),
                ("from", J::s(&ty_str(o.ty(&self.body.local_decls, self.tcx)))),
            ]),
            Rvalue::BinaryOp(op, ab) => J::obj(vec![
                ("k", J::s("binop")),
                ("op", J::s(&format!("{:?}", op))),
                ("a", self.operand(&ab.0)),
                ("b", self.operand(&ab.1)),
            ]),
            Rvalue::UnaryOp(op, a) => J::obj(vec![
                ("k", J::s("unop")),
                ("op", J::s(&format!("{:?}", op))),
                ("a", self.operand(a)),
            ]),
            Rvalue::Discriminant(p) => {
                let pty = p.ty(&self.body.local_decls, self.tcx).ty;
                let mut v = vec![("k", J::s("discr")), ("p", self.place(p))];
                if let ty::Adt(def, _) = pty.kind() {
                    v.push(("adt", J::s(&path_of(self.tcx, def.did()))));
                    if def.is_enum() {
                        let mut vs = vec![];
                        for (vi, d) in def.discriminants(self.tcx) {
                            vs.push(J::Arr(vec![
                                J::Num(d.val as i128),
                                J::s(def.variant(vi).name.as_str()),
                            ]));
                        }
                        v.push(("variants", J::Arr(vs)));
                    }
                }
                J::obj(v)
            }
            Rvalue::Aggregate(kind, ops) => {
                let mut v = vec![("k", J::s("agg"))];
                match &**kind {
                    AggregateKind::Array(_) => v.push(("ak", J::s("array"))),
                    AggregateKind::Tuple => v.push(("ak", J::s("tuple"))),
                    AggregateKind::Adt(d, vi, args, _, _) => {
                        v.push(("ak", J::s("adt")));
                        v.push(("adt", J::s(&path_of(self.tcx, *d))));
                        let def = self.tcx.adt_def(*d);
                        let var = def.variant(*vi);
                        v.push(("variant", J::s(var.name.as_str())));
                        v.push((
                            "fields",
                            J::Arr(var.fields.iter().map(|f| J::s(f.name.as_str())).collect()),
                        ));
                        v.push((
                            "targs",
                            J::Arr(args.iter().filter_map(|g| g.as_type()).map(|t| J::s(&ty_str(t))).collect()),
                        ));
                    }
                    AggregateKind::Closure(d, _)
                    | AggregateKind::Coroutine(d, _)
                    | AggregateKind::CoroutineClosure(d, _) => {
                        v.push(("ak", J::s("closure")));
                        v.push(("def", J::s(&path_of(self.tcx, *d))));
                    }
                    AggregateKind::RawPtr(..) => v.push(("ak", J::s("rawptr"))),
                }
                v.push(("ops", J::Arr(ops.iter().map(|o| self.operand(o)).collect())));
                J::obj(v)
            }
            Rvalue::CopyForDeref(p) => J::obj(vec![
                ("k", J::s("use")),
                ("o", J::obj(vec![("k", J::s("copy")), ("p", self.place(p))])),
            ]),
            Rvalue::WrapUnsafeBinder(o, _) => {
                J::obj(vec![("k", J::s("use")), ("o", self.operand(o))])
            }
        }
    }

    fn block(&self, bb: &BasicBlockData<'tcx>) -> J {
        let tcx = self.tcx;
        let mut stmts = vec![];
        for st in &bb.statements {
            let (_, line, exp) = loc(tcx, st.source_info.span);
            let mut v: Vec<(&str, J)> = vec![];
            match &st.kind {
                StatementKind::Assign(b) => {
                    v.push(("k", J::s("assign")));
                    v.push(("p", self.place(&b.0)));
                    v.push(("r", self.rvalue(&b.1)));
                }
                StatementKind::SetDiscriminant { place, variant_index } => {
                    v.push(("k", J::s("setdiscr")));
                    v.push(("p", self.place(place)));
                    v.push(("vi", J::Num(variant_index.as_u32() as i128)));
                }
                StatementKind::Intrinsic(i) => {
                    v.push(("k", J::s("intrinsic")));
                    v.push(("s", J::s(&format!("{:?}", i))));
                }
                _ => continue,
            }
            v.push(("ln", J::Num(line as i128)));
            if let Some(e) = exp {
                v.push(("exp", J::s(&e)));
            }
            stmts.push(J::obj(v));
        }
        let term = bb.terminator();
        let (_, line, exp) = loc(tcx, term.source_info.span);
        let mut t: Vec<(&str, J)> = vec![];
        let unwind_j = |u: &UnwindAction| match u {
            UnwindAction::Cleanup(b) => J::Num(b.as_u32() as i128),
            _ => J::Null,
        };
        match &term.kind {
            TerminatorKind::Goto { target } => {
                t.push(("k", J::s("goto")));
                t.push(("t", J::Num(target.as_u32() as i128)));
            }
            TerminatorKind::SwitchInt { discr, targets } => {
                t.push(("k", J::s("switch")));
                t.push(("d", self.operand(discr)));
                let mut vs = vec![];
                for (val, tgt) in targets.iter() {
                    vs.push(J::Arr(vec![J::Num(val as i128), J::Num(tgt.as_u32() as i128)]));
                }
                t.push(("vals", J::Arr(vs)));
                t.push(("otherwise", J::Num(targets.otherwise().as_u32() as i128)));
            }
            TerminatorKind::UnwindResume => t.push(("k", J::s("resume"))),
            TerminatorKind::UnwindTerminate(_) => t.push(("k", J::s("abort"))),
            TerminatorKind::Return => t.push(("k", J::s("return"))),
            TerminatorKind::Unreachable => t.push(("k", J::s("unreachable"))),
            TerminatorKind::Drop { place, target, unwind, .. } => {
                t.push(("k", J::s("drop")));
                t.push(("p", self.place(place)));
                let pty = place.ty(&self.body.local_decls, tcx).ty;
                t.push(("ty", J::s(&ty_str(pty))));
                t.push(("tyj", ty_json(tcx, pty, 0)));
                t.push(("t", J::Num(target.as_u32() as i128)));
                t.push(("u", unwind_j(unwind)));
            }
            TerminatorKind::Call { func, args, destination, target, unwind, .. } => {
                t.push(("k", J::s("call")));
                t.push(("f", self.operand(func)));
                let fty = func.ty(&self.body.local_decls, tcx);
                match fty.kind() {
                    ty::FnDef(d, gargs) => {
                        t.push(("callee", J::s(&path_of(tcx, *d))));
                        if let Some(tr) = tcx.trait_of_assoc(*d) {
                            t.push(("trait", J::s(&path_of(tcx, tr))));
                        }
                        if let Ok(Some(inst)) = Instance::try_resolve(tcx, self.env, *d, gargs) {
                            t.push(("res", J::s(&path_of(tcx, inst.def_id()))));
                            t.push(("resk", J::s(match inst.def {
                                ty::InstanceKind::Item(_) => "item",
                                ty::InstanceKind::Virtual(..) => "virtual",
                                ty::InstanceKind::ClosureOnceShim { .. } => "closure_once",
                                ty::InstanceKind::FnPtrShim(..) => "fnptr",
                                ty::InstanceKind::DropGlue(..) => "dropglue",
                                ty::InstanceKind::CloneShim(..) => "cloneshim",
                                ty::InstanceKind::Intrinsic(..) => "intrinsic",
                                _ => "other",
                            })));
                        }
                        t.push(("sig", J::s(&ty_str(fty))));
                    }
                    _ => {
                        t.push(("fty", J::s(&ty_str(fty))));
                    }
                }
                t.push(("args", J::Arr(args.iter().map(|a| self.operand(&a.node)).collect())));
                t.push((
                    "argtys",
                    J::Arr(
                        args.iter()
                            .map(|a| J::s(&ty_str(a.node.ty(&self.body.local_decls, tcx))))
                            .collect(),
                    ),
                ));
                t.push(("dest", self.place(destination)));
                t.push(("t", target.map(|b| J::Num(b.as_u32() as i128)).unwrap_or(J::Null)));
                t.push(("u", unwind_j(unwind)));
            }
            TerminatorKind::TailCall { .. } => t.push(("k", J::s("tailcall"))),
            TerminatorKind::Assert { cond, expected, msg, target, unwind } => {
                t.push(("k", J::s("assert")));
                t.push(("c", self.operand(cond)));
                t.push(("expected", J::Bool(*expected)));
                let kind = match &**msg {
                    mir::AssertKind::BoundsCheck { .. } => "bounds".to_string(),
                    mir::AssertKind::Overflow(op, ..) => format!("overflow:{:?}", op),
                    mir::AssertKind::OverflowNeg(_) => "overflow:Neg".to_string(),
                    mir::AssertKind::DivisionByZero(_) => "divzero".to_string(),
                    mir::AssertKind::RemainderByZero(_) => "remzero".to_string(),
                    _ => "other".to_string(),
                };
                t.push(("ak", J::s(&kind)));
                if let mir::AssertKind::BoundsCheck { len, index } = &**msg {
                    t.push(("len", self.operand(len)));
                    t.push(("index", self.operand(index)));
                }
                t.push(("t", J::Num(target.as_u32() as i128)));
                t.push(("u", unwind_j(unwind)));
            }
            TerminatorKind::Yield { value, resume, drop, .. } => {
                t.push(("k", J::s("yield")));
                t.push(("v", self.operand(value)));
                t.push(("t", J::Num(resume.as_u32() as i128)));
                t.push(("drop", drop.map(|b| J::Num(b.as_u32() as i128)).unwrap_or(J::Null)));
            }
            TerminatorKind::CoroutineDrop => t.push(("k", J::s("codrop"))),
            TerminatorKind::FalseEdge { real_target, .. } => {
                t.push(("k", J::s("goto")));
                t.push(("t", J::Num(real_target.as_u32() as i128)));
            }
            TerminatorKind::FalseUnwind { real_target, .. } => {
                t.push(("k", J::s("goto")));
                t.push(("t", J::Num(real_target.as_u32() as i128)));
            }
            TerminatorKind::InlineAsm { .. } => t.push(("k", J::s("asm"))),
        }
        t.push(("ln", J::Num(line as i128)));
        if let Some(e) = exp {
            t.push(("exp", J::s(&e)));
        }
        J::obj(vec![
            ("s", J::Arr(stmts)),
            ("t", J::obj(t)),
            ("cleanup", J::Bool(bb.is_cleanup)),
        ])
    }

    fn body_json(&self) -> J {
        let body = self.body;
        let tcx = self.tcx;
        let mut locals = vec![];
        for (_, d) in body.local_decls.iter_enumerated() {
            locals.push(J::obj(vec![
                ("ty", J::s(&ty_str(d.ty))),
                ("tyj", ty_json(tcx, d.ty, 0)),
            ]));
        }
        let mut dbg = vec![];
        for v in &body.var_debug_info {
            if let mir::VarDebugInfoContents::Place(p) = &v.value {
                dbg.push(J::obj(vec![("n", J::s(v.name.as_str())), ("p", self.place(p))]));
            }
        }
        let blocks: Vec<J> = body.basic_blocks.iter().map(|b| self.block(b)).collect();
        J::obj(vec![
            ("argc", J::Num(body.arg_count as i128)),
            ("locals", J::Arr(locals)),
            ("dbg", J::Arr(dbg)),
            ("blocks", J::Arr(blocks)),
        ])
    }
}

fn vis_str(tcx: TyCtxt<'_>, did: DefId) -> String {
    match tcx.visibility(did) {
        ty::Visibility::Public => "pub".to_string(),
        ty::Visibility::Restricted(m) => format!("in:{}", path_of(tcx, m)),
    }
}

fn extract<'tcx>(tcx: TyCtxt<'tcx>, crate_name: &str) -> J {
    let mut fns: Vec<J> = vec![];
    let mut keys: Vec<LocalDefId> = tcx.mir_keys(()).iter().copied().collect();
    keys.sort_by_key(|k| tcx.def_path_hash(k.to_def_id()));
    for ldid in keys {
        let did = ldid.to_def_id();
        let kind = tcx.def_kind(did);
        let kind_s = match kind {
            DefKind::Fn => "fn",
            DefKind::AssocFn => "assocfn",
            DefKind::Closure => "closure",
            DefKind::Const { .. } | DefKind::AssocConst { .. } | DefKind::AnonConst | DefKind::InlineConst => "const",
            DefKind::Static { .. } => "static",
            DefKind::Ctor(..) => continue,
            DefKind::SyntheticCoroutineBody => "closure",
            _ => "other",
        };
        if kind_s == "const" || kind_s == "other" {
            // constants carry no behaviour we analyse (statics keep their initialiser)
            if kind_s == "other" {
                continue;
            }
        }
        let steal = tcx.mir_drops_elaborated_and_const_checked(ldid);
        let body_ref;
        let body: &Body<'tcx> = if !steal.is_stolen() {
            body_ref = steal.borrow();
            &body_ref
        } else if matches!(kind, DefKind::Fn | DefKind::AssocFn | DefKind::Closure) {
            tcx.optimized_mir(did)
        } else {
            tcx.mir_for_ctfe(did)
        };
        let env = TypingEnv::post_analysis(tcx, did);
        let cx = BodyCx { tcx, body, env };
        let (file, line, _) = loc(tcx, tcx.def_span(did));
        let mut v: Vec<(&str, J)> = vec![
            ("path", J::s(&path_of(tcx, did))),
            ("kind", J::s(kind_s)),
            ("file", J::s(&file)),
            ("line", J::Num(line as i128)),
        ];
        if let Some(n) = tcx.opt_item_name(did) {
            v.push(("name", J::s(n.as_str())));
        }
        if matches!(kind, DefKind::Fn | DefKind::AssocFn) {
            v.push(("vis", J::s(&vis_str(tcx, did))));
            let sig = tcx.fn_sig(did).skip_binder().skip_binder();
            v.push(("unsafe", J::Bool(!sig.safety().is_safe())));
            v.push(("sig", J::s(&with_no_trimmed_paths!(with_resolve_crate_name!(format!("{}", sig))))));
            v.push(("is_async", J::Bool(tcx.asyncness(did).is_async())));
        }
        if kind == DefKind::AssocFn {
            if let Some(imp) = tcx.impl_of_assoc(did) {
                let self_ty = tcx.type_of(imp).instantiate_identity().skip_norm_wip();
                v.push(("self_ty", J::s(&ty_str(self_ty))));
                if let ty::Adt(def, _) = self_ty.kind() {
                    v.push(("self_adt", J::s(&path_of(tcx, def.did()))));
                }
                // trait bounds on the impl's type parameters: [[param, trait], ..]
                let mut bounds = vec![];
                for (clause, _) in tcx.predicates_of(imp).predicates.iter() {
                    if let Some(tc) = clause.as_trait_clause() {
                        let tp = tc.skip_binder();
                        if let ty::Param(p) = tp.self_ty().kind() {
                            bounds.push(J::Arr(vec![J::s(p.name.as_str()), J::s(&path_of(tcx, tp.def_id()))]));
                        }
                    }
                }
                v.push(("impl_bounds", J::Arr(bounds)));
                if let Some(tr) = tcx.impl_opt_trait_ref(imp) {
                    let tr = tr.instantiate_identity().skip_norm_wip();
                    v.push(("trait", J::s(&path_of(tcx, tr.def_id))));
                    v.push(("trait_ref", J::s(&with_no_trimmed_paths!(with_resolve_crate_name!(format!("{}", tr))))));
                }
            } else if let Some(tr) = tcx.trait_of_assoc(did) {
                v.push(("trait_default", J::s(&path_of(tcx, tr))));
            }
        }
        if tcx.is_closure_like(did) {
            v.push(("parent", J::s(&path_of(tcx, tcx.parent(did)))));
            v.push(("root", J::s(&path_of(tcx, tcx.typeck_root_def_id(did)))));
        }
        v.push(("body", cx.body_json()));
        // promoted bodies
        if matches!(kind, DefKind::Fn | DefKind::AssocFn | DefKind::Closure | DefKind::Const { .. } | DefKind::AssocConst { .. } | DefKind::Static { .. }) {
            let proms = tcx.promoted_mir(did);
            let mut pj = vec![];
            for pb in proms.iter() {
                let pcx = BodyCx { tcx, body: pb, env };
                pj.push(pcx.body_json());
            }
            v.push(("promoted", J::Arr(pj)));
        }
        fns.push(J::obj(v));
    }

    // ADTs, statics, consts, impls
    let mut adts = vec![];
    let mut statics = vec![];
    let items = tcx.hir_crate_items(());
    for ldid in items.definitions() {
        let did = ldid.to_def_id();
        match tcx.def_kind(did) {
            DefKind::Struct | DefKind::Enum | DefKind::Union => {
                let def = tcx.adt_def(did);
                let mut variants = vec![];
                for var in def.variants() {
                    let mut fields = vec![];
                    for f in var.fields.iter() {
                        let fty = tcx.type_of(f.did).instantiate_identity().skip_norm_wip();
                        fields.push(J::obj(vec![
                            ("n", J::s(f.name.as_str())),
                            ("ty", J::s(&ty_str(fty))),
                            ("tyj", ty_json(tcx, fty, 0)),
                            ("vis", J::s(&vis_str(tcx, f.did))),
                        ]));
                    }
                    variants.push(J::obj(vec![("n", J::s(var.name.as_str())), ("fields", J::Arr(fields))]));
                }
                let (file, line, _) = loc(tcx, tcx.def_span(did));
                let dtor = def.destructor(tcx).map(|d| path_of(tcx, d.did));
                adts.push(J::obj(vec![
                    ("path", J::s(&path_of(tcx, did))),
                    ("kind", J::s(if def.is_enum() { "enum" } else if def.is_union() { "union" } else { "struct" })),
                    ("vis", J::s(&vis_str(tcx, did))),
                    ("file", J::s(&file)),
                    ("line", J::Num(line as i128)),
                    ("variants", J::Arr(variants)),
                    ("drop", dtor.map(|d| J::s(&d)).unwrap_or(J::Null)),
                ]));
            }
            DefKind::Static { mutability, .. } => {
                let sty = tcx.type_of(did).instantiate_identity().skip_norm_wip();
                let (file, line, _) = loc(tcx, tcx.def_span(did));
                statics.push(J::obj(vec![
                    ("path", J::s(&path_of(tcx, did))),
                    ("ty", J::s(&ty_str(sty))),
                    ("tyj", ty_json(tcx, sty, 0)),
                    ("mut", J::Bool(mutability.is_mut())),
                    ("kind", J::s("static")),
                    ("file", J::s(&file)),
                    ("line", J::Num(line as i128)),
                ]));
            }
            DefKind::Const { .. } => {
                let sty = tcx.type_of(did).instantiate_identity().skip_norm_wip();
                let s = ty_str(sty);
                if s.contains("LocalKey") {
                    let (file, line, _) = loc(tcx, tcx.def_span(did));
                    statics.push(J::obj(vec![
                        ("path", J::s(&path_of(tcx, did))),
                        ("ty", J::s(&s)),
                        ("tyj", ty_json(tcx, sty, 0)),
                        ("mut", J::Bool(false)),
                        ("kind", J::s("thread_local")),
                        ("file", J::s(&file)),
                        ("line", J::Num(line as i128)),
                    ]));
                }
            }
            _ => {}
        }
    }
    let mut impls = vec![];
    for (tr, imps) in tcx.all_local_trait_impls(()).iter() {
        for imp in imps.iter() {
            let did = imp.to_def_id();
            let self_ty = tcx.type_of(did).instantiate_identity().skip_norm_wip();
            let mut v = vec![
                ("trait", J::s(&path_of(tcx, *tr))),
                ("self_ty", J::s(&ty_str(self_ty))),
            ];
            if let ty::Adt(def, _) = self_ty.kind() {
                v.push(("self_adt", J::s(&path_of(tcx, def.did()))));
            }
            let (file, line, exp) = loc(tcx, tcx.def_span(did));
            v.push(("file", J::s(&file)));
            v.push(("line", J::Num(line as i128)));
            if let Some(e) = exp {
                v.push(("exp", J::s(&e)));
            }
            impls.push(J::obj(v));
        }
    }
    J::obj(vec![
        ("crate", J::s(crate_name)),
        ("fns", J::Arr(fns)),
        ("adts", J::Arr(adts)),
        ("statics", J::Arr(statics)),
        ("impls", J::Arr(impls)),
    ])
}

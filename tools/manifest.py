#!/usr/bin/env python3
"""regenerates MANIFEST.json from the rule modules present"""
import json, os, sys, importlib
V = os.path.dirname(os.path.dirname(os.path.abspath(__file__)))
sys.path.insert(0, V)
NA = {}
TECH = {}
checks = []
na = []
for i in range(1, 21):
    pid = 'C%02d' % i
    if pid in NA:
        na.append({'property_id': pid, 'reason': NA[pid]}); continue
    if not os.path.exists(os.path.join(V, 'rules', pid + '.py')):
        na.append({'property_id': pid, 'reason': 'check under construction (see DESIGN.md §4); not yet claimed'}); continue
    mod = importlib.import_module('rules.' + pid)
    checks.append({
        'property_id': pid,
        'quick_cmd': './check %s --tier quick' % pid,
        'thorough_cmd': './check %s --tier thorough' % pid,
        'evidence_file': '/verif/evidence/%s.json' % pid,
        'replay_cmd_template': './check %s --explain {path}' % pid,
        'engine': 'desfacts+rules',
        'level_claimed': {
            'category': 'other',
            'text': 'Static structural verification of necessary conditions: ' + mod.EXPLANATION,
            'design_ref': 'DESIGN.md §4 ' + pid,
        },
        'level_note': 'Trusted base: rustc MIR construction and trait resolution (nightly), the fact extractor, the hand-confirmed rule tables; std/tokio behave as documented. Partial claim: decides the named structural clauses on every path/call site/configuration, not the behaviour over all histories. ' + '; '.join(getattr(mod, 'ASSUMPTIONS', [])),
        'technique': getattr(mod, 'TECHNIQUE', 'static analysis of type-checked MIR (custom rustc_private fact extractor + repository-specific dataflow/dominance/path/ordering-table rules)'),
    })
m = {
 'version': 1,
 'setup_cmd': './setup.sh',
 'hooks': {'guard': 'petrichorit_des_verif',
           'enable': 'none needed: the analyser reads the type-checked program of the unmodified sources (cargo +nightly check with a rustc wrapper); no hooks exist in /repo',
           'baseline_off_cmd': 'cd /repo && cargo test --workspace --no-fail-fast --offline',
           'source_commits': [], 'add_only': True},
 'engines': [
   {'name': 'desfacts', 'path': 'driver/', 'serves_properties': [c['property_id'] for c in checks], 'kind_free_text': 'rustc_private MIR/type fact extractor (RUSTC_WORKSPACE_WRAPPER under cargo +nightly check)'},
   {'name': 'rules', 'path': 'rules/', 'serves_properties': [c['property_id'] for c in checks], 'kind_free_text': 'python rule engine: CFG, dominators, reaching definitions/provenance trees, branch guards, path enumeration with drop-flag propagation, ordering truth tables, call graph, strong-reference graph'},
 ],
 'checks': checks,
 'not_applicable': na,
 'notes': 'Static analysis only; every check re-extracts facts from /repo when any source file changed (content-hash cache in /verif/.cache). Fix commits in /repo are listed in known_findings.json (fixed entries).',
}
json.dump(m, open(os.path.join(V, 'MANIFEST.json'), 'w'), indent=1)
print('checks:', [c['property_id'] for c in checks], 'n/a:', [x['property_id'] for x in na])

#!/usr/bin/env python3
"""tools/gen_baseline.py [repo] — refresh the `adts` section of rules/baseline_fns.json from the pinned tree (default /repo):
  adts : path -> {kind, variants: [[name, [[field, type], ..]], ..]}   (configurations A and B merged)
  callers_by_cfg : per configuration, function key -> pinned callers (config B enables `tracing`, whose log calls must not count in A)
  fp   : function key -> {file, line, callees}   (tie-breaker when several functions of one signature were renamed together)
used by the engine to recognise renamed private types / fields / variants (core._normalise_names).  The `fns` and `callers`
sections (function key -> signature, key -> pinned callers) were produced the same way at pin time and are left untouched.
Run only when /repo's pinned tree legitimately changes (a new fix: commit)."""
import json, os, sys
V = os.path.dirname(os.path.dirname(os.path.abspath(__file__)))
sys.path.insert(0, V)
os.environ['DES_NO_BASELINE'] = '1'
from rules.engine.core import Program
from rules.engine.extract import get_facts

repo = sys.argv[1] if len(sys.argv) > 1 else '/repo'
adts = {}
fp = {}
callers_by_cfg = {}
from rules.engine.core import _local_callees
for cfg in ('A', 'B'):
    fd, _ = get_facts(repo, cfg)
    P = Program(fd, cfg)
    keys = {f.key for f in P.fn_list if f.kind not in ('closure', 'promoted')}
    cc = {}
    for f in P.fn_list:
        if f.kind == 'promoted':
            continue
        owner = f.key if f.kind != 'closure' else (f.root or f.parent)
        for c in _local_callees(P, f):
            if c in keys and owner and c != owner:
                cc.setdefault(c, set()).add(owner)
    callers_by_cfg[cfg] = {k: sorted(v) for k, v in sorted(cc.items())}
    for f in P.fn_list:
        if f.kind in ('closure', 'promoted') or f.key in fp:
            continue
        cal = set()
        for g in [f] + [h for h in P.fn_list if h.kind == 'closure' and h.root == f.key]:
            for s_ in g.calls():
                cal.add(s_.name)
        fp[f.key] = {'file': f.file, 'line': f.line, 'callees': sorted(cal)}
    for k, a in P.adts.items():
        adts.setdefault(k, {'kind': a.get('kind'), 'variants': [[v.get('n'), [[f['n'], f['ty']] for f in v['fields']]] for v in a.get('variants', [])]})
p = os.path.join(V, 'rules', 'baseline_fns.json')
base = json.load(open(p))
base['adts'] = dict(sorted(adts.items()))
base['callers_by_cfg'] = callers_by_cfg
base['fp'] = {k: v for k, v in sorted(fp.items()) if k in base['fns']}
json.dump(base, open(p, 'w'), indent=0, sort_keys=True)
print('wrote', p, len(base['fns']), 'fns', len(base['callers']), 'caller entries', len(adts), 'adts')

#!/usr/bin/env python3
"""tools/dump.py <fn-key-substring> [cfg] — readable MIR of matching bodies (development aid)"""
import sys, os
os.environ.setdefault("DESFACTS_CACHE_MAX", "900")
sys.path.insert(0, os.path.dirname(os.path.dirname(os.path.abspath(__file__))))
from rules.engine.core import *
from rules.engine.extract import get_facts

def rp(f, p):
    s = f.local_name(p['l'])
    for e in p['pr']:
        k = e['k']
        if k == 'deref': s = '(*%s)' % s
        elif k == 'field': s = '%s.%s' % (s, e.get('n', e['i']))
        elif k == 'index': s = '%s[%s]' % (s, f.local_name(e['l']))
        elif k == 'downcast': s = '(%s as %s)' % (s, e['v'])
        else: s = '%s.<%s>' % (s, k)
    return s

def ro(f, o):
    if o['k'] == 'const':
        return 'const ' + (o.get('fn') or (('static ' + o['static']) if 'static' in o else o.get('v', '')))[:80] + ('#p%d' % o['promoted'] if 'promoted' in o else '')
    if o['k'] in ('copy', 'move'):
        return o['k'] + ' ' + rp(f, o['p'])
    return str(o)

def rr(f, r):
    k = r['k']
    if k == 'use': return ro(f, r['o'])
    if k in ('ref', 'rawptr'): return ('&mut ' if r['mut'] else '&') + ('raw ' if k == 'rawptr' else '') + rp(f, r['p'])
    if k == 'binop': return '%s(%s, %s)' % (r['op'], ro(f, r['a']), ro(f, r['b']))
    if k == 'unop': return '%s(%s)' % (r['op'], ro(f, r['a']))
    if k == 'cast': return '%s as %s [%s]' % (ro(f, r['o']), r['ty'], r['ck'])
    if k == 'discr': return 'discriminant(%s)' % rp(f, r['p'])
    if k == 'agg': return '%s{%s}' % (r.get('adt', r.get('def', r.get('ak'))) + ('::' + r['variant'] if 'variant' in r else ''), ', '.join(ro(f, o) for o in r['ops']))
    if k == 'tlref': return 'tls(%s)' % r['def']
    return str(r)[:100]

def dump(f):
    print('=' * 100)
    print('%s  [%s]  %s:%s vis=%s unsafe=%s trait=%s' % (f.key, f.kind, f.file, f.line, f.vis, f.unsafe, f.trait))
    for i, l in enumerate(f.locals):
        print('   let _%d: %s  %s' % (i, l['ty'], ('// ' + f.local_name(i)) if f.local_name(i) != '_%d' % i else ''))
    for b in range(len(f.blocks)):
        if b not in f.reachable(): continue
        print(' bb%d%s:' % (b, ' (cleanup)' if f.is_cleanup(b) else ''))
        for st in f.stmts(b):
            if st['k'] == 'assign':
                print('    %s = %s   // L%s %s' % (rp(f, st['p']), rr(f, st['r']), st['ln'], st.get('exp', '')))
            else:
                print('    %s' % str(st)[:120])
        t = f.term(b)
        k = t['k']
        if k == 'call':
            print('    %s = CALL %s(%s) -> bb%s unwind %s  // L%s %s res=%s' % (rp(f, t['dest']), strip_generics(t.get('callee') or '?') if t.get('callee') else ro(f, t['f']), ', '.join(ro(f, a) for a in t['args']), t['t'], t['u'], t['ln'], t.get('exp', ''), strip_generics(t['res']) if t.get('res') else None))
        elif k == 'switch':
            print('    SWITCH %s: %s otherwise bb%d' % (ro(f, t['d']), ', '.join('%d->bb%d' % (v, tg) for v, tg in t['vals']), t['otherwise']))
        elif k == 'drop':
            print('    DROP %s : %s -> bb%d unwind %s' % (rp(f, t['p']), t['ty'], t['t'], t['u']))
        elif k == 'assert':
            print('    ASSERT %s == %s [%s] -> bb%d' % (ro(f, t['c']), t['expected'], t['ak'], t['t']))
        elif k == 'goto':
            print('    GOTO bb%d' % t['t'])
        else:
            print('    %s' % k.upper())

if __name__ == '__main__':
    repo = '/repo'
    if '--repo' in sys.argv:
        i = sys.argv.index('--repo'); repo = sys.argv[i + 1]; del sys.argv[i:i + 2]
    cfg = sys.argv[2] if len(sys.argv) > 2 else 'A'
    d, _ = get_facts(repo, cfg)
    P = Program(d, cfg)
    for f in P.fn_list:
        if sys.argv[1] in f.key:
            dump(f)
            for p in []:
                dump(p)

#!/usr/bin/env python3
"""tools/regress.py [Cxx ...] [--all-props] — two-way regression of the rules of the given properties (default: all):
  * every breaking edit known for the property (selftest/index.json entries, seeded/<id>, seeded/_incoming2/<id>) must make
    the property's own check fire (entries listed in seeded/expected_misses.json are reported as MISS-EXPECTED);
  * every behaviour-preserving refactoring (refactorings/*/*.patch.diff) must leave the check silent.
Scratch copies live in /tmp/regress/<id> (outside /repo and /verif); they are rebuilt when /repo's tree hash or the edit
changes.  `--clean` removes them.  Static only: facts are extracted by the driver, nothing of des is executed."""
import glob, hashlib, importlib, json, os, re, shutil, subprocess, sys

V = os.path.dirname(os.path.dirname(os.path.abspath(__file__)))
os.environ.setdefault('DESFACTS_CACHE_MAX', '500')
sys.path.insert(0, V)
from rules.engine.run import Ctx, load_known
from rules.engine.core import Program, MissingAnchor, TooManyPaths
from rules.engine.extract import get_facts, ExtractError, tree_hash

ROOT = '/tmp/regress'


def scratch(eid, kind, spec):
    """returns scratch dir with the edit applied, or None"""
    h = hashlib.sha1((tree_hash('/repo') + json.dumps(spec, sort_keys=True) + (open(spec['path'], 'rb').read().decode('utf8', 'replace') if spec.get('path') else '')).encode()).hexdigest()[:16]
    d = os.path.join(ROOT, eid)
    stamp = os.path.join(d, '.regress-stamp')
    if os.path.exists(stamp) and open(stamp).read() == h:
        return d
    shutil.rmtree(d, ignore_errors=True)
    os.makedirs(d)
    subprocess.check_call(['rsync', '-a', '--exclude', 'target', '--exclude', '.git', '/repo/', d + '/'])
    if kind in ('patch', 'rpatch'):
        r = subprocess.run(['git', 'apply'] + (['-R'] if kind == 'rpatch' else []) + [spec['path']], cwd=d, capture_output=True, text=True)
        if r.returncode != 0:
            shutil.rmtree(d, ignore_errors=True)
            return None
    else:
        p = os.path.join(d, spec['file'])
        src = open(p).read()
        if len(re.findall(spec['pattern'], src, flags=re.S)) != 1:
            shutil.rmtree(d, ignore_errors=True)
            return None
        open(p, 'w').write(re.sub(spec['pattern'], spec['replacement'], src, count=1, flags=re.S))
    open(stamp, 'w').write(h)
    return d


_PROGS = {}


def keys_for(d, pid):
    # a fresh Program per (tree, property), exactly as ./check does (expression caches are per process there)
    try:
        fd, _ = get_facts(d, 'A')
        P = Program(fd, 'A')
    except ExtractError as e:
        return None
    mod = importlib.import_module('rules.%s' % pid)
    ctx = Ctx(pid, 'quick', 0, {'A': P}, {})
    try:
        mod.run(ctx)
    except (MissingAnchor, TooManyPaths) as e:
        ctx.violation('engine:%s' % e, str(e))
    known = {k['key'] for k in load_known().get('known', [])}
    return [v['key'] for v in ctx.violations if v['key'] not in known]


def main():
    args = [a for a in sys.argv[1:] if not a.startswith('--')]
    if '--clean' in sys.argv:
        shutil.rmtree(ROOT, ignore_errors=True)
        return 0
    props = args or sorted(os.path.basename(p)[:-3] for p in glob.glob(os.path.join(V, 'rules', 'C??.py')))
    expected_miss = {}
    emp = os.path.join(V, 'seeded', 'expected_misses.json')
    if os.path.exists(emp):
        expected_miss = json.load(open(emp))
    breaking = []   # (id, property, kind, spec)
    for e in json.load(open(os.path.join(V, 'selftest', 'index.json'))):
        if e['kind'] in ('patch', 'rpatch'):
            if e['id'].startswith('seed-'):
                continue   # covered by the seeded/ scan below
            breaking.append((e['id'], e['property'], e['kind'], {'path': os.path.join(V, e['path'])}))
        else:
            breaking.append((e['id'], e['property'], 'sed', {'file': e['file'], 'pattern': e['pattern'], 'replacement': e['replacement']}))
    for p in sorted(glob.glob(os.path.join(V, 'seeded', 'C???', 'patch.diff'))):
        sid = os.path.basename(os.path.dirname(p))
        breaking.append((sid, sid[:3], 'patch', {'path': p}))
    for p in sorted(glob.glob(os.path.join(V, 'seeded', '_incoming2', '*', '*.patch.diff'))):
        sid = os.path.basename(p).split('.')[0]
        if not os.path.exists(os.path.join(V, 'seeded', sid, 'patch.diff')):
            breaking.append((sid, sid[:3], 'patch', {'path': p}))
    refac = [(os.path.basename(p).split('.')[0], p) for p in sorted(glob.glob(os.path.join(V, 'refactorings', '*', '*.patch.diff')))]
    bad = 0
    for pid in props:
        print('== %s' % pid, flush=True)
        base = keys_for('/repo', pid)
        if base:
            print('  ALARM on /repo: %s' % base); bad += 1
        for eid, prop, kind, spec in breaking:
            if prop != pid:
                continue
            d = scratch(eid, kind, spec)
            if d is None:
                print('  %-28s does not apply' % eid); continue
            ks = keys_for(d, pid)
            if ks is None:
                print('  %-28s does not compile' % eid); continue
            if ks:
                print('  %-28s fires   %s' % (eid, sorted({k.split(':')[0] for k in ks})))
            elif eid in expected_miss:
                print('  %-28s MISS-EXPECTED (%s)' % (eid, expected_miss[eid][:80]))
            else:
                print('  %-28s SILENT  <<<<<<<<' % eid); bad += 1
        for rid, p in refac:
            d = scratch(rid, 'patch', {'path': p})
            if d is None:
                print('  %-28s refactoring does not apply' % rid); continue
            ks = keys_for(d, pid)
            if ks is None:
                print('  %-28s refactoring does not compile' % rid); continue
            if ks:
                print('  %-28s FALSE ALARM %s  <<<<<<<<' % (rid, ks)); bad += 1
    print('regress: %d problem(s)' % bad)
    return 1 if bad else 0


if __name__ == '__main__':
    sys.exit(main())

#!/usr/bin/env python3
"""tools/regress.py [Cxx ...] [--all-props] — two-way regression of the rules of the given properties (default: all):
  * every breaking edit known for the property (selftest/index.json entries, seeded/<id>, seeded/_incoming2/<id>) must make
    the property's own check fire (entries listed in seeded/expected_misses.json are reported as MISS-EXPECTED);
  * every behaviour-preserving refactoring (refactorings/*/*.patch.diff) must leave the check silent.
Scratch copies live in /tmp/regress/<id> (outside /repo and /verif); they are rebuilt when /repo's tree hash or the edit
changes.  `--clean` removes them.  Static only: facts are extracted by the driver, nothing of des is executed."""
import glob, hashlib, importlib, json, os, re, shutil, subprocess, sys

V = os.path.dirname(os.path.dirname(os.path.abspath(__file__)))
os.environ.setdefault('DESFACTS_CACHE_MAX', '900')
sys.path.insert(0, V)
from rules.engine.run import Ctx, load_known
from rules.engine.core import Program, MissingAnchor, TooManyPaths
from rules.engine.extract import get_facts, ExtractError, tree_hash

ROOT = '/tmp/regress'


def scratch(eid, kind, spec):
    """returns scratch dir with the edit applied, or None"""
    h = hashlib.sha1((tree_hash('/repo') + json.dumps(spec, sort_keys=True) + (open(spec['path'], 'rb').read().decode('utf8', 'replace') if spec.get('path') else '')).encode()).hexdigest()[:16]
    d = os.path.join(ROOT, eid)
    stamp = os.path.join(d, '.regress-stamp')
    if os.path.exists(stamp) and open(stamp).read() == h:
        return d
    shutil.rmtree(d, ignore_errors=True)
    os.makedirs(d)
    subprocess.check_call(['rsync', '-a', '--exclude', 'target', '--exclude', '.git', '/repo/', d + '/'])
    if kind in ('patch', 'rpatch'):
        r = subprocess.run(['git', 'apply'] + (['-R'] if kind == 'rpatch' else []) + [spec['path']], cwd=d, capture_output=True, text=True)
        if r.returncode != 0:
            shutil.rmtree(d, ignore_errors=True)
            return None
    else:
        p = os.path.join(d, spec['file'])
        src = open(p).read()
        if len(re.findall(spec['pattern'], src, flags=re.S)) != 1:
            shutil.rmtree(d, ignore_errors=True)
            return None
        open(p, 'w').write(re.sub(spec['pattern'], spec['replacement'], src, count=1, flags=re.S))
    open(stamp, 'w').write(h)
    return d


_PROGS = {}


def keys_for(d, pid):
    # a fresh Program per (tree, property), exactly as ./check does (expression caches are per process there)
    try:
        fd, _ = get_facts(d, 'A')
        P = Program(fd, 'A')
    except ExtractError as e:
        return None
    mod = importlib.import_module('rules.%s' % pid)
    ctx = Ctx(pid, 'quick', 0, {'A': P}, {})
    try:
        mod.run(ctx)
    except (MissingAnchor, TooManyPaths) as e:
        ctx.violation('engine:%s' % e, str(e))
    except Exception as e:   # a crashing rule is a broken check: reported like an alarm
        import traceback
        ctx.violation('engine-crash:%s:%s' % (type(e).__name__, e), traceback.format_exc()[-600:])
    known = {k['key'] for k in load_known().get('known', [])}
    return [v['key'] for v in ctx.violations if v['key'] not in known]


def main():
    args = [a for a in sys.argv[1:] if not a.startswith('--')]
    if '--clean' in sys.argv:
        shutil.rmtree(ROOT, ignore_errors=True)
        return 0
    props = args or sorted(os.path.basename(p)[:-3] for p in glob.glob(os.path.join(V, 'rules', 'C??.py')))
    expected_miss = {}
    emp = os.path.join(V, 'seeded', 'expected_misses.json')
    if os.path.exists(emp):
        expected_miss = json.load(open(emp))
    # refactorings the checks are known to alarm on (documented limits, DESIGN §11): reported, not counted as regressions
    eap = os.path.join(V, 'refactorings', 'expected_alarms.json')
    if os.path.exists(eap):
        for k, v in json.load(open(eap)).items():
            expected_miss['refac:' + k] = v
    breaking = []   # (id, property, kind, spec)
    for e in json.load(open(os.path.join(V, 'selftest', 'index.json'))):
        if e['kind'] in ('patch', 'rpatch'):
            if e['id'].startswith('seed-'):
                continue   # covered by the seeded/ scan below
            breaking.append((e['id'], e['property'], e['kind'], {'path': os.path.join(V, e['path'])}))
        else:
            breaking.append((e['id'], e['property'], 'sed', {'file': e['file'], 'pattern': e['pattern'], 'replacement': e['replacement']}))
    for p in sorted(glob.glob(os.path.join(V, 'seeded', 'C???', 'patch.diff'))):
        sid = os.path.basename(os.path.dirname(p))
        breaking.append((sid, sid[:3], 'patch', {'path': p}))
    for p in sorted(glob.glob(os.path.join(V, 'seeded', '_incoming2', '*', '*.patch.diff'))):
        sid = os.path.basename(p).split('.')[0]
        if not os.path.exists(os.path.join(V, 'seeded', sid, 'patch.diff')):
            breaking.append((sid, sid[:3], 'patch', {'path': p}))
    refac = [(os.path.basename(p).split('.')[0], p) for p in sorted(glob.glob(os.path.join(V, 'refactorings', '*', '*.patch.diff')))]
    jobs = 1
    for a in sys.argv[1:]:
        if a.startswith('--jobs='):
            jobs = int(a.split('=')[1])
    if jobs > 1:
        # phase 1: scratch copies + fact extraction, trees partitioned over workers (each with its own cargo target directory)
        import multiprocessing as mp
        get_facts('/repo', 'A')
        trees = [(eid, kind, spec) for eid, prop, kind, spec in breaking if prop in props] + [(rid, 'patch', {'path': p}) for rid, p in refac]
        with mp.Pool(jobs) as pool:
            done = 0
            for _ in pool.imap_unordered(_prewarm, trees, chunksize=4):
                done += 1
                if done % 50 == 0:
                    print('  [prewarm %d/%d]' % (done, len(trees)), flush=True)
        os.environ.pop('DESFACTS_SLOT', None)
        with mp.Pool(jobs) as pool:
            bad = 0
            for lines, b in pool.imap(_one_property, [(pid, breaking, refac, expected_miss) for pid in props]):
                print('\n'.join(lines), flush=True)
                bad += b
        print('regress: %d problem(s)' % bad)
        return 1 if bad else 0
    bad = 0
    for pid in props:
        lines, b = _one_property((pid, breaking, refac, expected_miss))
        print('\n'.join(lines), flush=True)
        bad += b
    print('regress: %d problem(s)' % bad)
    return 1 if bad else 0


def _prewarm(t):
    import multiprocessing as mp
    os.environ['DESFACTS_SLOT'] = str(mp.current_process()._identity[0])
    eid, kind, spec = t
    d = scratch(eid, kind, spec)
    if d is not None:
        try:
            get_facts(d, 'A')
        except ExtractError:
            pass
    return eid


def _one_property(arg):
    pid, breaking, refac, expected_miss = arg
    out = ['== %s' % pid]
    bad = 0
    base = keys_for('/repo', pid)
    if base:
        out.append('  ALARM on /repo: %s' % base); bad += 1
    for eid, prop, kind, spec in breaking:
        if prop != pid:
            continue
        d = scratch(eid, kind, spec)
        if d is None:
            out.append('  %-28s does not apply' % eid); continue
        ks = keys_for(d, pid)
        if ks is None:
            out.append('  %-28s does not compile' % eid); continue
        if ks:
            out.append('  %-28s fires   %s' % (eid, sorted({k.split(':')[0] for k in ks})))
        elif eid in expected_miss:
            out.append('  %-28s MISS-EXPECTED (%s)' % (eid, expected_miss[eid][:80]))
        else:
            out.append('  %-28s SILENT  <<<<<<<<' % eid); bad += 1
    for rid, p in refac:
        d = scratch(rid, 'patch', {'path': p})
        if d is None:
            out.append('  %-28s refactoring does not apply' % rid); continue
        ks = keys_for(d, pid)
        if ks is None:
            out.append('  %-28s refactoring does not compile' % rid); continue
        if ks and ('refac:' + rid) in expected_miss:
            out.append('  %-28s ALARM-EXPECTED %s' % (rid, sorted({k.split(':')[0] for k in ks})))
        elif ks:
            out.append('  %-28s FALSE ALARM %s  <<<<<<<<' % (rid, ks)); bad += 1
    return out, bad


if __name__ == '__main__':
    sys.exit(main())

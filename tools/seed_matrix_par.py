#!/usr/bin/env python3
"""tools/seed_matrix_par.py [--jobs=N] — the seed x check matrix (seeded/matrix.json: {seed: {prop: [violation keys]}}) for every
seeded/<id>/patch.diff, computed in parallel on the scratch copies tools/regress.py uses (development tool; static only: every check
is run on the facts of the patched scratch tree, nothing of des is executed)."""
import glob, json, os, sys
V = os.path.dirname(os.path.dirname(os.path.abspath(__file__)))
sys.path.insert(0, V); sys.path.insert(0, os.path.join(V, 'tools'))
os.environ.setdefault('DESFACTS_CACHE_MAX', '1300')
import multiprocessing as mp
import regress as R

PROPS = sorted(os.path.basename(p)[:-3] for p in glob.glob(os.path.join(V, 'rules', 'C??.py')))


def run(t):
    sid, patch = t
    os.environ['DESFACTS_SLOT'] = str(mp.current_process()._identity[0])
    d = R.scratch(sid, 'patch', {'path': patch})
    if d is None:
        return sid, {'error': 'patch does not apply'}
    try:
        R.get_facts(d, 'A')
    except R.ExtractError:
        return sid, {'error': 'does not compile'}
    os.environ.pop('DESFACTS_SLOT', None)
    row = {}
    for pid in PROPS:
        ks = R.keys_for(d, pid)
        if ks is None:
            return sid, {'error': 'does not compile'}
        if ks:
            row[pid] = ks
    return sid, row


if __name__ == '__main__':
    jobs = next((int(a.split('=')[1]) for a in sys.argv[1:] if a.startswith('--jobs=')), 8)
    seeds = [(os.path.basename(os.path.dirname(p)), p) for p in sorted(glob.glob(os.path.join(V, 'seeded', 'C*', 'patch.diff')))]
    res = {}
    with mp.Pool(jobs) as pool:
        for sid, row in pool.imap_unordered(run, seeds):
            res[sid] = row
            print(sid, {k: len(v) for k, v in row.items()} if 'error' not in row else row, flush=True)
    json.dump(dict(sorted(res.items())), open(os.path.join(V, 'seeded', 'matrix.json'), 'w'), indent=1, sort_keys=True)
    own = sum(1 for s, r in res.items() if s[:3] in r)
    print('seeds: %d, own property fires: %d, errors: %d' % (len(res), own, sum(1 for r in res.values() if 'error' in r)))

#!/usr/bin/env python3
"""tools/gen_seedtable.py — prints the markdown table of seeded changes (DESIGN §10) from seeded/*/meta.json, selftest/index.json
and seeded/round2_first_run.json"""
import json, os, glob, re
V = os.path.dirname(os.path.dirname(os.path.abspath(__file__)))
idx = {e['id']: e for e in json.load(open(os.path.join(V, 'selftest', 'index.json')))}
first = json.load(open(os.path.join(V, 'seeded', 'round2_first_run.json'))) if os.path.exists(os.path.join(V, 'seeded', 'round2_first_run.json')) else {}
first3 = json.load(open(os.path.join(V, 'seeded', 'round3_first_run.json'))) if os.path.exists(os.path.join(V, 'seeded', 'round3_first_run.json')) else {}
matrix = json.load(open(os.path.join(V, 'seeded', 'matrix.json')))
rows = []
for d in sorted(glob.glob(os.path.join(V, 'seeded', 'C*'))):
    sid = os.path.basename(d)
    if not os.path.exists(os.path.join(d, 'meta.json')):
        continue
    meta = json.load(open(os.path.join(d, 'meta.json')))
    what = meta.get('summary')
    if not what:
        notes = open(os.path.join(d, 'notes.md')).read() if os.path.exists(os.path.join(d, 'notes.md')) else ''
        lines = [l.strip('# *-').strip() for l in notes.splitlines() if l.strip() and not l.lower().startswith(('```',))]
        what = (lines[0] if lines else '')[:110]
    e = idx.get('seed-' + sid, {})
    rules = ', '.join(e.get('expect_rules', [])) or '—'
    others = [p for p in matrix.get(sid, {}) if p != sid[:3] and p != 'error']
    own = matrix.get(sid, {}).get(sid[:3])
    caught = rules if own else ('**missed by %s**' % sid[:3])
    if others:
        caught += ' (also ' + ', '.join(sorted(others)) + ')'
    fr = ''
    if sid in first:
        f0 = first[sid]
        fr = 'first run: ' + ('caught' if f0.get(sid[:3]) else ('other property only: ' + ','.join(sorted(f0)) if f0 else 'MISSED'))
    if sid in first3:
        fr = 'first run: ' + ('caught' if first3[sid].get('own_property_fired_on_first_run') else 'not caught by ' + sid[:3])
    for fn_ in ('round4_first_run.json', 'round5_first_run.json', 'round6_first_run.json', 'round7_first_run.json', 'round8_first_run.json', 'round9_first_run.json'):
        pth = os.path.join(V, 'seeded', fn_)
        if os.path.exists(pth):
            d_ = json.load(open(pth))
            if sid in d_:
                o_ = d_[sid].get('other_properties_fired') or []
                fr = 'first run: ' + ('caught' if d_[sid].get('own_property_fired_on_first_run') else ('only by ' + ', '.join(o_) if o_ else 'not caught'))
    rows.append('| %s | %s | %s%s |' % (sid, what.replace('|', '/'), caught, (' — ' + fr) if fr else ''))
print('\n'.join(rows))
